#!/bin/sh
# usage: tools/try_seed.sh name...  -- development helper: applies each seeded patch in a scratch worktree (not /repo) and runs the property's quick check with --root.
# (the recorded results in seeded/RESULTS.json come from tools/seed_results.py, which applies the patch to /repo itself)
wt=/tmp/wt/tryseed
[ -d $wt ] || git -C /repo worktree add -q --detach $wt HEAD
git -C $wt checkout -q --detach $(git -C /repo rev-parse HEAD) 2>/dev/null
for n in "$@"; do
  id=$(/venv/bin/python -c "import json;print(json.load(open('/verif/seeded/$n/meta.json'))['property'])")
  git -C $wt checkout -q -- . ; git -C $wt clean -fdq
  if git -C $wt apply --3way /verif/seeded/$n/patch.diff 2>/dev/null || git -C $wt apply /verif/seeded/$n/patch.diff; then
    out=$(cd /verif && ./check $id --root $wt --no-write 2>&1); rc=$?
    echo "$n ($id): exit $rc  $(echo "$out" | grep -c '^VIOLATION') violation(s) $(echo "$out" | grep -m2 'expected:\|ANALYSIS' | tr '\n' ' ' | cut -c1-220)"
  else echo "$n: patch does not apply"; fi
  git -C $wt reset -q HEAD -- . ; git -C $wt checkout -q -- .
done
