#!/venv/bin/python
"""tools/seed_results.py [names...] - applies each seeded change to /repo, runs the property's quick check
(no evidence written), records which rules fire, reverts.  Writes seeded/RESULTS.json (committed; consumed by
tools/gen_status.py for DESIGN.md section 8.5)."""
import json, os, re, subprocess, sys
HERE = os.path.dirname(os.path.dirname(os.path.abspath(__file__)))
names = sys.argv[1:] or sorted(d for d in os.listdir(os.path.join(HERE, "seeded")) if os.path.isdir(os.path.join(HERE, "seeded", d)))
path = os.path.join(HERE, "seeded", "RESULTS.json")
res = json.load(open(path)) if os.path.exists(path) else {}
head = subprocess.check_output(["git", "-C", "/repo", "rev-parse", "--short", "HEAD"], text=True).strip()
for n in names:
    d = os.path.join(HERE, "seeded", n)
    meta = json.load(open(os.path.join(d, "meta.json")))
    if subprocess.run(["git", "-C", "/repo", "diff", "--quiet"]).returncode != 0:
        sys.exit("/repo dirty - abort")
    ap = subprocess.run(["git", "-C", "/repo", "apply", os.path.join(d, "patch.diff")], capture_output=True, text=True)
    if ap.returncode != 0:
        ap = subprocess.run(["git", "-C", "/repo", "apply", "--3way", os.path.join(d, "patch.diff")], capture_output=True, text=True)
    if ap.returncode != 0:
        subprocess.run(["git", "-C", "/repo", "reset", "-q", "HEAD", "--", "."])
        subprocess.run(["git", "-C", "/repo", "checkout", "HEAD", "--", "."])
        res[n] = {"property": meta["property"], "applies": False, "repo_head": head}
        print(n, "patch does not apply")
        continue
    try:
        p = subprocess.run([os.path.join(HERE, "check"), meta["property"], "--no-write"], capture_output=True, text=True, cwd=HERE)
        rules = sorted(set(re.findall(r"^\S+ (C\d+\.\w+) ", p.stdout, re.M)))
        res[n] = {"property": meta["property"], "applies": True, "exit": p.returncode, "violations": p.stdout.count("\nVIOLATION "), "rules": rules,
                  "needs": meta["needs_to_manifest"], "repo_head": head}
        print(n, meta["property"], "exit", p.returncode, rules)
    finally:
        subprocess.run(["git", "-C", "/repo", "reset", "-q", "HEAD", "--", "."])
        subprocess.run(["git", "-C", "/repo", "checkout", "--", "."])
json.dump(res, open(path, "w"), indent=1, sort_keys=True)
