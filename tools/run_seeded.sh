#!/bin/sh
# usage: tools/run_seeded.sh [name...]  -- applies each seeded patch to /repo, runs the property's quick check (no evidence written), reverts.
cd /verif
names=${@:-$(ls seeded)}
for n in $names; do
  id=$(/venv/bin/python -c "import json;print(json.load(open('/verif/seeded/$n/meta.json'))['property'])")
  if ! git -C /repo diff --quiet; then echo "/repo dirty - abort"; exit 1; fi
  if git -C /repo apply --3way /verif/seeded/$n/patch.diff 2>/dev/null || git -C /repo apply /verif/seeded/$n/patch.diff; then
    if [ -f sa/rules/$(echo $id | tr A-Z a-z).py ]; then
      out=$(./check $id --no-write 2>&1); rc=$?
      echo "$n ($id): exit $rc  $(echo "$out" | grep -c '^VIOLATION') violation(s) $(echo "$out" | grep -m2 -A0 'expected:' | tr '\n' ' ' | cut -c1-200)"
    else echo "$n ($id): no check yet"; fi
  else echo "$n: patch does not apply"; fi
  git -C /repo reset -q HEAD -- . ; git -C /repo checkout -- .
done
