#!/venv/bin/python
"""tools/twin_sweep.py [Cnn ...] - robustness sweep: for every function a property's rules looked at, rename each
local variable (a behaviour-preserving edit) in an in-memory overlay and re-run the rules.  Any new finding or
analysis error is a false alarm of the CHECK (printed; exit 1).  Not part of the registered checks: a development
tool to find rules that pin local names."""
import ast, os, sys, importlib, json, concurrent.futures as cf
HERE = os.path.dirname(os.path.dirname(os.path.abspath(__file__)))
sys.path.insert(0, HERE)
from sa.core import Project, AnalysisError
from sa.report import Ctx
from sa.related import run_rules


def local_names(fn):
    params = {a.arg for a in fn.args.posonlyargs + fn.args.args + fn.args.kwonlyargs}
    if fn.args.vararg: params.add(fn.args.vararg.arg)
    if fn.args.kwarg: params.add(fn.args.kwarg.arg)
    stores, banned = set(), set()
    for n in ast.walk(fn):
        if isinstance(n, (ast.Global, ast.Nonlocal)):
            banned |= set(n.names)
        if isinstance(n, ast.Name) and isinstance(n.ctx, ast.Store):
            stores.add(n.id)
    return sorted(s for s in stores - params - banned if not s.startswith("__"))


def rename(src, fn, name, new):
    """rename every Name `name` inside fn (all nested scopes too: closures read it) by position"""
    lines = src.split("\n")
    pos = []
    for n in ast.walk(fn):
        if isinstance(n, ast.Name) and n.id == name:
            pos.append((n.lineno, n.col_offset))
        elif isinstance(n, ast.arg) and n.arg == name and n is not None:
            return None   # a nested function has a parameter of that name: skip
        elif isinstance(n, (ast.keyword,)) and n.arg == name:
            pass
    for ln, col in sorted(pos, reverse=True):
        l = lines[ln - 1]
        # col_offset is in utf8 bytes
        b = l.encode("utf8")
        if b[col:col + len(name)].decode("utf8", "ignore") != name:
            return None
        lines[ln - 1] = (b[:col] + new.encode() + b[col + len(name):]).decode("utf8")
    out = "\n".join(lines)
    try:
        ast.parse(out)
    except SyntaxError:
        return None
    return out


def sweep(prop):
    ROOT = os.environ.get("SWEEP_ROOT", "/repo")
    base_p = Project(ROOT)
    base = Ctx(prop, base_p, quiet=True)
    run_rules(prop, base)
    base_keys = {Ctx.key(f) for f in base.findings}
    sites = sorted(base.analysed.get("functions", set()))
    res = []
    n = 0
    for site in sites:
        if ":" not in site:
            continue
        rel, qual = site.split(":", 1)
        mod = base_p.modules.get(rel)
        if mod is None:
            continue
        fn = mod.defs.get(qual)
        if not isinstance(fn, ast.FunctionDef):
            continue
        for name in local_names(fn):
            new_src = rename(mod.source, fn, name, name + "_rn")
            if new_src is None:
                continue
            n += 1
            try:
                c = Ctx(prop, Project(ROOT, overlay={rel: new_src}, base=base_p), quiet=True)
                run_rules(prop, c)
                c.check_floors()
                new = [Ctx.key(f) for f in c.findings if Ctx.key(f) not in base_keys]
                err = None
            except AnalysisError as e:
                new, err = [], str(e)[:100]
            except Exception as e:
                new, err = [], "internal: %s %s" % (type(e).__name__, str(e)[:80])
            if new or err:
                res.append((site, name, err or new[0]))
    return prop, n, res


if __name__ == "__main__":
    props = [a.upper() for a in sys.argv[1:]] or [c["property_id"] for c in json.load(open(os.path.join(HERE, "MANIFEST.json")))["checks"]]
    bad = 0
    with cf.ProcessPoolExecutor(max_workers=10) as ex:
        for prop, n, res in ex.map(sweep, props):
            print("%s: %d renames tried, %d alarms" % (prop, n, len(res)))
            for site, name, what in res:
                print("   %s  local `%s` -> %s" % (site, name, what[:150]))
            bad += len(res)
    sys.exit(1 if bad else 0)
