#!/venv/bin/python
"""Regenerate /verif/MANIFEST.json from sa/registry.py and the rule modules present."""
import json, os, sys
HERE = os.path.dirname(os.path.dirname(os.path.abspath(__file__)))
sys.path.insert(0, HERE)
from sa.registry import CLAIMS, NOT_APPLICABLE, EXTRA
props = [json.loads(l) for l in open(os.path.join(HERE, "properties.jsonl"))]
checks, na = [], []
for p in props:
    pid = p["id"]
    has = os.path.exists(os.path.join(HERE, "sa", "rules", pid.lower() + ".py"))
    if has and pid in CLAIMS:
        dec, nodec, tech = CLAIMS[pid]
        if pid in EXTRA:
            dec = dec + "; " + EXTRA[pid]
        checks.append({
            "property_id": pid,
            "quick_cmd": "./check %s" % pid,
            "thorough_cmd": "./check %s --tier thorough" % pid,
            "evidence_file": "/verif/evidence/%s.json" % pid,
            "replay_cmd_template": "./check %s --replay {path}" % pid,
            "engine": "sa",
            "level_claimed": {
                "category": "other",
                "text": "Static analysis (no execution) of /repo's current source decides these structural necessary conditions of the property for all inputs: %s. It does not decide: %s." % (dec, nodec),
                "design_ref": "DESIGN.md section 4 (%s)" % pid,
            },
            "level_note": "Trusted base: Python's ast parser, the engine's resolver/CFG/const-evaluator, and the specification tables frozen in sa/rules/%s.py. Not decided: %s." % (pid.lower(), nodec),
            "technique": "static analysis: " + tech,
        })
    elif pid in NOT_APPLICABLE:
        na.append({"property_id": pid, "reason": NOT_APPLICABLE[pid]})
    else:
        na.append({"property_id": pid, "reason": "static rules designed (DESIGN.md section 4) but the check is not built yet; not claimed"})
m = {
    "version": 1,
    "setup_cmd": "true",
    "hooks": {"guard": "PPCI_VERIF", "enable": "no hooks: the checks only read /repo's source (the guard variable is unused)",
              "baseline_off_cmd": "cd /repo && /venv/bin/python -m pytest -ra -q -p no:cacheprovider --timeout=900 --continue-on-collection-errors",
              "source_commits": [], "add_only": True},
    "engines": [{"name": "sa", "path": "/verif/sa", "serves_properties": [c["property_id"] for c in checks],
                 "kind_free_text": "repository-specific static analysis: ast loader/resolver, CFG with must-pass-through, def-use closure, symbolic affine/pow2 shapes, table extraction, import-elaborated ISA declarations; self-test by in-memory mutants and refactor twins"}],
    "checks": checks,
    "notes": "Every check is ./check <id>; exit 0 ok, 1 VIOLATION, 2 ANALYSIS-ERROR. known_findings.json lists open genuine defects (printed as KNOWN-FINDING) and fixed: records. Thorough tier adds the property's mutant/twin self-test.",
    "not_applicable": na,
}
json.dump(m, open(os.path.join(HERE, "MANIFEST.json"), "w"), indent=1)
print("checks:", [c["property_id"] for c in checks]); print("n/a:", [x["property_id"] for x in na])
