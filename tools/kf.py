#!/venv/bin/python
"""tools/kf.py list Cnn            - list unlisted finding keys of the current tree
   tools/kf.py add Cnn <n|all> "what fails (input shown against the real code)"  - add finding n to known_findings.json
   tools/kf.py fixed Cnn <commit> "what failed"
(never used at check run time)"""
import json, os, sys, importlib
HERE = os.path.dirname(os.path.dirname(os.path.abspath(__file__)))
sys.path.insert(0, HERE)
from sa.core import Project
from sa.report import Ctx, load_known
cmd, prop = sys.argv[1], sys.argv[2].upper()
path = os.path.join(HERE, "known_findings.json")
k = load_known()
if cmd == "fixed":
    k["fixed"].append("fixed: property=%s %s %s" % (prop, sys.argv[3], sys.argv[4]))
else:
    from sa.related import run_rules
    ctx = Ctx(prop, Project("/repo"), quiet=True)
    run_rules(prop, ctx)
    listed = {x["key"] for x in k["open"] if x["property"] == prop}
    new = []
    for f in ctx.findings:
        key = Ctx.key(f)
        if key not in listed and key not in [n[0] for n in new]:
            new.append((key, f))
    if cmd == "list":
        for i, (key, f) in enumerate(new):
            print(i, key, "|", f.get("detail"))
        sys.exit(0)
    sel = range(len(new)) if sys.argv[3] == "all" else [int(x) for x in sys.argv[3].split(",")]
    for i in sel:
        k["open"].append({"property": prop, "key": new[i][0], "what": sys.argv[4]})
json.dump(k, open(path, "w"), indent=1)
print("open:", len(k["open"]), "fixed:", len(k["fixed"]))
