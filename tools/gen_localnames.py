#!/venv/bin/python
"""Regenerate sa/localnames.json (expected parameter / local names of every function of /repo/ppci, with the
structural fingerprint of each local's first binding) from the current tree.  Run after a `fix:` commit or when
rule modules are adapted to renamed code."""
import json, os, sys
HERE = os.path.dirname(os.path.dirname(os.path.abspath(__file__)))
sys.path.insert(0, HERE)
import sa.localnames as ln
ln._table = {}          # generate from the raw tree
from sa.core import Project
pr = Project("/repo", normalise_names=False)
out = {}
for rel, m in sorted(pr.modules.items()):
    d = ln.describe_module(m)
    if d:
        out[rel] = d
json.dump(out, open(ln.TABLE, "w"), separators=(",", ":"), sort_keys=True)
print("functions:", sum(len(v) for v in out.values()), "bytes:", os.path.getsize(ln.TABLE))
