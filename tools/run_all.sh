#!/bin/sh
# runs every claimed check's quick command on /repo (writes evidence); prints one line per property
cd /verif
for id in $(/venv/bin/python -c "import json;print(' '.join(c['property_id'] for c in json.load(open('MANIFEST.json'))['checks']))"); do
  out=$(./check $id 2>&1); rc=$?
  echo "$id exit=$rc $(echo "$out" | tail -1 | cut -c1-120)"
done
