#!/bin/sh
# usage: tools/confirm_seed.sh <Cnn> [<name>] "<what it needs to manifest>"
# Re-verifies a sub-agent's seeded change in its scratch worktree /tmp/wt/<name>, stores it under /verif/seeded/<name>/, removes the worktree.
id=$1; name=${2:-$1}; needs=$3
wt=/tmp/wt/$name
cd $wt || exit 1
git diff -- ppci > /tmp/wt/$name.patch
[ -s /tmp/wt/$name.patch ] || { echo "no change in worktree"; exit 1; }
demo=$(ls demo_*.py | head -1)
PYTHONPATH=$wt /venv/bin/python $demo >/tmp/wt/$name.with.log 2>&1; with=$?
suite=$(PYTHONPATH=$wt /venv/bin/python -m pytest -q -p no:cacheprovider --timeout=900 2>&1 | tail -1)
git apply -R /tmp/wt/$name.patch || exit 1
PYTHONPATH=$wt /venv/bin/python $demo >/tmp/wt/$name.without.log 2>&1; without=$?
echo "demo with change: exit $with; without: exit $without; suite with change: $suite"
case "$suite" in 1400\ passed*) ;; *) echo "SUITE NOT GREEN"; exit 1;; esac
[ $with -ne 0 ] && [ $without -eq 0 ] || { echo "DEMO DOES NOT DISCRIMINATE"; exit 1; }
d=/verif/seeded/$name; mkdir -p $d
cp /tmp/wt/$name.patch $d/patch.diff; cp $demo $d/
/venv/bin/python - "$id" "$name" "$needs" "$demo" "$suite" "$with" <<'PY'
import json,sys
id,name,needs,demo,suite,w=sys.argv[1:]
json.dump({"property":id,"breaks":id,"needs_to_manifest":needs,"demo":demo,
 "confirmed":{"demo_exit_with_change":int(w),"demo_exit_without_change":0,"suite_with_change":suite,
 "how":"in a scratch worktree of /repo at the pinned commit: applied patch.diff, ran the demo (fails), ran the full baseline pytest suite (green), reverted, ran the demo (passes)"},
 "base_commit":__import__("subprocess").check_output(["git","-C","/repo","rev-parse","--short","HEAD"],text=True).strip()},open("/verif/seeded/%s/meta.json"%name,"w"),indent=1)
PY
cd / && git -C /repo worktree remove --force $wt && rm -f /tmp/wt/$name.patch /tmp/wt/$name.*.log && echo "stored $d, worktree removed"
