#!/venv/bin/python
"""Hand triage helper (NOT part of any check): compile a one-instruction IR function for a
(target, terminal) gap reported by C29 and report whether code generation fails."""
import sys, io
sys.path.insert(0, "/repo")
from ppci import ir, api
from ppci.irutils import verify_module
TY = {t.name.upper(): t for t in ir.all_types if hasattr(t, "name")}
OPS = {"ADD": "+", "SUB": "-", "MUL": "*", "DIV": "/", "REM": "%", "AND": "&", "OR": "|", "XOR": "^", "SHL": "<<", "SHR": ">>"}
UN = {"NEG": "-", "INV": "~"}
def module(term):
    for k in list(OPS) + list(UN) + ["CONST"]:
        if term.startswith(k):
            op, tn = k, term[len(k):]
            break
    else:
        return None
    ty = TY[tn]
    m = ir.Module("m")
    f = ir.Function("f", ir.Binding.GLOBAL, ty); m.add_function(f)
    a = ir.Parameter("a", ty); b = ir.Parameter("b", ty); f.add_parameter(a); f.add_parameter(b)
    blk = ir.Block("entry"); f.add_block(blk); f.entry = blk
    if op in OPS:
        r = ir.Binop(a, OPS[op], b, "r", ty)
    elif op in UN:
        r = ir.Unop(UN[op], a, "r", ty)
    else:
        r = ir.Const(5, "r", ty)
        blk.add_instruction(r)
        r2 = ir.Binop(a, "+", r, "r2", ty); blk.add_instruction(r2); blk.add_instruction(ir.Return(r2)); verify_module(m); return m
    blk.add_instruction(r); blk.add_instruction(ir.Return(r)); verify_module(m)
    return m
for spec in sys.argv[1:]:
    target, term = spec.split("/")
    m = module(term)
    if m is None:
        print(spec, "SKIP"); continue
    try:
        api.ir_to_object([m], target)
        print(spec, "ok")
    except Exception as e:
        print(spec, "FAIL", type(e).__name__, str(e).replace("\n", " ")[:90])
