#!/bin/sh
# usage: tools/fixcommit.sh "fix: message"   -- runs the unedited baseline suite in /repo, commits tracked changes if it is green
cd /repo || exit 1
out=$(/venv/bin/python -m pytest -q -p no:cacheprovider --timeout=900 --continue-on-collection-errors 2>&1 | tail -3)
echo "$out"
echo "$out" | grep -q "^1400 passed" || { echo "SUITE NOT GREEN - not committing"; exit 1; }
rm -f oi.html; git add -u && git commit -qm "$1" && git log --oneline | head -1
