#!/venv/bin/python
"""tools/mk_seed_prompt.py <Cnn> <name>  - writes /tmp/props/prompt_<name>.md for a fresh seeding sub-agent and creates
its scratch worktree /tmp/wt/<name>.  The prompt carries only the property text and, as a hint of what to avoid, where
earlier testers already broke it (file + condition from seeded/*/meta.json) - nothing else from /verif."""
import json, os, sys, glob, subprocess, re
prop, name = sys.argv[1].upper(), sys.argv[2]
os.makedirs("/tmp/props", exist_ok=True)
ptxt = "/tmp/props/%s.txt" % prop
if not os.path.exists(ptxt):
    for l in open("/verif/properties.jsonl"):
        d = json.loads(l)
        if d["id"] == prop:
            open(ptxt, "w").write(json.dumps(d, indent=1))
used = []
for m in sorted(glob.glob("/verif/seeded/%s*/meta.json" % prop)):
    d = os.path.dirname(m)
    meta = json.load(open(m))
    files = sorted(set(re.findall(r"^\+\+\+ b/(\S+)", open(d + "/patch.diff").read(), re.M)))
    used.append("%s: %s" % (", ".join(files), meta.get("needs_to_manifest", "")[:160]))
hint = ""
if used:
    hint = "(other testers already broke it via: " + " ;; ".join(used) + " -- choose a different function and mechanism from all of these; prefer either two cooperating sites that each look fine alone, or a helper/utility function that the anchored mechanism depends on)"
tpl = open("/verif/tools/seed_prompt_template.md").read()
wt = "/tmp/wt/" + name
out = tpl.replace("{WT}", wt).replace("{PROP}", ptxt).replace("{NAME}", name).replace("{HINT}", hint)
open("/tmp/props/prompt_%s.md" % name, "w").write(out)
os.makedirs("/tmp/wt", exist_ok=True)
if not os.path.exists(wt):
    subprocess.check_call(["git", "-C", "/repo", "worktree", "add", "-q", "--detach", wt, "HEAD"])
print("/tmp/props/prompt_%s.md" % name)
