"""Model of tokens and relocation classes read from the source (ast only)."""
import ast

from .core import norm, walk_no_nested, attr_chain, call_name, last_name, try_const, calls_in

ENC = "ppci/arch/encoding.py"
TOK = "ppci/arch/token.py"


def field_bits(project, module, expr, depth=0, known=None):
    """list of (lo, hi) bit ranges (most significant group first) that a
    token field expression denotes, or None"""
    if depth > 6:
        return None
    if isinstance(expr, ast.Name) and known and expr.id in known:
        return list(known[expr.id])
    if isinstance(expr, ast.Call):
        cn = last_name(expr)
        if cn == "bit_range" and len(expr.args) >= 2:
            a, b = try_const(expr.args[0], module, project), try_const(expr.args[1], module, project)
            if isinstance(a, int) and isinstance(b, int):
                return [(a, b)]
        if cn == "bit" and len(expr.args) == 1:
            a = try_const(expr.args[0], module, project)
            if isinstance(a, int):
                return [(a, a + 1)]
        if cn == "bit_concat":
            out = []
            for x in expr.args:
                r = field_bits(project, module, x, depth + 1, known)
                if r is None:
                    return None
                out += r
            return out
    if isinstance(expr, ast.BinOp) and isinstance(expr.op, ast.Add):
        l, r = field_bits(project, module, expr.left, depth + 1, known), field_bits(project, module, expr.right, depth + 1, known)
        if l is None or r is None:
            return None
        return l + r
    return None


def field_signed(expr):
    for n in ast.walk(expr):
        if isinstance(n, ast.keyword) and n.arg == "signed":
            return bool(try_const(n.value))
    return False


class TokenModel:
    def __init__(self, project, cdef):
        self.cdef = cdef
        self.name = cdef.name
        self.size = None
        self.fields = {}     # name -> [(lo,hi)...]
        self.signed = {}
        for c in project.mro(cdef):
            for st in c.body:
                if isinstance(st, ast.ClassDef) and st.name == "Info" and self.size is None:
                    for a in st.body:
                        if isinstance(a, ast.Assign) and norm(a.targets[0]) == "size":
                            self.size = try_const(a.value, c._module, project)
                elif isinstance(st, ast.Assign) and isinstance(st.targets[0], ast.Name):
                    fb = field_bits(project, c._module, st.value, known=self.fields)
                    if fb is not None and st.targets[0].id not in self.fields:
                        self.fields[st.targets[0].id] = fb
                        self.signed[st.targets[0].id] = field_signed(st.value)

    def width(self, field):
        fb = self.fields.get(field)
        return None if fb is None else sum(b - a for a, b in fb)


class RelocModel:
    def __init__(self, project, cdef):
        self.project = project
        self.cdef = cdef
        self.name = cdef.name
        self.rel = cdef._module.rel
        self.site = "%s:%s" % (self.rel, cdef.name)
        attrs = {}
        for c in project.mro(cdef):
            for st in c.body:
                if isinstance(st, ast.Assign) and isinstance(st.targets[0], ast.Name):
                    attrs.setdefault(st.targets[0].id, (st.value, c._module))
        self.reloc_name = try_const(attrs["name"][0]) if "name" in attrs else None
        self.field = try_const(attrs["field"][0]) if "field" in attrs else None
        self.token = None
        if "token" in attrs and attr_chain(attrs["token"][0]):
            t = project.resolve_name(attrs["token"][1], attr_chain(attrs["token"][0]))
            if isinstance(t, ast.ClassDef):
                self.token = TokenModel(project, t)
        self.methods = {m.name: m for m in cdef.body if isinstance(m, ast.FunctionDef)}

    def method(self, name):
        return self.project.find_method(self.cdef, name)

    @property
    def own(self):
        """the method that computes the value: own calc, else own apply"""
        return self.methods.get("calc") or self.methods.get("apply")


def all_relocations(project):
    base = project.cls(ENC, "Relocation")
    out = []
    for c in project.subclasses(base):
        if not any(isinstance(m, ast.FunctionDef) for m in c.body) and not any(isinstance(st, ast.Assign) and norm(st.targets[0]) == "name" for st in c.body):
            continue  # intermediate base class (e.g. CRel)
        out.append(RelocModel(project, c))
    out.sort(key=lambda r: (r.rel, r.cdef.lineno))
    return out


def registered_names(project):
    """class names registered with some isa, via decorator or call"""
    out = set()
    for m in project.modules.values():
        if not m.rel.startswith("ppci/arch/"):
            continue
        for n in ast.walk(m.tree):
            if isinstance(n, ast.ClassDef):
                for d in n.decorator_list:
                    if (attr_chain(d) or "").endswith(".register_relocation"):
                        out.add(n.name)
            elif isinstance(n, ast.Call) and last_name(n) == "register_relocation" and n.args:
                ch = attr_chain(n.args[0])
                if ch:
                    out.add(ch.split(".")[-1])
    return out
