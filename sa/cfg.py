"""Statement-level control-flow graph for one function, with reachability
and must-pass-through queries.  Nodes are ast statement objects (compound
statements stand for their header/test) plus three sentinels."""
import ast

ENTRY = "<entry>"
EXIT = "<exit>"      # normal return / fall off the end
RAISE = "<raise>"    # exception leaves the function


class CFG:
    def __init__(self, fn):
        self.fn = fn
        self.succ = {ENTRY: [], EXIT: [], RAISE: []}
        self.labels = {}  # (a,b) -> set of labels ('true','false','loop','exc',...)
        self.nodes = [ENTRY]
        self._build()
        self.pred = {n: [] for n in self.succ}
        for a, bs in self.succ.items():
            for b in bs:
                self.pred.setdefault(b, []).append(a)

    # -- construction ---------------------------------------------------
    def _node(self, st):
        if st not in self.succ:
            self.succ[st] = []
            self.nodes.append(st)
        return st

    def _edge(self, a, b, label=None):
        self._node(a) if a not in self.succ else None
        self._node(b) if b not in self.succ else None
        if b not in self.succ[a]:
            self.succ[a].append(b)
        if label:
            self.labels.setdefault((a, b), set()).add(label)

    def _build(self):
        # frontier: list of (node, label) whose next statement is to be linked
        ends = self._seq(self.fn.body, [(ENTRY, None)], None, None, [])
        for n, l in ends:
            self._edge(n, EXIT, l)

    def _link(self, frontier, node):
        self._node(node)
        for n, l in frontier:
            self._edge(n, node, l)

    def _seq(self, body, frontier, brk, cont, handlers):
        """Process a statement list.  brk/cont: lists collecting frontiers of
        break/continue.  handlers: stack of lists of handler-entry collectors.
        Returns the fall-through frontier."""
        for st in body:
            if not frontier:
                # unreachable code: still create nodes so queries don't crash
                self._node(st)
            frontier = self._stmt(st, frontier, brk, cont, handlers)
        return frontier

    def _exc_edge(self, st, handlers):
        if handlers:
            handlers[-1].append(st)
        else:
            self._edge(st, RAISE, "exc")

    def _may_raise(self, st):
        # any statement containing a call, subscript, attribute or arithmetic
        # may raise; we only add exceptional edges inside try blocks (where
        # they matter for handler reachability) and for explicit raise/assert.
        return True

    def _stmt(self, st, frontier, brk, cont, handlers):
        self._link(frontier, st)
        if handlers and not isinstance(st, (ast.Pass, ast.Break, ast.Continue)):
            handlers[-1].append(st)
        if isinstance(st, ast.If):
            t = self._seq(st.body, [(st, "true")], brk, cont, handlers)
            if st.orelse:
                f = self._seq(st.orelse, [(st, "false")], brk, cont, handlers)
            else:
                f = [(st, "false")]
            return t + f
        if isinstance(st, (ast.While, ast.For, ast.AsyncFor)):
            my_brk, my_cont = [], []
            infinite = isinstance(st, ast.While) and isinstance(st.test, ast.Constant) and bool(st.test.value)
            b = self._seq(st.body, [(st, "true")], my_brk, my_cont, handlers)
            for n, l in b + my_cont:
                self._edge(n, st, l or "loop")
            out = []
            if not infinite:
                if st.orelse:
                    out = self._seq(st.orelse, [(st, "false")], brk, cont, handlers)
                else:
                    out = [(st, "false")]
            return out + my_brk
        if isinstance(st, ast.Try) or (hasattr(ast, "TryStar") and isinstance(st, ast.TryStar)):
            collector = []
            inner_handlers = handlers + [collector] if st.handlers else handlers
            b = self._seq(st.body, [(st, None)], brk, cont, inner_handlers)
            if st.orelse:
                b = self._seq(st.orelse, b, brk, cont, handlers)
            outs = list(b)
            for h in st.handlers:
                self._node(h)
                self._edge(st, h, "exc")
                for src in collector:
                    self._edge(src, h, "exc")
                outs += self._seq(h.body, [(h, None)], brk, cont, handlers)
            if st.handlers:
                # an exception not matched by any handler propagates
                catch_all = any(h.type is None or (isinstance(h.type, ast.Name) and h.type.id in ("Exception", "BaseException")) for h in st.handlers)
                if not catch_all:
                    for src in collector:
                        self._exc_edge(src, handlers) if not handlers else None
            if st.finalbody:
                outs = self._seq(st.finalbody, outs, brk, cont, handlers)
            return outs
        if isinstance(st, (ast.With, ast.AsyncWith)):
            return self._seq(st.body, [(st, None)], brk, cont, handlers)
        if hasattr(ast, "Match") and isinstance(st, ast.Match):
            outs = []
            for case in st.cases:
                outs += self._seq(case.body, [(st, "case")], brk, cont, handlers)
            outs.append((st, "nomatch"))
            return outs
        if isinstance(st, ast.Return):
            self._edge(st, EXIT)
            return []
        if isinstance(st, ast.Raise):
            if handlers:
                pass  # already appended to collector
            else:
                self._edge(st, RAISE)
            return []
        if isinstance(st, ast.Assert):
            if not handlers:
                self._edge(st, RAISE, "assert")
            return [(st, None)]
        if isinstance(st, ast.Break):
            if brk is not None:
                brk.append((st, None))
            return []
        if isinstance(st, ast.Continue):
            if cont is not None:
                cont.append((st, None))
            return []
        return [(st, None)]

    # -- queries --------------------------------------------------------
    def reach(self, start, blocked=(), follow=None):
        """set of nodes reachable from start (exclusive of start unless on a
        cycle), never entering nodes in `blocked`.  `follow(a,b)` may veto
        edges."""
        blocked = set(map(id, blocked)) if not isinstance(blocked, set) else blocked
        seen, todo = set(), [start]
        out = []
        while todo:
            n = todo.pop()
            for s in self.succ.get(n, ()):
                if id(s) in seen or id(s) in blocked:
                    continue
                if follow is not None and not follow(n, s):
                    continue
                seen.add(id(s))
                out.append(s)
                todo.append(s)
        return out

    def reachable(self, a, b, blocked=()):
        return any(x is b for x in self.reach(a, blocked))

    def must_pass(self, target, pred, start=ENTRY):
        """True iff every path start ->* target goes through a node n (other
        than start/target) with pred(n).  Vacuously true if target is
        unreachable from start."""
        blocked = [n for n in self.nodes if n is not start and n is not target and not isinstance(n, str) and pred(n)]
        return not self.reachable(start, target, blocked)

    def must_follow(self, src, pred, to=EXIT):
        """True iff every path src ->* `to` passes a node with pred."""
        blocked = [n for n in self.nodes if n is not src and not isinstance(n, str) and pred(n)]
        return not self.reachable(src, to, blocked)

    def dominates(self, a, b):
        if a is b:
            return True
        return not self.reachable(ENTRY, b, [a])

    def branch_reaches(self, ifnode, label, target, blocked=()):
        """does taking branch `label` of ifnode reach target?"""
        blocked = set(map(id, blocked))
        for s in self.succ.get(ifnode, ()):
            if label in self.labels.get((ifnode, s), ()):
                if s is target:
                    return True
                if id(s) in blocked:
                    continue
                if self.reachable(s, target, [b for b in self.nodes if id(b) in blocked]):
                    return True
        return False

    def stmt_of(self, node):
        """the CFG node (statement) that contains expression `node`.  For
        compound statements an expression in the header maps to the compound
        node; an expression in the body maps to the inner statement."""
        n = node
        while n is not None:
            if isinstance(n, (ast.stmt, ast.ExceptHandler)) and n in self.succ:
                return n
            n = getattr(n, "_parent", None)
        return None


def header_exprs(st):
    """expressions evaluated *at* a CFG node (not in nested bodies)"""
    if isinstance(st, (ast.If, ast.While)):
        return [st.test]
    if isinstance(st, (ast.For, ast.AsyncFor)):
        return [st.iter, st.target]
    if isinstance(st, (ast.With, ast.AsyncWith)):
        return [i.context_expr for i in st.items] + [i.optional_vars for i in st.items if i.optional_vars is not None]
    if isinstance(st, ast.Try):
        return []
    if isinstance(st, ast.ExceptHandler):
        return [st.type] if st.type is not None else []
    if isinstance(st, (ast.FunctionDef, ast.ClassDef)):
        return []
    if hasattr(ast, "Match") and isinstance(st, ast.Match):
        return [st.subject]
    return [st]


def node_calls(st):
    """Call nodes evaluated at CFG node st"""
    out = []
    if isinstance(st, str):
        return out
    for e in header_exprs(st):
        for n in ast.walk(e):
            if isinstance(n, ast.Call):
                out.append(n)
    return out


def node_has_call(st, lastnames):
    from .core import last_name
    return any(last_name(c) in lastnames for c in node_calls(st))
