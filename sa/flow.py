"""Flow-rule helpers on top of the CFG: guards that raise, alignment idioms,
controlling conditions."""
import ast

from .core import norm, walk_no_nested, call_name, last_name, attrs_in, names_in, raises_in
from .cfg import CFG, EXIT, RAISE, header_exprs, node_calls
from . import sym


def controlling(node, stop=None):
    """[(test expr, True/False/label)] of enclosing if/while branches, innermost
    first, up to function `stop`."""
    out = []
    child, p = node, getattr(node, "_parent", None)
    while p is not None and p is not stop and not isinstance(p, (ast.FunctionDef, ast.Lambda, ast.ClassDef)):
        if isinstance(p, ast.If):
            if child in p.body:
                out.append((p.test, True, p))
            elif child in p.orelse:
                out.append((p.test, False, p))
        elif isinstance(p, ast.While):
            if child in p.body:
                out.append((p.test, True, p))
        elif isinstance(p, ast.IfExp):
            if child is p.body:
                out.append((p.test, True, p))
            elif child is p.orelse:
                out.append((p.test, False, p))
        child, p = p, getattr(p, "_parent", None)
    return out


def always_raises(body):
    """does this statement list end in a raise on every path (syntactic)"""
    if not body:
        return False
    last = body[-1]
    if isinstance(last, ast.Raise):
        return True
    if isinstance(last, ast.If):
        return always_raises(last.body) and always_raises(last.orelse)
    return False


def raising_guards(fn, test_pred, exc=None):
    """If nodes in fn whose test satisfies test_pred(test) and whose body
    always raises (or: whose else-branch always raises with negated test).
    Returns list of (ifnode, polarity) - polarity True when the body raises."""
    out = []
    for n in walk_no_nested(fn):
        if isinstance(n, ast.If):
            if always_raises(n.body) and test_pred(n.test, True):
                out.append((n, True))
            elif n.orelse and always_raises(n.orelse) and test_pred(n.test, False):
                out.append((n, False))
        elif isinstance(n, ast.Assert):
            if test_pred(n.test, False):
                out.append((n, False))
    return out


def dominated_by_guard(cfg, target_stmt, guards):
    gs = [g for g, _ in guards]
    return bool(gs) and cfg.must_pass(target_stmt, lambda n: any(n is g for g in gs))


# ---------------------------------------------------------------------
# alignment idioms:   while X % A != 0: X += 1 / pad          (loop)
#                     X = align(X, A)                          (call)
#                     X += -X % A   /  X = (X + A - 1) // A * A (arith)


def alignment_sites(fn, env=None):
    """list of (cfg node stmt, value text X, alignment text A, kind)"""
    out = []
    for n in walk_no_nested(fn):
        if isinstance(n, ast.While):
            t = n.test
            if isinstance(t, ast.Compare) and len(t.ops) == 1 and isinstance(t.ops[0], ast.NotEq) and norm(t.comparators[0]) == "0":
                l = t.left
                if isinstance(l, ast.BinOp) and isinstance(l.op, ast.Mod):
                    out.append((n, norm(l.left), norm(l.right), "loop"))
            elif isinstance(t, ast.BinOp) and isinstance(t.op, ast.Mod):
                out.append((n, norm(t.left), norm(t.right), "loop"))
        elif isinstance(n, ast.Assign) and isinstance(n.value, ast.Call) and last_name(n.value) in ("align", "align_to", "round_up") and len(n.value.args) == 2:
            out.append((n, norm(n.value.args[0]), norm(n.value.args[1]), "call"))
        elif isinstance(n, ast.Expr) and isinstance(n.value, ast.Call) and last_name(n.value) in ("align_to", "align") and len(n.value.args) == 1:
            out.append((n, "<self>", norm(n.value.args[0]), "method"))
        elif isinstance(n, ast.AugAssign) and isinstance(n.op, ast.Add):
            v = n.value
            if isinstance(v, ast.BinOp) and isinstance(v.op, ast.Mod) and isinstance(v.left, ast.UnaryOp) and isinstance(v.left.op, ast.USub) and norm(v.left.operand) == norm(n.target):
                out.append((n, norm(n.target), norm(v.right), "arith"))
        elif isinstance(n, ast.Assign) and len(n.targets) == 1:
            v = n.value
            # (X + A - 1) // A * A
            if isinstance(v, ast.BinOp) and isinstance(v.op, ast.Mult) and isinstance(v.left, ast.BinOp) and isinstance(v.left.op, ast.FloorDiv):
                a = norm(v.right)
                if norm(v.left.right) == a:
                    num = sym.affine(v.left.left, {})
                    x = norm(n.targets[0])
                    if num is not None and num == sym.atom(x) + sym.atom(a) - sym.const(1):
                        out.append((n, x, a, "arith"))
    return out


def loop_pad_advances(loopnode, xtext):
    """for the loop idiom: the body must make progress on X (X += 1, or
    append/add_data of one byte when X is a size)"""
    for n in walk_no_nested(loopnode):
        if isinstance(n, ast.AugAssign) and norm(n.target) == xtext and isinstance(n.op, ast.Add) and norm(n.value) == "1":
            return True
        if isinstance(n, ast.Assign) and norm(n.targets[0]) == xtext and norm(n.value) in (xtext + " + 1", "1 + " + xtext):
            return True
        if isinstance(n, ast.Call) and last_name(n) in ("add_data", "append", "write", "extend"):
            return True
    return False
