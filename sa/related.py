"""Rule families shared between properties whose anchored code overlaps.  `run_rules(prop, ctx)` runs the
property's own rule module and then the listed rule sets of related properties under a `Sub` view, so that a
change to shared code is reported by every property it can break.  Shared obligations are recorded under
`<prop>.<src>Rn`; an obligation that is an open known finding of the source property is not repeated."""
import importlib

from .report import Sub, load_known, Ctx

# property -> [(source property, [rule ids] or None for all)]
RELATED = {
    "C01": [("C27", ["C27.R1", "C27.R2", "C27.R3", "C27.R5"]), ("C28", ["C28.R4"])],   # constant expressions and literal typing are part of the front-end's meaning
    "C02": [("C03", None), ("C38", None)],                                     # a pass that corrupts the IR or folds wrongly changes behaviour
    "C03": [("C02", ["C02.R2", "C02.R7", "C02.R8"])],                                    # replace_use discipline / tail-call rewrite keep def-use and block structure intact
    "C04": [("C06", None), ("C40", None)],                                     # x86-64 native code = selection + allocation + SysV ABI
    "C05": [("C06", None)],                                                    # every target goes through the same allocator
    "C07": [("C10", ["C10.R1", "C10.R3"])],                                              # a relocation patches an emitted instruction: an ungated value spills out of its field into the neighbouring register field
    "C08": [("C10", ["C10.R4", "C10.R6", "C10.R7"])],                                    # a masked or overwritten operand is an encoding that disagrees with what is printed
    "C09": [("C10", ["C10.R7"])],
    "C10": [("C13", ["C13.R3"])],                                              # a shrunk relocation must still fit its (smaller) field
    "C11": [("C13", None), ("C10", None)],                                     # relaxation and range gates decide what a reference finally resolves to
    "C13": [("C10", ["C10.R2", "C10.R3", "C10.R5"])],                          # the shrunk relocation scatters the new, smaller offset
    "C15": [("C02", ["C02.R2"])],                                              # forward references are patched with replace_by: every slot must be replaced
    "C16": [("C02", ["C02.R2"])],
    "C18": [("C14", ["C14.R9"])],                                              # the hex / s-record writers cut the data with the same chunks() helper
    "C19": [("C14", ["C14.R9"])],
    "C21": [("C20", None)],
    "C39": [("C10", ["C10.R4", "C10.R8"])],                                    # the same bitfun helpers: range gates and the rotated immediate
    "C27": [("C01", ["C01.R5"]), ("C28", ["C28.R8"])],                                              # case labels are constant expressions converted to the (promoted) type of the switch
    "C22": [("C24", ["C24.R2", "C24.R3", "C24.R4", "C24.R5", "C24.R6"])],                # the Python execution target runs wasm through ir2py's runtime helpers                                                    # the binary format is LEB128 all over
}


class _KnownAware(Sub):
    def __init__(self, ctx, src, only=None):
        super().__init__(ctx, src, only, floors=True)
        self._known = {k["key"] for k in load_known().get("open", []) if k["property"] == src}

    def ob(self, rule, site, what, ok, construct=None, node=None, detail=None):
        if not ok:
            key = "%s|%s|%s" % (rule, site, construct if construct is not None else what)
            if key in self._known:
                return False   # listed (and printed) under the source property; not repeated here
        return super().ob(rule, site, what, ok, construct=construct, node=node, detail=detail)


def run_rules(prop, ctx):
    mod = importlib.import_module("sa.rules." + prop.lower())
    mod.run(ctx)
    for src, only in RELATED.get(prop, []):
        m = importlib.import_module("sa.rules." + src.lower())
        m.run(_KnownAware(ctx, src, only))
    return ctx
