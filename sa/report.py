"""Run context: obligations, findings, known-findings, evidence."""
import json
import os
import time

from .core import AnalysisError, Project, short

VERIF = os.path.dirname(os.path.dirname(os.path.abspath(__file__)))


class Ctx:
    def __init__(self, prop, project, tier="quick", quiet=False, options=None):
        self.prop = prop
        self.project = project
        self.tier = tier
        self.quiet = quiet
        self.options = options or {}
        self.obligations = []   # dicts
        self.findings = []      # dicts (failed obligations)
        self.undecided_sites = []
        self.floors = {}
        self.rules = {}         # rule id -> description
        self.analysed = {"functions": set(), "tables": set(), "classes": set()}
        self.assumptions = []
        self.extra = {}
        self.t0 = time.time()

    # -- recording ------------------------------------------------------
    def rule(self, rid, text, floor=0):
        self.rules[rid] = text
        if floor:
            self.floors[rid] = floor

    def isa(self):
        """import-elaborated ISA declarations of the tree under analysis"""
        from . import isadump
        return isadump.dump(self.project.root, self.project.overlay)

    def saw(self, kind, what):
        self.analysed.setdefault(kind, set()).add(what)

    def fn(self, rel, qual, optional=False):
        f = self.project.func(rel, qual, optional=optional)
        if f is not None:
            self.saw("functions", "%s:%s" % (rel, qual))
        return f

    def cls(self, rel, qual, optional=False):
        c = self.project.cls(rel, qual, optional=optional)
        if c is not None:
            self.saw("classes", "%s:%s" % (rel, qual))
        return c

    def ob(self, rule, site, what, ok, construct=None, node=None, detail=None):
        """Record one obligation.  `site` = 'file:qualname' (or a table name),
        `what` = human description of the relation that must hold,
        `construct` = normalised construct that identifies the finding."""
        if rule not in self.rules:
            raise AnalysisError("obligation for undeclared rule %s" % rule)
        rec = {
            "rule": rule,
            "site": site,
            "what": what,
            "ok": bool(ok),
            "construct": construct if construct is not None else what,
        }
        if node is not None and hasattr(node, "lineno"):
            rec["line"] = node.lineno
        if detail:
            rec["detail"] = detail
        self.obligations.append(rec)
        if not ok:
            self.findings.append(rec)
        return bool(ok)

    def undecided(self, rule, site, why):
        self.undecided_sites.append({"rule": rule, "site": site, "why": why})

    def need(self, cond, msg):
        """anchor-level requirement of the analysis itself"""
        if not cond:
            raise AnalysisError(msg)

    # -- finishing ------------------------------------------------------
    @staticmethod
    def key(rec):
        return "%s|%s|%s" % (rec["rule"], rec["site"], rec["construct"])

    def check_floors(self):
        counts = {}
        for o in self.obligations:
            counts[o["rule"]] = counts.get(o["rule"], 0) + 1
        for rid in self.rules:
            counts.setdefault(rid, 0)
        # a rule that already reports a failed obligation may stop before emitting the rest: that is a violation, not a lost extractor
        # (a listed known finding does not count: it fails on the unchanged tree too)
        open_keys = {k["key"] for k in load_known().get("open", []) if k["property"] == self.prop}
        failed = {f["rule"] for f in self.findings if Ctx.key(f) not in open_keys}
        low = [(r, counts[r], f) for r, f in self.floors.items() if counts[r] < f and r not in failed]
        if low and failed:
            # the run already reports a violation of another rule: the shortfall must not turn that verdict into "analysis broken"
            self.floor_notes = ["%s: %d < %d" % x for x in low]
            return counts
        if low:
            raise AnalysisError(
                "rule instance count below floor (extractor no longer sees the code it was confirmed on): "
                + ", ".join("%s: %d < %d" % x for x in low)
            )
        return counts


def load_known():
    path = os.path.join(VERIF, "known_findings.json")
    if not os.path.exists(path):
        return {"open": [], "fixed": []}
    with open(path) as fh:
        return json.load(fh)


def finish(ctx, seed=0, selftest=None, write=True):
    """Print report, write evidence + replay files, return exit code."""
    counts = ctx.check_floors()
    known = load_known()
    open_keys = {}
    for k in known.get("open", []):
        if k["property"] == ctx.prop:
            open_keys[k["key"]] = k
    new, listed = [], []
    seen_keys = set()
    for f in ctx.findings:
        k = Ctx.key(f)
        if k in seen_keys:
            continue
        seen_keys.add(k)
        if k in open_keys:
            listed.append(f)
        else:
            new.append(f)
    out = []
    p = out.append
    p("== %s  tier=%s  root=%s  digest=%s" % (ctx.prop, ctx.tier, ctx.project.root, ctx.project.digest))
    p("   parsed %d modules, %d functions; analysed %d functions, %d classes, %d tables"
      % (len(ctx.project.modules), ctx.project.n_functions, len(ctx.analysed["functions"]),
         len(ctx.analysed["classes"]), len(ctx.analysed["tables"])))
    for rid, text in ctx.rules.items():
        n = counts.get(rid, 0)
        bad = sum(1 for f in ctx.findings if f["rule"] == rid)
        p("   rule %-10s %4d obligations %3d failed  (floor %d)  %s" % (rid, n, bad, ctx.floors.get(rid, 0), text))
    for u in ctx.undecided_sites:
        p("UNDECIDED %s %s: %s" % (u["rule"], u["site"], u["why"]))
    for f in listed:
        p("KNOWN-FINDING: property=%s %s %s: %s" % (ctx.prop, f["rule"], f["site"], open_keys[Ctx.key(f)].get("what", f["what"])))
    replay_dir = os.path.join(VERIF, "evidence", "replay")
    rc = 0
    for i, f in enumerate(new):
        rc = 1
        rp = os.path.join(replay_dir, "%s_%d.json" % (ctx.prop, i))
        if write:
            os.makedirs(replay_dir, exist_ok=True)
            with open(rp, "w") as fh:
                json.dump({"property": ctx.prop, "key": Ctx.key(f), **f}, fh, indent=1)
        rel = f["site"].split(":")[0]
        p("%s:%s %s %s" % (rel, f.get("line", "?"), f["rule"], f["site"]))
        p("    expected: %s" % f["what"])
        if f.get("detail"):
            p("    found:    %s" % f["detail"])
        p("VIOLATION property=%s replay=%s" % (ctx.prop, rp))
    if selftest is not None:
        p(selftest["summary"])
        if not selftest["ok"]:
            # a broken self-test means the analysis cannot be trusted
            rc = max(rc, 2)
    if rc == 0:
        p("OK property=%s: %d obligations discharged, %d known findings, %d undecided"
          % (ctx.prop, len(ctx.obligations) - len(ctx.findings), len(listed), len(ctx.undecided_sites)))
    text = "\n".join(out)
    if not ctx.quiet:
        print(text)
    if write:
        write_evidence(ctx, counts, new, listed, seed, selftest)
    return rc


def write_evidence(ctx, counts, new, listed, seed, selftest):
    distinct = {Ctx.key(o) for o in ctx.obligations}
    samples = []
    per_rule = {}
    for o in ctx.obligations:
        per_rule.setdefault(o["rule"], []).append(o)
    for rid, obs in per_rule.items():
        for o in obs[:3]:
            samples.append("%s @ %s: %s -> %s" % (rid, o["site"], short(o["what"], 160), "holds" if o["ok"] else "FAILS"))
    ev = {
        "property_id": ctx.prop,
        "tier": ctx.tier,
        "seed": int(seed),
        "level": "other",
        "coverage": {
            "explanation": "Static analysis of /repo's current source (ast, resolver, CFG, def-use closure, table extraction). "
                           "Each obligation is a structural necessary condition of the property, decided for all inputs because no input is consulted. "
                           "See DESIGN.md section 4 (%s) for the clauses decided and not decided." % ctx.prop,
            "obligations": len(ctx.obligations),
            "discharged": len(ctx.obligations) - len(ctx.findings),
            "evaluations": len(ctx.obligations),
            "distinct_nontrivial": len(distinct),
            "rule": "one obligation per (rule, site, construct) extracted from the source; distinct = distinct keys; "
                    "non-trivial = the relation was evaluated on an extracted, non-empty construct",
            "samples": samples[:40],
            "rules": {rid: {"text": t, "obligations": counts.get(rid, 0), "floor": ctx.floors.get(rid, 0)} for rid, t in ctx.rules.items()},
            "modules_parsed": len(ctx.project.modules),
            "functions_in_project": ctx.project.n_functions,
            "functions_analysed": sorted(ctx.analysed["functions"]),
            "classes_analysed": sorted(ctx.analysed["classes"])[:200],
            "tables_analysed": sorted(ctx.analysed["tables"]),
            "undecided": ctx.undecided_sites,
            "known_findings_reported": [Ctx.key(f) for f in listed],
            "new_violations": [Ctx.key(f) for f in new],
            "source_digest": ctx.project.digest,
            "exhaustive": False,
        },
        "assumptions": ctx.assumptions + [
            "the structural clauses are necessary, not sufficient, conditions of the behavioural property",
            "Python semantics of the analysed constructs (operators, builtins) as documented",
        ],
        "wall_s": round(time.time() - ctx.t0, 3),
        "violations": len(new),
    }
    ev["coverage"].update(ctx.extra)
    if selftest is not None:
        ev["coverage"]["selftest"] = selftest
    d = os.path.join(VERIF, "evidence")
    os.makedirs(d, exist_ok=True)
    with open(os.path.join(d, "%s.json" % ctx.prop), "w") as fh:
        json.dump(ev, fh, indent=1, default=str)


class Sub:
    """View of a Ctx under which another property's rule function runs: rule ids `<src>.Rn` are recorded as
    `<dst>.<src>Rn` (e.g. C27.R3 -> C28.C27R3); rules outside `only` are dropped.  Lets a property reuse the
    obligations that another property already states for the same anchored code."""

    def __init__(self, ctx, src, only=None, floors=True):
        self._ctx = ctx
        self._src = src
        self._only = set(only) if only else None
        self._floors = floors

    def _map(self, rid):
        if not rid.startswith(self._src + "."):
            return rid
        if self._only is not None and rid not in self._only:
            return None
        return "%s.%s%s" % (self._ctx.prop, self._src, rid.split(".", 1)[1])

    def rule(self, rid, text, floor=0):
        m = self._map(rid)
        if m is not None:
            self._ctx.rule(m, "[shared with %s] %s" % (rid, text), floor if self._floors else 0)

    def ob(self, rule, site, what, ok, construct=None, node=None, detail=None):
        m = self._map(rule)
        if m is None:
            return bool(ok)
        return self._ctx.ob(m, site, what, ok, construct=construct, node=node, detail=detail)

    def undecided(self, rule, site, why):
        m = self._map(rule)
        if m is not None:
            self._ctx.undecided(m, site, why)

    def __getattr__(self, name):
        return getattr(self._ctx, name)
