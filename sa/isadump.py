"""Import-elaboration of the instruction-set declarations (DESIGN.md 3.3).

Most instruction classes are produced by `type(...)` factories, so their
class-level tables cannot be read from the syntax tree.  A subprocess of
/venv/bin/python imports ppci.arch.* FROM THE TREE UNDER ANALYSIS and dumps
declarations only: no instruction is instantiated, encoded, assembled or
selected.  The dump is data; the rules that consume it are table checks."""
import json
import os
import subprocess
import sys
import tempfile

from .core import AnalysisError

SCRIPT = r'''
import sys, json, inspect
sys.dont_write_bytecode = True
from ppci.arch import encoding, token as tokmod, registers as regmod
from ppci.arch.target_list import target_names, create_arch
out = {"archs": {}, "errors": []}

def clsname(c):
    if isinstance(c, tuple):
        return [clsname(x) for x in c]
    return getattr(c, "__name__", repr(c))

def where(c):
    mod = getattr(c, "__module__", None) or ""
    f = mod.replace(".", "/") + ".py" if mod.startswith("ppci.") else None
    code = getattr(c, "__code__", None)
    return (f[len("ppci/"):] if f else None), (code.co_firstlineno if code is not None else None)

def token_info(t):
    fields = {}
    for k in dir(t):
        v = getattr(t, k, None)
        if isinstance(v, tokmod._p2):
            fields[k] = {"bits": v._bitsize, "signed": bool(v._signed)}
    return {"name": t.__name__, "size": t.Info.size, "fields": fields}

def pat_info(p):
    if isinstance(p, encoding.FixedPattern):
        return {"field": p.field, "fixed": p.value}
    if isinstance(p, encoding.VariablePattern):
        prop = p.prop
        if isinstance(prop, encoding.Transform):
            w = getattr(prop, "_wrapped", None)
            while isinstance(w, encoding.Transform):
                w = getattr(w, "_wrapped", None)
            return {"field": p.field, "transform": type(prop).__name__, "operand": getattr(w, "_name", None)}
        return {"field": p.field, "operand": getattr(prop, "_name", None)}
    return {"field": getattr(p, "field", None), "other": type(p).__name__}

def operands_of(c):
    ops = []
    seen = set()
    for klass in c.__mro__:
        for k, v in klass.__dict__.items():
            if isinstance(v, encoding.Operand) and k not in seen:
                seen.add(k)
                cl = v._cls
                isreg = isinstance(cl, type) and issubclass(cl, regmod.Register)
                ops.append({"name": v._name, "attr": k, "cls": clsname(cl), "cls_uids": [uid_of(x) for x in (cl if isinstance(cl, tuple) else (cl,)) if isinstance(x, type) and issubclass(x, encoding.Constructor)], "is_register": isreg,
                            "is_constructor": (not isreg) and bool(v.is_constructor) if not isinstance(cl, tuple) or True else True,
                            "read": bool(v._read), "write": bool(v._write)})
    return ops

_uids = {}
def uid_of(c):
    if c not in _uids:
        _uids[c] = "%s#%d" % (c.__name__, len(_uids))
    return _uids[c]

def ctor_info(c):
    f, l = where(c)
    syn = []
    prio = None
    if c.syntax is not None:
        prio = c.syntax.priority
        for e in c.syntax.syntax:
            if isinstance(e, str):
                syn.append(e)
            else:
                syn.append({"op": e._name})
    try:
        pats = [pat_info(p) for p in c.dict_to_patterns(c.patterns)]
    except Exception as e:
        pats = None
        out["errors"].append("patterns of %s: %r" % (c.__name__, e))
    toks = [t.__name__ for t in getattr(c, "tokens", [])]
    d = {"name": c.__name__, "uid": uid_of(c), "module": c.__module__, "file": f, "line": l, "tokens": toks, "patterns": pats,
         "syntax": syn, "priority": prio, "operands": operands_of(c),
         "has_relocations": any("relocations" in k.__dict__ or "gen_relocations" in k.__dict__ for k in c.__mro__ if k not in (encoding.Instruction, encoding.Constructor, object)),
         "has_user_patterns": any("set_user_patterns" in k.__dict__ for k in c.__mro__ if k not in (encoding.Instruction, encoding.Constructor, object)),
         "has_encode": any("encode" in k.__dict__ for k in c.__mro__ if k not in (encoding.Instruction, encoding.Constructor, object)),
         "has_render": any("render" in k.__dict__ for k in c.__mro__ if k not in (encoding.Instruction, encoding.Constructor, object)),
         "bases": [b.__name__ for b in c.__mro__[1:-1]],
         "flags": {k: getattr(c, k) for k in ("rm_written",) if isinstance(getattr(c, k, None), bool)},
         "overrides_defined_registers": any("defined_registers" in k.__dict__ for k in c.__mro__ if k not in (encoding.Instruction, encoding.Constructor, object))}
    return d

def collect_ctors(ins_list):
    seen, todo, out = set(), list(ins_list), []
    while todo:
        c = todo.pop()
        if c in seen:
            continue
        seen.add(c)
        out.append(c)
        for k in c.__mro__:
            for v in k.__dict__.values():
                if isinstance(v, encoding.Operand):
                    cl = v._cls
                    for x in (cl if isinstance(cl, tuple) else (cl,)):
                        if isinstance(x, type) and issubclass(x, encoding.Constructor):
                            todo.append(x)
    return out

VARIANTS = list(target_names) + ["arm:thumb", "riscv:rvc"]
for name in VARIANTS:
    try:
        parts = name.split(":")
        arch = create_arch(parts[0], options=tuple(parts[1:])) if len(parts) > 1 else create_arch(name)
        isa = arch.isa
        instrs = list(isa.instructions)
        ctors = collect_ctors(instrs)
        toks = {}
        for c in ctors:
            for t in getattr(c, "tokens", []):
                toks[t.__name__] = token_info(t)
        pats = []
        for p in isa.patterns:
            f, l = where(p.method)
            pats.append({"non_term": p.non_term, "tree": str(p.tree), "condition": p.condition is not None, "size": p.size,
                         "method": p.method.__name__, "file": f, "line": l})
        regclasses = []
        try:
            for rc in arch.info.register_classes:
                regclasses.append({"name": rc.name, "types": [str(t) for t in rc.ir_types], "typ": rc.typ.__name__, "registers": [r.name for r in rc.registers]})
        except Exception as e:
            out["errors"].append("%s regclasses: %r" % (name, e))
        a = {"instructions": [ctor_info(c) for c in instrs], "constructors": [ctor_info(c) for c in ctors if c not in instrs],
             "tokens": toks, "patterns": pats, "relocations": sorted(isa.relocation_map), "register_classes": regclasses,
             "relocation_classes": {k: v.__name__ for k, v in isa.relocation_map.items()}}
        for key in ("caller_save", "callee_save"):
            v = getattr(arch, key, None)
            if v is not None:
                try:
                    a[key] = [r.name for r in v]
                except Exception:
                    pass
        out["archs"][name] = a
    except Exception as e:
        import traceback
        out["errors"].append("%s: %s" % (name, traceback.format_exc()[-400:]))
names = {}
for mname, mod in list(sys.modules.items()):
    if mname.startswith("ppci.arch.") and mod is not None:
        d = {}
        for k, v in list(vars(mod).items()):
            if isinstance(v, type) and issubclass(v, encoding.Constructor) and v.__module__.startswith("ppci.arch"):
                d[k] = uid_of(v)
        if d:
            names[mname] = d
out["module_names"] = names
regnames = {}
for mname, mod in list(sys.modules.items()):
    if mname.startswith("ppci.arch.") and mod is not None:
        d = {}
        for k, v in list(vars(mod).items()):
            if isinstance(v, regmod.Register):
                d[k] = v.name
        if d:
            regnames[mname] = d
out["register_names"] = regnames
json.dump(out, sys.stdout)
'''

_cache = {}


def dump(root, overlay=None):
    """Return the declaration dump of the tree at `root`.  When an overlay is
    given, the affected files are materialised in a scratch copy of ppci/
    (tempfile, removed afterwards)."""
    key = (root, tuple(sorted((overlay or {}).items())))
    if key in _cache:
        return _cache[key]
    tmp = None
    pyroot = root
    try:
        if overlay:
            import shutil
            tmp = tempfile.mkdtemp(prefix="sa_isadump_")
            shutil.copytree(os.path.join(root, "ppci"), os.path.join(tmp, "ppci"), ignore=shutil.ignore_patterns("__pycache__"))
            for rel, src in overlay.items():
                with open(os.path.join(tmp, rel), "w", encoding="utf-8") as fh:
                    fh.write(src)
            pyroot = tmp
        env = dict(os.environ)
        env["PYTHONPATH"] = pyroot
        env["PYTHONDONTWRITEBYTECODE"] = "1"
        py = "/venv/bin/python" if os.path.exists("/venv/bin/python") else sys.executable
        p = subprocess.run([py, "-c", SCRIPT], capture_output=True, text=True, env=env, cwd="/", timeout=300)
        if p.returncode != 0:
            raise AnalysisError("ISA declaration dump failed (the tree does not import): %s" % p.stderr[-600:])
        data = json.loads(p.stdout)
    finally:
        if tmp:
            import shutil
            shutil.rmtree(tmp, ignore_errors=True)
    _cache[key] = data
    return data
