"""Sibling comparison: bodies that must be isomorphic modulo a renaming."""
import ast
from .sym import copy_ast

from .core import norm


class _Rename(ast.NodeTransformer):
    def __init__(self, mapping):
        self.mapping = mapping

    def visit_Name(self, node):
        if node.id in self.mapping:
            return ast.copy_location(ast.Name(id=self.mapping[node.id], ctx=node.ctx), node)
        return node

    def visit_Constant(self, node):
        if not isinstance(node.value, bool) and node.value in self.mapping:
            return ast.copy_location(ast.Constant(value=self.mapping[node.value]), node)
        return node

    def visit_Attribute(self, node):
        self.generic_visit(node)
        if node.attr in self.mapping:
            node.attr = self.mapping[node.attr]
        return node


def strip_doc(stmts):
    out = []
    for s in stmts:
        if isinstance(s, ast.Expr) and isinstance(s.value, ast.Constant) and isinstance(s.value.value, str):
            continue
        out.append(s)
    return out


def normalised(stmts, mapping=None, drop_asserts=False):
    out = []
    for s in strip_doc(stmts):
        if drop_asserts and isinstance(s, ast.Assert):
            continue
        s2 = copy_ast(s)
        if mapping:
            s2 = _Rename(mapping).visit(s2)
        out.append(norm(s2))
    return out


def first_difference(a, b):
    for i, (x, y) in enumerate(zip(a, b)):
        if x != y:
            return "statement %d: `%s` vs `%s`" % (i, x[:80], y[:80])
    if len(a) != len(b):
        return "different number of statements (%d vs %d)" % (len(a), len(b))
    return None
