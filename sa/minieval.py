"""A tiny evaluator for PURE helper functions over a finite domain (operator tables, priority levels).

It interprets the AST of a function body made of assignments, if/else and return, with expressions over constants,
names, comparisons, boolean operators, + and -, subscripts of literal tuples / dicts and conditional expressions.
Anything else raises Undecidable.  It exists so that a rule can state a property of a table-driven helper semantically
(e.g. "a left associative operator of equal priority is not taken by the inner parse") and stays true to every
equivalent spelling of the helper, instead of matching one spelling."""
import ast
import operator


class Undecidable(Exception):
    pass


class Rejected(Undecidable):
    """the evaluated helper rejects the input (assert / raise): a definite outcome, not a lack of knowledge"""


_CMP = {ast.Lt: operator.lt, ast.LtE: operator.le, ast.Gt: operator.gt, ast.GtE: operator.ge, ast.Eq: operator.eq, ast.NotEq: operator.ne,
        ast.In: lambda a, b: a in b, ast.NotIn: lambda a, b: a not in b, ast.Is: operator.is_, ast.IsNot: operator.is_not}
_BIN = {ast.Add: operator.add, ast.Sub: operator.sub, ast.Mult: operator.mul, ast.Mod: operator.mod, ast.FloorDiv: operator.floordiv,
        ast.LShift: operator.lshift, ast.RShift: operator.rshift, ast.BitAnd: operator.and_, ast.BitOr: operator.or_, ast.BitXor: operator.xor}


def _text(e):
    return ast.unparse(e)


class Sym:
    """an opaque object known by the access path it was reached through (`value`, `value.b`, `self.eval_const(value.b)`):
    what a rule binds in env["__paths__"] under `<path>.<attr>` is the value of that attribute, whatever the parameter
    of the helper under evaluation is called"""
    def __init__(self, path):
        self.path = path

    def __repr__(self):
        return "<%s>" % self.path

    def __eq__(self, other):
        return isinstance(other, Sym) and other.path == self.path

    def __hash__(self):
        return hash(self.path)


def ev(e, env):
    """value of expression e; env maps names and dotted texts (e.g. 'self.OP_MAP') to Python values"""
    if isinstance(e, ast.Constant):
        return e.value
    if isinstance(e, ast.Name):
        if e.id in env:
            return env[e.id]
        if e.id in ("True", "False", "None"):
            return {"True": True, "False": False, "None": None}[e.id]
        raise Undecidable("unbound name %s" % e.id)
    if isinstance(e, ast.Attribute):
        t = _text(e)
        if t in env:
            return env[t]
        if "__paths__" in env:
            base = ev(e.value, env)
            if isinstance(base, Sym):
                path = base.path + "." + e.attr
                return env["__paths__"][path] if path in env["__paths__"] else Sym(path)
        raise Undecidable("unbound attribute %s" % t)
    if isinstance(e, (ast.Tuple, ast.List)):
        return tuple(ev(x, env) for x in e.elts)
    if isinstance(e, (ast.ListComp, ast.GeneratorExp, ast.SetComp)):
        out = []
        def gen(i, scope):
            if i == len(e.generators):
                out.append(ev(e.elt, scope))
                return
            g = e.generators[i]
            for x in ev(g.iter, scope):
                sc = dict(scope)
                _bind(g.target, x, sc)
                if all(ev(c, sc) for c in g.ifs):
                    gen(i + 1, sc)
        gen(0, env)
        return tuple(out)
    if isinstance(e, ast.DictComp):
        out = {}
        def gen(i, scope):
            if i == len(e.generators):
                out[ev(e.key, scope)] = ev(e.value, scope)
                return
            g = e.generators[i]
            for x in ev(g.iter, scope):
                sc = dict(scope)
                _bind(g.target, x, sc)
                if all(ev(c, sc) for c in g.ifs):
                    gen(i + 1, sc)
        gen(0, env)
        return out
    if isinstance(e, ast.JoinedStr):
        parts = []
        for v in e.values:
            if isinstance(v, ast.Constant):
                parts.append(str(v.value))
            elif isinstance(v, ast.FormattedValue) and v.conversion == -1:
                spec = ev(v.format_spec, env) if v.format_spec is not None else ""
                parts.append(format(ev(v.value, env), spec))
            else:
                raise Undecidable("f-string part")
        return "".join(parts)
    if isinstance(e, ast.Dict) and all(k is not None for k in e.keys):
        return {ev(k, env): ev(v, env) for k, v in zip(e.keys, e.values)}
    if isinstance(e, ast.Compare):
        left = ev(e.left, env)
        for op, c in zip(e.ops, e.comparators):
            right = ev(c, env)
            f = _CMP.get(type(op))
            if f is None:
                raise Undecidable("comparison %s" % type(op).__name__)
            if not f(left, right):
                return False
            left = right
        return True
    if isinstance(e, ast.BoolOp):
        if isinstance(e.op, ast.And):
            v = True
            for x in e.values:
                v = ev(x, env)
                if not v:
                    return v
            return v
        v = False
        for x in e.values:
            v = ev(x, env)
            if v:
                return v
        return v
    if isinstance(e, ast.UnaryOp):
        v = ev(e.operand, env)
        if isinstance(e.op, ast.Not):
            return not v
        if isinstance(e.op, ast.USub):
            return -v
        raise Undecidable("unary %s" % type(e.op).__name__)
    if isinstance(e, ast.BinOp) and type(e.op) in _BIN:
        try:
            return _BIN[type(e.op)](ev(e.left, env), ev(e.right, env))
        except (ZeroDivisionError, ValueError, TypeError) as ex:
            raise Undecidable("arithmetic: %s" % ex)
    if isinstance(e, ast.IfExp):
        return ev(e.body, env) if ev(e.test, env) else ev(e.orelse, env)
    if isinstance(e, ast.Subscript):
        base = ev(e.value, env)
        if isinstance(e.slice, ast.Slice):
            lo = None if e.slice.lower is None else ev(e.slice.lower, env)
            hi = None if e.slice.upper is None else ev(e.slice.upper, env)
            return base[lo:hi]
        try:
            return base[ev(e.slice, env)]
        except (KeyError, IndexError, TypeError) as ex:
            raise Undecidable("subscript: %s" % ex)
    if isinstance(e, ast.Call) and isinstance(e.func, ast.Name) and e.func.id in ("bool", "int", "len", "abs", "max", "min", "range", "divmod", "tuple", "list", "sum", "sorted", "reversed", "bin", "str", "hex", "ord", "chr") and not e.keywords:
        try:
            return {"bool": bool, "int": int, "len": len, "abs": abs, "max": max, "min": min, "range": range, "divmod": divmod, "tuple": tuple, "list": list, "sum": sum, "sorted": sorted, "bin": bin, "str": str, "hex": hex, "ord": ord, "chr": chr,
                    "reversed": lambda x: tuple(reversed(x))}[e.func.id](*[ev(a, env) for a in e.args])
        except (ZeroDivisionError, ValueError) as ex:
            raise Rejected("%s: %s" % (e.func.id, ex))
        except TypeError as ex:
            raise Undecidable("builtin %s: %s" % (e.func.id, ex))
    if isinstance(e, ast.Call) and isinstance(e.func, ast.Name) and e.func.id in env.get("__funcs__", {}) and not e.keywords:
        # a call to another pure helper of the same module
        sub = dict(env.get("__globals__", {}))
        sub.update({"__funcs__": env["__funcs__"], "__depth__": env.get("__depth__", 0) + 1, "__globals__": env.get("__globals__", {})})
        if sub["__depth__"] > 20:
            raise Undecidable("call depth")
        return call(env["__funcs__"][e.func.id], [ev(a, env) for a in e.args], sub)
    if "__paths__" in env and isinstance(e, ast.Call) and isinstance(e.func, ast.Attribute) and isinstance(e.func.value, ast.Name) and e.func.value.id == "self" and not e.keywords:
        args = [ev(a, env) for a in e.args]
        if e.func.attr in env.get("__methods__", {}):
            # a helper method of the same class: evaluated, with the symbolic objects passed on
            sub = {k: env[k] for k in ("__paths__", "__methods__", "__funcs__", "__globals__") if k in env}
            sub.update(env.get("__globals__", {}))
            sub["__depth__"] = env.get("__depth__", 0) + 1
            if sub["__depth__"] > 20:
                raise Undecidable("call depth")
            return call(env["__methods__"][e.func.attr], args, sub)
        path = "self.%s(%s)" % (e.func.attr, ", ".join(a.path if isinstance(a, Sym) else repr(a) for a in args))
        return env["__paths__"][path] if path in env["__paths__"] else Sym(path)
    if isinstance(e, ast.Call) and isinstance(e.func, ast.Attribute) and e.func.attr in ("replace", "startswith", "endswith", "lower", "upper", "split", "count", "lstrip", "rstrip", "strip", "zfill", "join", "index", "find") and not e.keywords:
        v = ev(e.func.value, env)
        if isinstance(v, str):
            try:
                return getattr(v, e.func.attr)(*[ev(a, env) for a in e.args])
            except ValueError as ex:
                raise Rejected(str(ex))
    if isinstance(e, ast.Call) and isinstance(e.func, ast.Attribute) and e.func.attr == "bit_length" and not e.args:
        v = ev(e.func.value, env)
        if isinstance(v, int):
            return v.bit_length()
    raise Undecidable("expression %s" % _text(e)[:40])


def _bind(target, value, env):
    if isinstance(target, ast.Name):
        env[target.id] = value
    elif isinstance(target, (ast.Tuple, ast.List)):
        vs = tuple(value)
        if len(vs) != len(target.elts):
            raise Undecidable("unpack")
        for t, v in zip(target.elts, vs):
            _bind(t, v, env)
    else:
        raise Undecidable("binding target")


class _Return(Exception):
    def __init__(self, v):
        self.v = v


def _exec(stmts, env):
    for st in stmts:
        if isinstance(st, ast.Expr) and isinstance(st.value, ast.Constant):
            continue
        if isinstance(st, ast.Return):
            raise _Return(None if st.value is None else ev(st.value, env))
        if isinstance(st, ast.Assert):
            if not ev(st.test, env):
                raise Rejected(ast.unparse(st.test))
            continue
        if isinstance(st, ast.Raise):
            raise Rejected("raise")
        if isinstance(st, ast.Assign) and len(st.targets) == 1:
            v = ev(st.value, env)
            t = st.targets[0]
            if isinstance(t, ast.Name):
                env[t.id] = v
            elif isinstance(t, ast.Tuple) and all(isinstance(x, ast.Name) for x in t.elts):
                vs = tuple(v)
                if len(vs) != len(t.elts):
                    raise Undecidable("unpack")
                for x, y in zip(t.elts, vs):
                    env[x.id] = y
            else:
                raise Undecidable("assignment target")
            continue
        if isinstance(st, ast.If):
            _exec(st.body if ev(st.test, env) else st.orelse, env)
            continue
        if isinstance(st, ast.Pass):
            continue
        if isinstance(st, ast.Expr) and isinstance(st.value, ast.Yield):
            env.setdefault("__yield__", []).append(None if st.value.value is None else ev(st.value.value, env))
            continue
        if isinstance(st, ast.AugAssign) and isinstance(st.target, ast.Name) and type(st.op) in _BIN:
            env[st.target.id] = _BIN[type(st.op)](ev(st.target, env), ev(st.value, env))
            continue
        if isinstance(st, ast.For) and not st.orelse:
            for x in ev(st.iter, env):
                _bind(st.target, x, env)
                _exec(st.body, env)
            continue
        if isinstance(st, ast.Expr) and isinstance(st.value, ast.Call) and isinstance(st.value.func, ast.Attribute) and st.value.func.attr in ("append", "extend") \
                and isinstance(st.value.func.value, ast.Name) and isinstance(env.get(st.value.func.value.id), tuple) and len(st.value.args) == 1:
            # a local list (lists are modelled as tuples) grows
            v = ev(st.value.args[0], env)
            env[st.value.func.value.id] = env[st.value.func.value.id] + ((v,) if st.value.func.attr == "append" else tuple(v))
            continue
        if isinstance(st, ast.While):
            n = 0
            while ev(st.test, env):
                _exec(st.body, env)
                n += 1
                if n > 10000:
                    raise Undecidable("loop does not terminate on the finite domain")
            continue
        raise Undecidable("statement %s" % type(st).__name__)


STDLIB_CONSTANTS = {"string.hexdigits": "0123456789abcdefABCDEF", "string.digits": "0123456789", "string.octdigits": "01234567",
                    "string.ascii_lowercase": "abcdefghijklmnopqrstuvwxyz", "string.ascii_uppercase": "ABCDEFGHIJKLMNOPQRSTUVWXYZ"}


def module_env(tree):
    """environment for helpers of a module: its top-level functions and those of its top-level constants that evaluate"""
    glob = dict(STDLIB_CONSTANTS)
    funcs = {f.name: f for f in tree.body if isinstance(f, ast.FunctionDef)}
    for st in tree.body:
        if isinstance(st, ast.Assign) and len(st.targets) == 1 and isinstance(st.targets[0], ast.Name):
            try:
                glob[st.targets[0].id] = ev(st.value, glob)
            except Undecidable:
                pass
    env = dict(glob)
    env["__funcs__"] = funcs
    env["__globals__"] = glob
    return env


def call(fn, args, env=None):
    """result of the pure function fn (an ast.FunctionDef) applied to positional args (self excluded)"""
    e = dict(env or {})
    params = [a.arg for a in fn.args.args if a.arg != "self"]
    if len(params) != len(args):
        raise Undecidable("arity")
    e.update(zip(params, args))
    is_gen = any(isinstance(n, (ast.Yield, ast.YieldFrom)) for n in ast.walk(fn))
    if is_gen:
        e["__yield__"] = []
    try:
        _exec(fn.body, e)
    except _Return as r:
        return e["__yield__"] if is_gen else r.v
    return e["__yield__"] if is_gen else None
