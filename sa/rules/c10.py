"""C10 - out-of-range values are rejected: every relocation value reaches its
field through a gate, gate width = field width, scatter code tiles the value
exactly once, gate helpers accept exactly the representable interval, literal
assert ranges lie inside the field's signed interval."""
import ast

from ..core import (norm, walk_no_nested, calls_in, call_name, last_name, try_const, assigned_values,
                    names_in, attrs_in, params_of, resolve_call)
from .. import sym, relocs, ranges

B = "ppci/utils/bitfun.py"
T = "ppci/arch/token.py"
# relocations that encode one part of a value by design (the other part is another relocation)
PARTS = {
    "Abs32Imm12Relocation": "low 12 bits of an absolute address (lui/addi pair)",
    "Abs32Imm20Relocation": "high 20 bits of an absolute address (lui/addi pair)",
    "RelImm12Relocation": "low 12 bits of a pc-relative offset (auipc pair)",
    "RelImm20Relocation": "high 20 bits of a pc-relative offset (auipc pair)",
    "ConstRelocation": "low 16 bits (or1k movhi/ori pair)",
    "ConsthRelocation": "high 16 bits (or1k movhi/ori pair)",
    "LdiLoAvrRelocation": "low byte of a 16-bit address, gated by wrap_negative(.., 16)",
    "LdiHiAvrRelocation": "high byte of a 16-bit address, gated by wrap_negative(.., 16)",
}


def _inline(fn, e, depth=0):
    """inline single-assigned locals"""
    env = sym.single_assign_env(fn)
    return env


def _gates(fn):
    """wrap_negative calls and assert-range statements in fn"""
    wn = [c for c in calls_in(fn, "wrap_negative") if len(c.args) == 2]
    asserts = []
    for n in walk_no_nested(fn):
        if isinstance(n, ast.Assert):
            t = n.test
            if isinstance(t, ast.Compare) and len(t.ops) == 1:
                if isinstance(t.ops[0], ast.In) and isinstance(t.comparators[0], ast.Call) and call_name(t.comparators[0]) == "range":
                    asserts.append((norm(t.left), "range", [try_const(a) for a in t.comparators[0].args], n))
                elif isinstance(t.ops[0], (ast.Lt, ast.LtE)) and try_const(t.comparators[0]) is not None:
                    asserts.append((norm(t.left), "lt", [try_const(t.comparators[0])], n))
    return wn, asserts


def _scatter(fn, var):
    """BitView style scatter of `var`: list of (dst_lo, dst_hi, src_shift, mask_width or None, node)"""
    out = []
    for n in walk_no_nested(fn):
        if isinstance(n, ast.Assign) and isinstance(n.targets[0], ast.Subscript) and isinstance(n.targets[0].slice, ast.Slice) and var in names_in(n.value):
            sl = n.targets[0].slice
            a, b = try_const(sl.lower), try_const(sl.upper)
            v = n.value
            shift, mw = 0, None
            if isinstance(v, ast.BinOp) and isinstance(v.op, ast.BitAnd):
                mwa = sym.mask_width(v.right)
                mw = mwa.const if mwa is not None and mwa.is_const() else None
                v = v.left
            if isinstance(v, ast.BinOp) and isinstance(v.op, ast.RShift) and try_const(v.right) is not None:
                shift = try_const(v.right)
                v = v.left
            if isinstance(v, ast.Name) and v.id == var and isinstance(a, int) and isinstance(b, int):
                out.append((a, b, shift, mw, n))
            else:
                out.append((a, b, None, mw, n))
    return out


def run(ctx):
    ctx.rule("C10.R1", "no silent truncation: a mask or bit-slice is applied only to a gated value, a full-width value, or in a declared lo/hi part relocation", floor=35)
    ctx.rule("C10.R2", "the width N of wrap_negative(v, N) equals the width of the field / scattered bits the value is stored in", floor=12)
    ctx.rule("C10.R3", "scatter code stores every bit of the gated value exactly once, with mask width = slice width and disjoint destinations", floor=6)
    ctx.rule("C10.R4", "gate helpers accept exactly the representable interval of the field (signed fields: [-2^(n-1), 2^(n-1)-1])", floor=4)
    ctx.rule("C10.R5", "literal assert ranges in front of a gate lie inside the field's signed interval", floor=5)
    project = ctx.project
    rs = relocs.all_relocations(project)
    ctx.need(len(rs) >= 40, "fewer than 40 relocation classes found (%d)" % len(rs))
    for r in rs:
        fn = r.own
        if fn is None:
            continue
        ctx.saw("classes", r.site)
        site = r.site + "." + fn.name
        env = sym.single_assign_env(fn)
        wn, asserts = _gates(fn)
        gated_vars = set()
        for c in wn:
            st = c
            while not isinstance(st, ast.stmt):
                st = st._parent
            if isinstance(st, ast.Assign) and isinstance(st.targets[0], ast.Name):
                gated_vars.add(st.targets[0].id)
        asserted = {a[0] for a in asserts}
        # locals that only ever hold literal constants (flags such as U = 1 / U = 0)
        const_locals = set()
        for nm in {n.targets[0].id for n in walk_no_nested(fn) if isinstance(n, ast.Assign) and isinstance(n.targets[0], ast.Name)}:
            vals = assigned_values(fn, nm)
            if vals and all(isinstance(v, ast.Constant) for v in vals):
                const_locals.add(nm)
        # propagate: a local computed from a gated/asserted local is gated
        changed = True
        while changed:
            changed = False
            for n in walk_no_nested(fn):
                if isinstance(n, ast.Assign) and isinstance(n.targets[0], ast.Name) and n.targets[0].id not in gated_vars:
                    if names_in(n.value) & (gated_vars | asserted) and not (names_in(n.value) - gated_vars - asserted - {"self"}):
                        gated_vars.add(n.targets[0].id)
                        changed = True
        # ---- R1: masks / slices --------------------------------------------
        sinks = []
        for n in walk_no_nested(fn):
            if isinstance(n, ast.Return) and n.value is not None and fn.name == "calc":
                sinks.append(("return", n.value, n))
            elif isinstance(n, (ast.Assign, ast.AugAssign)):
                t = n.targets[0] if isinstance(n, ast.Assign) else n.target
                if isinstance(t, ast.Subscript) and norm(t.value) in ("bv", "data"):
                    sinks.append(("store", n.value, n))
        full_width = r.token is not None and r.field is not None and r.token.width(r.field) == r.token.size
        for kind, v, node in sinks:
            vn = names_in(v) - {"self"} - const_locals
            has_wn = any(True for c in ast.walk(v) if isinstance(c, ast.Call) and last_name(c) == "wrap_negative")
            masked = any(isinstance(x, ast.BinOp) and isinstance(x.op, ast.BitAnd) and sym.mask_width(x.right) is not None for x in ast.walk(v))
            sliced = kind == "store" and isinstance((node.targets[0] if isinstance(node, ast.Assign) else node.target).slice, ast.Slice)
            raw_const = not vn
            gated = has_wn or bool(vn) and vn <= (gated_vars | asserted)
            if raw_const:
                continue
            if masked or sliced or kind == "store":
                whole = kind == "store" and sliced and r.token is not None and try_const(node.targets[0].slice.lower) == 0 and try_const(node.targets[0].slice.upper) == r.token.size
                ok = gated or r.name in PARTS or whole
                ctx.ob("C10.R1", site, "`%s` stores/masks only a value that passed wrap_negative / an assert range (or the class is a declared lo/hi part)" % norm(node)[:70], ok,
                       construct="sink:" + norm(node)[:80], node=node, detail="depends on %s; gated locals %s" % (sorted(vn), sorted(gated_vars | asserted)))
            else:
                # plain return into a token field: the token setter is the gate
                how = "wrap_negative" if gated else "full-width field" if full_width else "token setter"
                ctx.ob("C10.R1", site, "returned value reaches field `%s` through a gate (%s)" % (r.field, how), r.field is not None and r.token is not None and r.field in r.token.fields,
                       construct="return:" + norm(v)[:60], node=node)
        # ---- R2: widths --------------------------------------------------------
        for c in wn:
            N = try_const(c.args[1])
            if not isinstance(N, int):
                ctx.undecided("C10.R2", site, "non-literal width in %s" % norm(c))
                continue
            st = c
            while not isinstance(st, ast.stmt):
                st = st._parent
            target = st.targets[0].id if isinstance(st, ast.Assign) and isinstance(st.targets[0], ast.Name) else None
            if isinstance(st, ast.Return) and r.token is not None and r.field:
                post = st.value
                # value may be shifted/masked after the gate (avr ldi parts): then the width relation is with the mask
                if post is c:
                    w = r.token.width(r.field)
                    ctx.ob("C10.R2", site, "wrap_negative(.., %d) matches the %d-bit field `%s`" % (N, w or -1, r.field), w == N, construct="width:" + norm(c), node=c, detail="field bits %s" % r.token.fields.get(r.field))
                continue
            if target:
                sc = _scatter(fn, target)
                helper_calls = [h for h in calls_in(fn) if any(isinstance(a, ast.Name) and a.id == target for a in h.args) and last_name(h) not in ("BitView", "wrap_negative", "str")]
                for h in helper_calls:
                    callee = resolve_call(project, fn, h)
                    if callee is not None:
                        idx = [i for i, a in enumerate(h.args) if isinstance(a, ast.Name) and a.id == target][0]
                        sc += _scatter(callee, params_of(callee)[idx])
                        ctx.saw("functions", "%s:%s" % (callee._module.rel, callee.name))
                if sc and all(s[2] is not None for s in sc):
                    total = sum(b - a for a, b, s, mw, n in sc)
                    ctx.ob("C10.R2", site, "wrap_negative(.., %d) matches the %d scattered bits" % (N, total), total == N, construct="width:" + norm(c), node=c)
                    # ---- R3 partition ---------------------------------------------
                    src = sorted((s, s + (b - a)) for a, b, s, mw, n in sc)
                    tiles = src[0][0] == 0 and all(src[i][1] == src[i + 1][0] for i in range(len(src) - 1)) and src[-1][1] == N
                    ctx.ob("C10.R3", site, "source bit groups tile [0, %d) exactly once" % N, tiles, construct="tile:" + target, node=c, detail=str(src))
                    for a, b, s, mw, n in sc:
                        ctx.ob("C10.R3", site, "`%s`: mask width equals slice width" % norm(n), mw is None and (b - a) >= N - s or mw == b - a, construct="mask:" + norm(n.targets[0]), node=n)
                    dst = sorted((a, b) for a, b, s, mw, n in sc)
                    ctx.ob("C10.R3", site, "destination slices are disjoint", all(dst[i][1] <= dst[i + 1][0] for i in range(len(dst) - 1)), construct="dst:" + target, node=c, detail=str(dst))
                else:
                    # byte stores (data[0] = imm8) : width must fit the stores; a single byte store needs N == 8
                    bytestores = [n for n in walk_no_nested(fn) if isinstance(n, ast.Assign) and isinstance(n.targets[0], ast.Subscript) and norm(n.targets[0].value) == "data" and norm(n.value) == target]
                    if bytestores:
                        ctx.ob("C10.R2", site, "wrap_negative(.., %d) value stored into one byte" % N, N == 8, construct="width:" + norm(c), node=c)
                    else:
                        ctx.undecided("C10.R2", site, "destination of %s not recognised" % norm(c))
        # ---- R5 assert ranges ----------------------------------------------------
        for var, kind, args, node in asserts:
            if kind != "range" or any(not isinstance(a, int) for a in args):
                continue
            lo, hi = (args[0], args[1]) if len(args) >= 2 else (0, args[0])
            step = args[2] if len(args) == 3 else 1
            last = lo + ((hi - 1 - lo) // step) * step if hi > lo else lo
            for c in wn:
                N = try_const(c.args[1])
                e = c.args[0]
                k = 0
                if isinstance(e, ast.BinOp) and isinstance(e.op, ast.RShift) and try_const(e.right) is not None:
                    k, e = try_const(e.right), e.left
                if not (isinstance(e, ast.Name) and e.id == var and isinstance(N, int)):
                    continue
                # effective signed width: 32-bit "container" gates (thumb BL) are followed by narrower scatter: use the scattered bits
                eff = N
                st = c
                while not isinstance(st, ast.stmt):
                    st = st._parent
                smin, smax = -(1 << (eff - 1)), (1 << (eff - 1)) - 1
                ok = (lo >> k) >= smin and (last >> k) <= smax
                ctx.ob("C10.R5", site, "assert range(%s) keeps %s >> %d inside the signed %d-bit interval [%d, %d]" % (", ".join(map(str, args)), var, k, eff, smin, smax), ok,
                       construct="assert-range:" + var, node=node, detail="min %d max %d" % (lo >> k, last >> k))
    # ---- R4 helper semantics -------------------------------------------------------
    bits = sym.atom("bits")
    slo, shi = ranges.signed_interval(bits)
    for qual, rel in (("inrange", B), ("isinsrange", "ppci/arch/riscv/rvc_relocations.py")):
        fn = ctx.fn(rel, qual)
        vname = [p for p in params_of(fn) if p not in ("bits",)][0]
        iv = ranges.accept_interval(fn, vname)
        if iv is None:
            ctx.undecided("C10.R4", "%s:%s" % (rel, qual), "accepted interval not recognised")
            continue
        lo, hi, how = iv
        ctx.ob("C10.R4", "%s:%s" % (rel, qual), "%s accepts exactly the signed interval [-2^(bits-1), 2^(bits-1)-1]" % qual, lo == slo and hi == shi, construct="interval", detail="accepts [%r, %r] via `%s`" % (lo, hi, how))
    fn = ctx.fn(B, "wrap_negative")
    iv = ranges.accept_interval(fn, "value")
    if iv is None:
        ctx.undecided("C10.R4", B + ":wrap_negative", "accepted interval not recognised")
    else:
        lo, hi, how = iv
        ctx.ob("C10.R4", B + ":wrap_negative", "lower bound is the signed minimum -2^(bits-1)", lo == slo, construct="lower", detail=repr(lo))
        ctx.ob("C10.R4", B + ":wrap_negative", "upper bound is the signed maximum 2^(bits-1)-1 (a larger positive value aliases a negative one in a signed field)", hi == shi, construct="upper", detail="accepts up to %r" % hi)
        mk = [v for v in assigned_values(fn, "mask")]
        ctx.ob("C10.R4", B + ":wrap_negative", "result is value & ((1 << bits) - 1)", bool(mk) and sym.mask_width(mk[0], {}) == bits and any(norm(v) == "value & mask" for v in assigned_values(fn, "bit_value")), construct="mask")
        ok = any(isinstance(n, ast.If) and any(isinstance(b, ast.Raise) for b in n.body) and "range(lower_limit, upper_limit + 1)" in norm(n.test) and "not in" in norm(n.test) for n in walk_no_nested(fn))
        ctx.ob("C10.R4", B + ":wrap_negative", "a value outside the interval raises", ok, construct="raises")
    # Token.__setitem__ / _p2: signedness consulted?
    tm = project.module(T)
    uses = []
    for n in ast.walk(tm.tree):
        if isinstance(n, ast.Attribute) and n.attr == "_signed" and isinstance(n.ctx, ast.Load):
            f = n
            while f is not None and not isinstance(f, ast.FunctionDef):
                f = getattr(f, "_parent", None)
            fname = f.name if f is not None else "?"
            p = f
            while p is not None and getattr(p, "_parent", None) is not None and not isinstance(p._parent, ast.Module):
                p = p._parent
            outer = p.name if isinstance(p, (ast.FunctionDef, ast.ClassDef)) else "?"
            if outer != "bit_concat":
                uses.append(fname)
    ctx.ob("C10.R4", T + ":Token.__setitem__", "the field setter consults the field's declared signedness (`_signed`) so that a signed n-bit field rejects values >= 2^(n-1)", bool(uses), construct="signedness-consulted",
           detail="`_signed` is stored by bit_range/bit_concat but never read by a setter")
    si = ctx.fn(T, "Token.__setitem__")
    g = [n for n in walk_no_nested(si) if isinstance(n, ast.If) and any(isinstance(b, ast.Raise) for b in n.body) and norm(n.test) in ("value >= limit", "value > limit - 1", "not value < limit")]
    lim = [v for v in assigned_values(si, "limit")]
    ctx.ob("C10.R4", T + ":Token.__setitem__", "a value >= 2^bits raises ValueError", bool(g) and bool(lim) and norm(lim[0]) == "1 << bits" and any(norm(v) == "key.stop - key.start" for v in assigned_values(si, "bits")), construct="upper-raise")
    neg = [n for n in walk_no_nested(si) if isinstance(n, ast.If) and norm(n.test) == "value < 0"]
    ok = bool(neg) and any(norm(b) == "value = limit + value" for b in neg[0].body) and any(isinstance(n, ast.Assert) and "value >= 0" in norm(n.test) and "value < limit" in norm(n.test) for n in walk_no_nested(si))
    ctx.ob("C10.R4", T + ":Token.__setitem__", "a negative value is stored as its two's complement and re-checked to lie in [0, 2^bits)", ok, construct="negative-wrap")
    _field_setters(ctx)


def _field_setters(ctx):
    """R6: the token field properties hand the value to the range check unchanged, and a concatenated field checks
    what is left after its parts were filled"""
    import ast as _a
    from ..core import norm as _n, walk_no_nested as _w
    T = "ppci/arch/token.py"
    ctx.rule("C10.R6", "token field setters: bit_range stores the value as given (Token.__setitem__ performs the range check on the ORIGINAL value); bit_concat rejects a value whose bits do not all fit its parts", floor=4)
    br = ctx.fn(T, "bit_range")
    st = [f for f in br.body if isinstance(f, _a.FunctionDef) and f.name == "setter"]
    ctx.need(len(st) == 1 and len(st[0].args.args) == 2, "bit_range: setter closure not found")
    s_, v_ = st[0].args.args[0].arg, st[0].args.args[1].arg
    body = [x for x in st[0].body if not (isinstance(x, _a.Expr) and isinstance(x.value, _a.Constant))]
    ok = len(body) == 1 and isinstance(body[0], _a.Assign) and _n(body[0].targets[0]) == "%s[b:e]" % s_ and _n(body[0].value) == v_
    ctx.ob("C10.R6", T + ":bit_range.setter", "the setter is exactly `token[b:e] = value`: nothing masks, wraps or clamps the value before the token's range check sees it", ok, construct="range-setter-verbatim",
           detail="; ".join(" ".join(_n(x).split())[:50] for x in body))
    gt = [f for f in br.body if isinstance(f, _a.FunctionDef) and f.name == "getter"]
    ok = len(gt) == 1 and any(isinstance(r, _a.Return) and _n(r.value) == "%s[b:e]" % gt[0].args.args[0].arg for r in _a.walk(gt[0]))
    ctx.ob("C10.R6", T + ":bit_range.getter", "the getter reads the same slice", ok, construct="range-getter")
    bc = ctx.fn(T, "bit_concat")
    st = [f for f in bc.body if isinstance(f, _a.FunctionDef) and f.name == "setter"]
    ctx.need(len(st) == 1, "bit_concat: setter closure not found")
    v_ = st[0].args.args[1].arg
    loops = [l for l in _w(st[0]) if isinstance(l, _a.For)]
    ok = len(loops) == 1 and "reversed(partials)" in _n(loops[0].iter) and any(isinstance(x, _a.Assign) and _n(x.targets[0]) == v_ and ">>" in _n(x.value) and "_bitsize" in _n(x.value) for x in loops[0].body) and \
        any(isinstance(c, _a.Call) and _n(c.func).endswith(".__set__") and "& " in _n(c) and "_mask" in _n(c) for c in _a.walk(loops[0]))
    ctx.ob("C10.R6", T + ":bit_concat.setter", "the value is distributed over the parts from the least significant part up, each part taking its own width", ok, construct="concat-distribute")
    after = [x for x in st[0].body if loops and x.lineno > loops[0].lineno]
    chk = [x for x in after if isinstance(x, _a.If) and any(isinstance(r, _a.Raise) for r in _a.walk(x))]
    t = " ".join(_n(chk[0].test).split()) if chk else ""
    ok = bool(chk) and t in ("%s not in (0, -1)" % v_, "%s != 0 and %s != -1" % (v_, v_), "%s not in (-1, 0)" % v_)
    ctx.ob("C10.R6", T + ":bit_concat.setter", "what remains of the value after all parts were filled must be 0 (or -1 for a negative value): otherwise the value does not fit and ValueError is raised", ok, construct="concat-leftover-checked", detail=t)
    _encoder_operands(ctx)
    _rotated_immediate(ctx)
    _form_selection(ctx)


def encoder_operand_sites(project):
    """(rel, class, function, kind, node, text): how encode()/render()/set_user_patterns() treat the instruction's
    own integer operands - kind 'masked' (self.op & CONST or % CONST on the raw operand), 'mutated' (self.op = ...)"""
    import ast as _a
    from ..core import norm as _n, try_const as _tc
    out = []
    for rel, m in sorted(project.modules.items()):
        if not rel.startswith("ppci/arch/"):
            continue
        for c in _a.walk(m.tree):
            if not isinstance(c, _a.ClassDef):
                continue
            for f in c.body:
                if not (isinstance(f, _a.FunctionDef) and f.name in ("encode", "set_user_patterns", "render", "relocations", "gen_relocations", "__str__")):
                    continue
                # locals that carry an integer operand (offset = self.imm / offset = -self.imm / a copy of such a local), and the ones a range test looks at
                ops = {n.targets[0].id for n in c.body if isinstance(n, _a.Assign) and isinstance(n.value, _a.Call) and _n(n.value.func) == "Operand" and len(n.value.args) >= 2
                       and _n(n.value.args[1]) == "int" and isinstance(n.targets[0], _a.Name)}
                taint, gated = {}, set()
                if f.name in ("encode", "set_user_patterns"):
                    for n in _a.walk(f):
                        if isinstance(n, _a.Assign) and isinstance(n.targets[0], _a.Name) and not any(isinstance(y, _a.Call) for y in _a.walk(n.value)):
                            srcs = {y.attr for y in _a.walk(n.value) if isinstance(y, _a.Attribute) and _n(y.value) == "self" and y.attr in ops} | {y.id for y in _a.walk(n.value) if isinstance(y, _a.Name) and y.id in taint}
                            if srcs:
                                taint[n.targets[0].id] = srcs
                    for n in _a.walk(f):
                        t = n.test if isinstance(n, _a.Assert) or (isinstance(n, _a.If) and any(isinstance(s, _a.Raise) for s in n.body)) else None
                        if t is None and isinstance(n, _a.Call) and _n(n.func).endswith("wrap_negative"):
                            t = n
                        if t is not None:
                            gated |= {y.id for y in _a.walk(t) if isinstance(y, _a.Name)} | {y.attr for y in _a.walk(t) if isinstance(y, _a.Attribute) and _n(y.value) == "self"}
                for x in _a.walk(f):
                    # bits of a raw operand scattered into fields: (self.offset >> 6) & 1 ... with no range test on that operand in the encoder
                    if f.name in ("encode", "set_user_patterns") and isinstance(x, _a.BinOp) and isinstance(x.op, _a.BitAnd) and isinstance(_tc(x.right), int) \
                            and isinstance(x.left, _a.BinOp) and isinstance(x.left.op, _a.RShift) and isinstance(x.left.left, _a.Attribute) and _n(x.left.left.value) == "self" \
                            and x.left.left.attr in ops and x.left.left.attr not in gated and not isinstance(getattr(x, "_parent", None), _a.Compare):
                        out.append((rel, c.name, f.name, "masked", x, _n(x) + " (bits of operand %s taken without a range test in this encoder)" % x.left.left.attr))
                for x in _a.walk(f):
                    if isinstance(x, _a.BinOp) and isinstance(x.op, (_a.BitAnd, _a.Mod)):
                        if isinstance(getattr(x, "_parent", None), _a.Compare):
                            continue   # `assert self.imm % 4 == 0`, `if self.imm & 0x800`: a test, not a truncation
                        for a, b in ((x.left, x.right), (x.right, x.left)):
                            names = {y.id for y in _a.walk(a) if isinstance(y, _a.Name) and y.id in taint}
                            if isinstance(_tc(b), int) and names and not (names & gated) and not any(taint[nm] & gated for nm in names):
                                out.append((rel, c.name, f.name, "masked", x, _n(x) + " (local carrying operand %s, no range test in this encoder)" % "/".join(sorted(set().union(*[taint[nm] for nm in names])))))
                        for a, b in ((x.left, x.right), (x.right, x.left)):
                            if isinstance(a, _a.Attribute) and _n(a.value) == "self" and isinstance(_tc(b), int) and a.attr not in ("num", "opcode", "opcode2", "func", "cond"):
                                out.append((rel, c.name, f.name, "masked", x, _n(x)))
                    elif isinstance(x, (_a.Assign, _a.AugAssign)):
                        for t in (x.targets if isinstance(x, _a.Assign) else [x.target]):
                            if isinstance(t, _a.Attribute) and _n(t.value) == "self" and t.attr not in ("rep",):
                                out.append((rel, c.name, f.name, "mutated", x, " ".join(_n(x).split())[:60]))
    return out


def _encoder_operands(ctx):
    import ast as _a
    ctx.rule("C10.R7", "encoders never mask (`self.imm & 0xFFF`) or overwrite an operand of their own instruction: an immediate that does not fit must reach a range gate (wrap_negative, the token field setter), and encoding must not change what the instruction prints or encodes next time", floor=1)
    ctl = _a.parse("class K:\n    def encode(self):\n        self.offset = self.offset & 0xFFF\n        return self.offset\n")
    for par in _a.walk(ctl):
        for ch in _a.iter_child_nodes(par):
            ch._parent = par

    class _P:
        modules = {"ppci/arch/x.py": type("M", (), {"tree": ctl})()}
    ctx.need(sorted(k for _, _, _, k, _, _ in encoder_operand_sites(_P())) == ["masked", "mutated"], "C10.R7 positive control lost")
    sites = encoder_operand_sites(ctx.project)
    for rel, cname, fname, kind, node, txt in sites:
        ctx.ob("C10.R7", "%s:%s.%s" % (rel, cname, fname), "the instruction's operand is neither masked nor overwritten while it is encoded", False, construct="%s:%s" % (kind, txt[:50]), node=node, detail="%s: %s" % (kind, txt))
    ctx.ob("C10.R7", "ppci/arch/*", "encoders scanned for masked / overwritten operands", not sites, construct="scan-encoder-operands")


def _rotated_immediate(ctx):
    """R8: the ARM 12-bit modified immediate (8-bit value rotated right by twice a 4-bit count).  encode_imm32 is the
    only gate in front of that field: the instruction encoders store what it returns without another check, and
    Token.__setitem__ would silently wrap a small negative number into the 12 bits."""
    from .. import sym
    ctx.rule("C10.R8", "encode_imm32 returns a field only for a value some even rotation of which fits 8 bits - every return lies under that test inside the search over all 16 rotations - and raises otherwise", floor=5)
    fn = ctx.fn(B, "encode_imm32")
    site = B + ":encode_imm32"
    v = fn.args.args[0].arg
    loops = [l for l in walk_no_nested(fn) if isinstance(l, ast.For)]
    ok = len(loops) == 1 and norm(loops[0].iter) == "range(16)"
    ctx.ob("C10.R8", site, "all 16 rotation counts are tried", ok, construct="all-rotations", detail=norm(loops[0].iter) if loops else "")
    rets = [r for r in walk_no_nested(fn) if isinstance(r, ast.Return)]
    outside = [r for r in rets if not (loops and any(x is r for x in ast.walk(loops[0])))]
    ctx.ob("C10.R8", site, "no value is returned without the search (no shortcut for small or negative arguments: a negative number would be wrapped into the field by the token)", bool(rets) and not outside, construct="no-return-outside-search",
           node=outside[0] if outside else None, detail="; ".join("line %d: return %s" % (r.lineno, norm(r.value)) for r in outside))
    if loops:
        i = norm(loops[0].target)
        env = sym.single_assign_env(loops[0])
        good = []
        for r in rets:
            if r in outside:
                continue
            conds = [(" ".join(norm(sym.deep_inline(c, env)).split()), pol) for c, pol in sym.conjuncts(r, fn, {})]
            fits = any(pol is True and c in ("rotate_left(%s, %s * 2) & 4294967040 == 0" % (v, i), "rotate_left(%s, %s * 2) & 0xFFFFFF00 == 0" % (v, i)) for c, pol in conds)
            val = " ".join(norm(sym.deep_inline(r.value, env)).split())
            packed = val in ("%s << 8 | rotate_left(%s, %s * 2) & 255" % (i, v, i), "%s << 8 | rotate_left(%s, %s * 2) & 0xFF" % (i, v, i))
            good.append(fits and packed)
        ctx.ob("C10.R8", site, "the returned field is (rotation << 8) | low byte of the rotated value, under the test that the rotated value has no bit above bit 7", bool(good) and all(good), construct="packed-under-fit-test")
    last = fn.body[-1]
    ctx.ob("C10.R8", site, "a value no rotation of which fits raises ValueError", isinstance(last, ast.Raise) and "ValueError" in norm(last), construct="raises")
    rl = ctx.fn(B, "rotate_left")
    a, n = rl.args.args[0].arg, rl.args.args[1].arg
    ret = [r for r in walk_no_nested(rl) if isinstance(r, ast.Return)]
    ok = len(ret) == 1 and " ".join(norm(ret[0].value).split()) == "rotate_right(%s, 32 - %s)" % (a, n)
    ctx.ob("C10.R8", B + ":rotate_left", "rotate_left(v, n) is rotate_right(v, 32 - n)", ok, construct="rotate-left")
    rr = ctx.fn(B, "rotate_right")
    a, n = rr.args.args[0].arg, rr.args.args[1].arg
    env = sym.single_assign_env(rr)
    ret = [r for r in walk_no_nested(rr) if isinstance(r, ast.Return)]
    val = " ".join(norm(sym.deep_inline(ret[0].value, env)).split()) if len(ret) == 1 else ""
    ok = val in ("%s >> %s | (%s & 2 ** %s - 1) << 32 - %s" % (a, n, a, n, n), "%s >> %s | (%s & (1 << %s) - 1) << 32 - %s" % (a, n, a, n, n))
    ctx.ob("C10.R8", B + ":rotate_right", "rotate_right(v, n) moves the low n bits of v to the top of a 32-bit word: (v >> n) | ((v & (2**n - 1)) << (32 - n))", ok, construct="rotate-right-32", detail=val)


def _form_selection(ctx):
    """R9: x86-64 memory operands exist in a short form (signed 8-bit displacement) and a long form (32-bit).  The
    encoder picks the form itself; the token field would accept 128..255 for a signed byte (known finding on
    Token.__setitem__), so the test that picks the short form is the only gate."""
    from .. import minieval, sym
    X = "ppci/arch/x86_64/instructions.py"
    ctx.rule("C10.R9", "x86-64: an encoder that chooses between operand forms stores a value into a SIGNED n-bit field only under a condition that implies -2^(n-1) <= value <= 2^(n-1)-1 (decided by evaluating the condition on the boundary values)", floor=1)
    mod = ctx.project.module(X)
    fields = {}
    for c in [c for c in mod.tree.body if isinstance(c, ast.ClassDef)]:
        for st in c.body:
            if isinstance(st, ast.Assign) and isinstance(st.value, ast.Call) and norm(st.value.func) == "bit_range" and isinstance(st.targets[0], ast.Name):
                a, b = try_const(st.value.args[0]), try_const(st.value.args[1])
                signed = any(k.arg == "signed" and try_const(k.value) is True for k in st.value.keywords)
                if isinstance(a, int) and isinstance(b, int):
                    fields[st.targets[0].id] = (b - a, signed)
    ctx.need(any(s for _, s in fields.values()), "x86_64: no signed token field found")
    n = 0
    for cls in [c for c in mod.tree.body if isinstance(c, ast.ClassDef)]:
        for fn in [f for f in cls.body if isinstance(f, ast.FunctionDef)]:
            for call in [c for c in ast.walk(fn) if isinstance(c, ast.Call) and isinstance(c.func, ast.Attribute) and c.func.attr == "set_field" and len(c.args) == 2]:
                fname = try_const(call.args[0])
                if fname not in fields or not fields[fname][1]:
                    continue
                width = fields[fname][0]
                val = norm(call.args[1])
                conds = [(c, pol) for c, pol in sym.conjuncts(call, fn, {}) if val in norm(c)]
                if not conds:
                    continue      # no form choice here: the field setter is the gate (see C10.R4)
                n += 1
                lo, hi = -(1 << (width - 1)), (1 << (width - 1)) - 1
                wrong = []
                try:
                    for d in (lo - 2, lo - 1, lo, lo + 1, -1, 0, 1, hi - 1, hi, hi + 1, hi + 2, (1 << width) - 1, 1 << width, -(1 << width)):
                        taken = all(bool(minieval.ev(c, {val: d})) == pol for c, pol in conds)
                        if taken and not (lo <= d <= hi):
                            wrong.append(d)
                    ctx.ob("C10.R9", "%s:%s.%s" % (X, cls.name, fn.name), "`%s` goes into the signed %d-bit field %s only when it lies in [%d, %d]" % (val, width, fname, lo, hi), not wrong, construct="form:%s.%s" % (cls.name, fname), node=call,
                           detail="short form also chosen for %s" % wrong if wrong else "")
                except minieval.Undecidable as e:
                    ctx.undecided("C10.R9", "%s:%s.%s" % (X, cls.name, fn.name), "form condition not evaluable: %s" % e)
    ctx.need(n >= 1, "x86_64: no encoder choosing a signed displacement form found")
