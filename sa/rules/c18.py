"""C18 - Intel HEX: record layout mirror, checksum relation, record types,
extended-address bookkeeping in the writer loop, region merging."""
import ast
import struct as _struct

from ..core import (norm, walk_no_nested, calls_in, call_name, last_name, try_const, attrs_in, names_in,
                    assigned_values, attr_chain, compare_ops)
from ..cfg import CFG, EXIT, node_calls
from .. import sym, flow

F = "ppci/format/hexfile.py"
SPEC_TYPES = {"DATA": 0, "EOF": 1, "EXTLINADR": 4, "STARTADDR": 5}


def _fmt_size(fmt):
    try:
        return _struct.calcsize(fmt)
    except Exception:
        return None


def run(ctx):
    ctx.rule("C18.R1", "record type constants follow the Intel HEX specification; what load() consumes, save() produces; loaded attributes are saved", floor=8)
    ctx.rule("C18.R2", "to_line and from_line agree on the record layout (count, big-endian 16-bit address, type, data, checksum)", floor=6)
    ctx.rule("C18.R3", "checksum: writer appends the two's complement of the byte sum, reader requires the sum to be 0 mod 256", floor=3)
    ctx.rule("C18.R4", "extended linear address: upper 16 bits written >>16 and read <<16; the running upper address advances at each 64 KiB crossing before the data record", floor=8)
    ctx.rule("C18.R5", "regions: sorted before merging, adjacent merged (scan restarted after each merge), overlap raises; add_region always registers and checks; records after EOF raise", floor=10)
    project = ctx.project
    mod = project.module(F)
    consts = {}
    for name, want in SPEC_TYPES.items():
        v = [try_const(x) for x in mod.assignments(name)]
        consts[name] = v[0] if v else None
        ctx.ob("C18.R1", F + ":" + name, "record type %s == %d (Intel HEX specification)" % (name, want), v == [want], construct="type:" + name, detail=str(v))
    load, save = ctx.fn(F, "HexFile.load"), ctx.fn(F, "HexFile.save")
    read_types = set()
    for l, op, r in compare_ops(load):
        if norm(l) == "line.typ" and op == "Eq" and norm(r) in SPEC_TYPES:
            read_types.add(norm(r))
    written_types = {norm(c.args[1]) for c in calls_in(save, "HexLine") if len(c.args) >= 2}
    for t in sorted(SPEC_TYPES):
        ctx.ob("C18.R1", F + ":HexFile.load", "load() handles record type %s" % t, t in read_types, construct="read:" + t)
    for t in sorted(written_types):
        ctx.ob("C18.R1", F + ":HexFile.save", "record type %s written by save() is understood by load()" % t, t in read_types, construct="written:" + t)
    ctx.ob("C18.R1", F + ":HexFile.save", "save() ends the file with an EOF record after everything else",
           "EOF" in written_types and isinstance(save.body[-1], ast.Expr) and "EOF" in norm(save.body[-1]), construct="eof-last")
    loaded_attrs = {t.attr for n in walk_no_nested(load) if isinstance(n, ast.Assign) for t in n.targets if isinstance(t, ast.Attribute) and norm(t.value) == "self"}
    if any(last_name(c) == "add_region" for c in calls_in(load)):
        loaded_attrs.add("regions")
    saved_attrs = {n.attr for n in ast.walk(save) if isinstance(n, ast.Attribute) and norm(n.value) == "self"}
    for a in sorted(loaded_attrs):
        ctx.ob("C18.R1", F + ":HexFile.save", "attribute HexFile.%s set by load() is written by save()" % a, a in saved_attrs, construct="saved:" + a)
    # start address payload formats agree
    sa_w = [c for c in calls_in(save, "pack") if any("start_address" in attrs_in(a) for a in c.args)]
    sa_r = [c for n in walk_no_nested(load) if isinstance(n, ast.Assign) and "start_address" in attrs_in(n.targets[0]) for c in calls_in(n, "unpack")]
    if sa_w and sa_r:
        ctx.ob("C18.R1", F + ":STARTADDR", "start address is packed and unpacked with the same 32-bit big-endian format", try_const(sa_w[0].args[0]) == try_const(sa_r[0].args[0]) == ">I", construct="startaddr-format")
        sw = [c for c in calls_in(save, "HexLine") if len(c.args) >= 2 and norm(c.args[1]) == "STARTADDR"]
        ctx.ob("C18.R1", F + ":STARTADDR", "start address goes into a STARTADDR record", bool(sw) and "start_address" in norm(sw[0]), construct="startaddr-record")

    # ---- R2 layout ------------------------------------------------------
    tl, fl = ctx.fn(F, "HexLine.to_line"), ctx.fn(F, "HexLine.from_line")
    layout = []  # (what, size or None)
    for n in tl.body:
        for c in (x for x in ast.walk(n) if isinstance(x, ast.Call)):
            if last_name(c) in ("append", "extend") and isinstance(c.func, ast.Attribute) and norm(c.func.value) == "nums":
                a = c.args[0]
                if last_name(c) == "append":
                    layout.append((norm(a), 1))
                elif isinstance(a, ast.Call) and last_name(a) == "pack":
                    layout.append((norm(a.args[1]), _fmt_size(try_const(a.args[0])), try_const(a.args[0])))
                else:
                    layout.append((norm(a), None))
    names = [l[0] for l in layout]
    ctx.ob("C18.R2", F + ":HexLine.to_line", "record bytes are: count, address, type, data, checksum - in that order", names == ["bytecount", "self.address", "self.typ", "self.data", "crc"], construct="order", detail=str(names))
    bc = assigned_values(tl, "bytecount")
    ctx.ob("C18.R2", F + ":HexLine.to_line", "byte count is the length of the data", bool(bc) and norm(bc[0]) == "len(self.data)", construct="bytecount")
    addr_fmt = [l[2] for l in layout if l[0] == "self.address" and len(l) > 2]
    ctx.ob("C18.R2", F + ":HexLine.to_line", "address is written as a big-endian 16-bit field", addr_fmt == [">H"], construct="addr-format", detail=str(addr_fmt))
    # reader slices
    offs, o = {}, 0
    for l in layout:
        offs[l[0]] = o
        o = None if (o is None or l[1] is None) else o + l[1]
    r_ok = {}
    for n in walk_no_nested(fl):
        if isinstance(n, ast.Assign) and isinstance(n.targets[0], ast.Name):
            r_ok[n.targets[0].id] = norm(n.value)
    ctx.ob("C18.R2", F + ":HexLine.from_line", "reader takes the count from byte 0", r_ok.get("bytecount") == "nums[0]", construct="r-count")
    ctx.ob("C18.R2", F + ":HexLine.from_line", "reader takes the address from bytes 1..2 with the writer's format", r_ok.get("address") == "struct.unpack('>H', nums[1:3])[0]" and offs.get("self.address") == 1, construct="r-address", detail=r_ok.get("address"))
    ctx.ob("C18.R2", F + ":HexLine.from_line", "reader takes the type from byte 3", r_ok.get("typ") == "nums[3]" and offs.get("self.typ") == 3, construct="r-type")
    ctx.ob("C18.R2", F + ":HexLine.from_line", "reader takes the data from byte 4 up to the checksum", r_ok.get("data") == "nums[4:-1]" and offs.get("self.data") == 4, construct="r-data")
    ctor = [c for c in calls_in(fl) if call_name(c) == "cls"]
    ctx.ob("C18.R2", F + ":HexLine.from_line", "the record object is built from (address, typ, data)", bool(ctor) and [norm(a) for a in ctor[0].args] == ["address", "typ", "data"], construct="r-ctor")
    lencheck = any(norm(l) == "len(nums)" and op == "NotEq" and sym.affine(r, {}) == sym.atom("bytecount") + sym.const(5) for l, op, r in compare_ops(fl))
    ctx.ob("C18.R2", F + ":HexLine.from_line", "record length must be count + 5 (count, 2 address, type, checksum), else raise", lencheck, construct="r-length")

    # ---- R3 checksum ------------------------------------------------------
    crc_vals = assigned_values(tl, "crc")
    forms = [norm(v) for v in crc_vals]
    ok_sum = "sum(nums)" in forms
    ok_neg = any(f in ("~crc + 1 & 255", "-crc & 255", "256 - crc & 255", "(256 - (crc & 255)) & 255", "(~crc + 1) % 256", "-crc % 256") for f in forms)
    ctx.ob("C18.R3", F + ":HexLine.to_line", "checksum = two's complement of the sum of all preceding record bytes, reduced to 8 bits", ok_sum and ok_neg, construct="w-checksum", detail=str(forms))
    # crc appended after the sum over everything else: last append is crc and sum computed after data
    idx_sum = [i for i, st in enumerate(tl.body) if isinstance(st, ast.Assign) and norm(st.value) == "sum(nums)"]
    idx_data = [i for i, st in enumerate(tl.body) if "self.data" in norm(st) and "extend" in norm(st)]
    ctx.ob("C18.R3", F + ":HexLine.to_line", "the sum covers count, address, type and data", bool(idx_sum) and bool(idx_data) and idx_sum[0] > idx_data[0], construct="w-span")
    rcrc = assigned_values(fl, "crc")
    guard = flow.raising_guards(fl, lambda t, pol: pol and norm(t) in ("crc & 255 != 0", "crc % 256 != 0", "crc & 255", "crc % 256"))
    ctx.ob("C18.R3", F + ":HexLine.from_line", "reader sums the whole record and raises unless the sum is 0 mod 256", bool(rcrc) and norm(rcrc[0]) == "sum(nums)" and bool(guard), construct="r-checksum")

    # ---- R4 extended address ----------------------------------------------
    site = F + ":HexFile.save"
    cfg = CFG(save)
    env = {}
    exts = [c for c in calls_in(save, "HexLine") if len(c.args) >= 3 and norm(c.args[1]) == "EXTLINADR"]
    datas = [c for c in calls_in(save, "HexLine") if len(c.args) >= 3 and norm(c.args[1]) == "DATA"]
    ctx.need(len(datas) == 1 and len(exts) >= 1, "save(): DATA / EXTLINADR record construction not found")
    inner = [n for n in walk_no_nested(save) if isinstance(n, ast.For) and "chunks" in norm(n.iter)]
    ctx.need(len(inner) == 1, "save(): loop over chunks not found")
    chunk_loop = inner[0]
    # upper variable: the name X with  X = region.address & 0xFFFF0000  (or >> 16 form)
    upper = None
    for n in walk_no_nested(save):
        if isinstance(n, ast.Assign) and isinstance(n.targets[0], ast.Name) and "region" in names_in(n.value) and "address" in attrs_in(n.value):
            v = n.value
            if isinstance(v, ast.BinOp) and isinstance(v.op, ast.BitAnd) and try_const(v.right) == 0xFFFF0000:
                upper = (n.targets[0].id, "bytes")
            elif isinstance(v, ast.BinOp) and isinstance(v.op, ast.RShift) and try_const(v.right) == 16:
                upper = (n.targets[0].id, "words")
    if upper is None:
        ctx.undecided("C18.R4", site, "variable holding the upper address of the region not recognised")
    else:
        uname, unit = upper
        step = 0x10000 if unit == "bytes" else 1
        for e in exts:
            payload = e.args[2]
            okp = isinstance(payload, ast.Call) and last_name(payload) == "pack" and try_const(payload.args[0]) == ">H"
            arg = payload.args[1] if okp else None
            want = (uname + " >> 16") if unit == "bytes" else uname
            ctx.ob("C18.R4", site, "extended address record carries the current upper 16 address bits as big-endian 16-bit (`%s`)" % want,
                   okp and norm(arg) == want, construct="ext-payload:%s" % ("in-loop" if any(p is chunk_loop for p in _anc(e)) else "region-start"), node=e, detail=norm(payload))
        in_loop = [e for e in exts if any(p is chunk_loop for p in _anc(e))]
        ctx.ob("C18.R4", site, "an extended address record is written at the start of every region", any(not any(p is chunk_loop for p in _anc(e)) for e in exts) and
               cfg.must_pass(chunk_loop, lambda n: any(c in exts for c in node_calls(n)), start=[n for n in walk_no_nested(save) if isinstance(n, ast.For) and n is not chunk_loop][0]), construct="ext-per-region")
        # crossing guard
        gd = [n for n in chunk_loop.body if isinstance(n, ast.If) and any(norm(l) == "address" and op in ("GtE", "Gt") and try_const(r) in (0x10000, 0xFFFF) for l, op, r in compare_ops(n.test))]
        if not gd:
            ctx.ob("C18.R4", site, "a 64 KiB crossing test (`address >= 0x10000`) precedes each data record", False, construct="crossing-guard")
        else:
            g = gd[0]
            l, op, r = [x for x in compare_ops(g.test) if norm(x[0]) == "address"][0]
            ctx.ob("C18.R4", site, "crossing test is `address >= 0x10000` (16-bit record address overflow)", (op, try_const(r)) in (("GtE", 0x10000), ("Gt", 0xFFFF)), construct="crossing-guard", node=g, detail=norm(g.test))
            data_st = cfg.stmt_of(datas[0])
            ctx.ob("C18.R4", site, "the crossing test is evaluated before every data record", cfg.must_pass(data_st, lambda n: n is g, start=chunk_loop), construct="guard-before-data")
            adv = [n for n in g.body if (isinstance(n, ast.AugAssign) and norm(n.target) == uname and isinstance(n.op, ast.Add) and try_const(n.value) == step)]
            ctx.ob("C18.R4", site, "at a crossing the running upper address advances by one 64 KiB page (`%s += %#x`)" % (uname, step), bool(adv), construct="upper-advances", node=g)
            sub = [n for n in g.body if isinstance(n, ast.AugAssign) and norm(n.target) == "address" and isinstance(n.op, ast.Sub) and try_const(n.value) == 0x10000]
            ctx.ob("C18.R4", site, "at a crossing the 16-bit record address is reduced by 0x10000", bool(sub), construct="address-wraps", node=g)
            emit = [e for e in in_loop if any(p is g for p in _anc(e))]
            ok_order = bool(emit) and bool(adv) and adv[0].lineno < emit[0].lineno
            ctx.ob("C18.R4", site, "the new extended address record is written after the upper address advanced", ok_order, construct="advance-then-emit", node=g)
        # address bookkeeping
        a0 = [v for v in assigned_values(save, "address") if "region" in names_in(v)]
        want0 = sym.atom("region.address") - (sym.atom(uname) if unit == "bytes" else sym.atom(uname).scale(0x10000))
        ctx.ob("C18.R4", site, "record address starts as region.address minus the upper part", bool(a0) and sym.affine(a0[0], {}) == want0, construct="address-start", detail=norm(a0[0]) if a0 else "")
        incs = [n for n in chunk_loop.body if isinstance(n, ast.AugAssign) and norm(n.target) == "address" and norm(n.value) == "len(chunk)"]
        ctx.ob("C18.R4", site, "record address advances by the chunk length after each data record", bool(incs) and incs[0].lineno > datas[0].lineno, construct="address-advance")
        ctx.ob("C18.R4", site, "data record carries (address, DATA, chunk)", [norm(a) for a in datas[0].args] == ["address", "DATA", "chunk"], construct="data-record")
    # reader side
    ext_r = [n for n in walk_no_nested(load) if isinstance(n, ast.Assign) and norm(n.targets[0]) == "ext" and not isinstance(n.value, ast.Constant)]
    okr = bool(ext_r) and isinstance(ext_r[0].value, ast.BinOp) and isinstance(ext_r[0].value.op, ast.LShift) and try_const(ext_r[0].value.right) == 16 and "'>H'" in norm(ext_r[0].value.left)
    ctx.ob("C18.R4", F + ":HexFile.load", "extended address is read as big-endian 16-bit and shifted left 16", okr, construct="r-ext")
    addr = [c for c in calls_in(load, "add_region")]
    ok = bool(addr) and sym.affine(addr[0].args[0], {}) == sym.atom("line.address") + sym.atom("ext") and norm(addr[0].args[1]) == "line.data"
    ctx.ob("C18.R4", F + ":HexFile.load", "data lands at record address + current extended address", ok, construct="r-address")
    ok = any(norm(v) == "0" for v in assigned_values(load, "ext"))
    ctx.ob("C18.R4", F + ":HexFile.load", "extended address starts at 0", ok, construct="r-ext-init")

    # ---- R5 regions -----------------------------------------------------------
    chk = ctx.fn(F, "HexFile.check")
    srt = [c for c in calls_in(chk, "sort")]
    loops = [n for n in walk_no_nested(chk) if isinstance(n, (ast.While, ast.For))]
    ok = bool(srt) and "address" in norm(srt[0]) and bool(loops) and srt[0].lineno < loops[0].lineno
    ctx.ob("C18.R5", F + ":HexFile.check", "regions are sorted by address before adjacent ones are merged", ok, construct="sort-first")
    ov = flow.raising_guards(chk, lambda t, pol: pol and any((norm(l), op, norm(r)) in (("r1.end_address", "Gt", "r2.address"), ("r2.address", "Lt", "r1.end_address")) for l, op, r in compare_ops(t)))
    ctx.ob("C18.R5", F + ":HexFile.check", "overlapping regions raise", bool(ov), construct="overlap-raise")
    mg = [n for n in walk_no_nested(chk) if isinstance(n, ast.If) and any((norm(l), op, norm(r)) == ("r1.end_address", "Eq", "r2.address") for l, op, r in compare_ops(n.test))]
    ok = bool(mg) and any(last_name(c) == "add_data" and norm(c.args[0]) == "r2.data" for c in calls_in(mg[0])) and any(last_name(c) == "remove" and norm(c.args[0]) == "r2" for c in calls_in(mg[0]))
    ctx.ob("C18.R5", F + ":HexFile.check", "adjacent regions are merged by appending the later region's data and removing it", ok, construct="merge")
    # a merge changes the list that the pairs were taken from: the scan must restart
    if mg:
        fl_ = [a for a in _anc18(mg[0]) if isinstance(a, ast.For)]
        snapshot = bool(fl_) and ("zip(" in norm(fl_[0].iter) or "list(" in norm(fl_[0].iter) or "[" in norm(fl_[0].iter))
        leaves = any(isinstance(x, (ast.Break, ast.Return)) for b in mg[0].body for x in ast.walk(b))
        ctx.ob("C18.R5", F + ":HexFile.check", "after a merge removed a region the pair scan is left and restarted (the remaining pairs were taken from the list before the removal and may name the removed region)",
               (not snapshot) or leaves, construct="restart-after-merge", node=mg[0])
        wl = [a for a in _anc18(mg[0]) if isinstance(a, ast.While)]
        ctx.ob("C18.R5", F + ":HexFile.check", "merging repeats until a full scan finds nothing to merge", bool(wl) and any(isinstance(n, ast.Assign) and norm(n.targets[0]) in norm(wl[0].test) and norm(n.value) == "True" for n in ast.walk(mg[0])), construct="merge-fixpoint")
    # load(): every data record is placed at its full address, through add_region
    lb = {}
    for n_ in walk_no_nested(load):
        if isinstance(n_, ast.If) and isinstance(n_.test, ast.Compare) and len(n_.test.ops) == 1 and isinstance(n_.test.ops[0], ast.Eq) and norm(n_.test.left) == "line.typ":
            lb.setdefault(norm(n_.test.comparators[0]), (n_, n_.body))
    if "DATA" in lb:
        body = lb["DATA"][1]
        calls_ = [c for b in body for c in ast.walk(b) if isinstance(c, ast.Call)]
        adds_ = [c for c in calls_ if last_name(c) == "add_region"]
        other = [x for b in body for x in ast.walk(b) if isinstance(x, (ast.If, ast.For, ast.While)) or (isinstance(x, ast.Call) and last_name(x) in ("add_data", "extend", "append"))]
        extv = [n for n in ast.walk(load) if isinstance(n, ast.Assign) and "<< 16" in norm(n.value) and isinstance(n.targets[0], ast.Name)]
        ev = extv[0].targets[0].id if extv else "ext"
        ok = len(adds_) == 1 and not other and len(adds_[0].args) == 2 and sym.affine(adds_[0].args[0], {}) == sym.atom("line.address") + sym.atom(ev) and norm(adds_[0].args[1]) == "line.data"
        ctx.ob("C18.R5", F + ":HexFile.load", "every data record is added as a region at (extended linear address + 16-bit record address): no shortcut that continues the previous record by its 16-bit offset", ok,
               construct="load-data-full-address", node=(other[0] if other else (adds_[0] if adds_ else load)))
        ctx.ob("C18.R5", F + ":HexFile.load", "the extended linear address record sets the upper 16 bits used for all following data records", bool(extv) and "EXTLINADR" in lb and any(x is extv[0] for b in lb["EXTLINADR"][1] for x in ast.walk(b)), construct="load-ext")
    ar = ctx.fn(F, "HexFile.add_region")
    from ..cfg import EXIT
    cfg_ar = CFG(ar)
    app = [cfg_ar.stmt_of(c) for c in calls_in(ar, "append") if norm(c.func.value) == "self.regions"]
    chk_calls = [cfg_ar.stmt_of(c) for c in calls_in(ar, "check")]
    ok = bool(app) and bool(chk_calls) and cfg_ar.must_pass(EXIT, lambda n: any(n is a for a in app)) and cfg_ar.must_pass(EXIT, lambda n: any(n is c for c in chk_calls)) and \
        all(cfg_ar.must_pass(c, lambda n: any(n is a for a in app)) for c in chk_calls)
    ctx.ob("C18.R5", F + ":HexFile.add_region", "every added chunk becomes a region of self.regions and is followed by check() on every path (no shortcut appends to a remembered region object: check() may have merged that object away)", ok, construct="add-region-always-checked")
    cached = [n for n in ast.walk(ctx.cls(F, "HexFile")) if isinstance(n, ast.Assign) and isinstance(n.targets[0], ast.Attribute) and norm(n.targets[0].value) == "self" and isinstance(n.value, ast.Name) and n.value.id in ("region", "r1", "r2")]
    ctx.ob("C18.R5", F + ":HexFile", "no region object is remembered outside self.regions", not cached, construct="no-region-alias", node=cached[0] if cached else None)
    ea = ctx.fn(F, "HexFileRegion.end_address")
    r = [n.value for n in walk_no_nested(ea) if isinstance(n, ast.Return)]
    ctx.ob("C18.R5", F + ":HexFileRegion.end_address", "end address = address + len(data)", bool(r) and norm(r[0]) in ("self.address + len(self.data)", "self.address + self.size", "len(self.data) + self.address"), construct="end-address")
    eofg = flow.raising_guards(load, lambda t, pol: pol and norm(t) == "end_of_file")
    ctx.ob("C18.R5", F + ":HexFile.load", "a record after the EOF record raises", bool(eofg), construct="after-eof")


def _anc(n):
    out = []
    n = getattr(n, "_parent", None)
    while n is not None:
        out.append(n)
        n = getattr(n, "_parent", None)
    return out


def _anc18(n):
    out = []
    n = getattr(n, "_parent", None)
    while n is not None:
        out.append(n)
        n = getattr(n, "_parent", None)
    return out
