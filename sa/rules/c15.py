"""C15 - IR text round trip: every instruction class is readable, every
operator is one token, everything semantic is printed, numbers lex, and the
reader hands the parsed pieces to the constructor in the printed order."""
import ast
import re

from ..core import (norm, walk_no_nested, calls_in, call_name, attr_chain, try_const, init_fields,
                    params_of, last_name)
from .. import tables

R = "ppci/irutils/reader.py"
IR = "ppci/ir.py"
NOT_IN_BLOCKS = {
    "Instruction": "abstract", "LocalValue": "abstract", "FinalInstruction": "abstract", "JumpBase": "abstract",
    "Parameter": "printed with the function header",
    "JumpTable": "constructor raises NotImplementedError",
}
DERIVED_FIELDS = {"targets": "successor list rebuilt by the constructor", "inputs": "phi inputs printed through the loop over .inputs"}


def printed_attrs(fn):
    """ordered list of self.<attr> occurring in the (possibly concatenated)
    f-strings returned by __str__, resolving locals assigned from self.<attr>"""
    loc = {}
    for n in walk_no_nested(fn):
        if isinstance(n, ast.Assign) and isinstance(n.targets[0], ast.Name):
            loc[n.targets[0].id] = n.value
    out = []

    def first_attr(e):
        for x in ast.walk(e):
            ch = attr_chain(x) if isinstance(x, ast.Attribute) else None
            if ch and ch.startswith("self."):
                return ch.split(".")[1]
        return None

    def visit(e):
        if isinstance(e, ast.JoinedStr):
            for v in e.values:
                if isinstance(v, ast.FormattedValue):
                    a = first_attr(v.value)
                    if a is None and isinstance(v.value, ast.Name) and v.value.id in loc:
                        a = first_attr(loc[v.value.id])
                    if a:
                        out.append(a)
        elif isinstance(e, ast.BinOp):
            visit(e.left)
            visit(e.right)
    for r in walk_no_nested(fn):
        if isinstance(r, ast.Return) and r.value is not None:
            visit(r.value)
    return out


def parse_order(project, fn, call):
    """fields of the constructed object in the order the reader parsed them:
    constructor args that are locals, ordered by where the local was assigned"""
    cls = project.resolve_name(fn._module, attr_chain(call.func) or "?")
    if not isinstance(cls, ast.ClassDef):
        return None
    items = []
    for a in call.args:
        if isinstance(a, ast.Name):
            prm = tables.ctor_param(project, fn, call, a)
            if prm is None:
                return None
            # closest preceding assignment of the local
            best = None
            for n in walk_no_nested(fn):
                if isinstance(n, ast.Assign) and isinstance(n.targets[0], ast.Name) and n.targets[0].id == a.id and n.lineno <= call.lineno:
                    if best is None or n.lineno > best.lineno:
                        best = n
            # step back through self-referential re-assignments (a = self.find_value(a))
            while best is not None and any(isinstance(x, ast.Name) and x.id == a.id for x in ast.walk(best.value)):
                prev = None
                for n in walk_no_nested(fn):
                    if isinstance(n, ast.Assign) and isinstance(n.targets[0], ast.Name) and n.targets[0].id == a.id and n.lineno < best.lineno:
                        if prev is None or n.lineno > prev.lineno:
                            prev = n
                best = prev
            if best is None:
                return None
            items.append((best.lineno, tables.param_field(project, cls, prm)))
    items.sort()
    return [f for _, f in items]


def run(ctx):
    _scope_rule(ctx)
    ctx.rule("C15.R1", "every instruction class that can occur in a block is constructed by the reader", floor=15)
    ctx.rule("C15.R2", "every operator / condition string is produced as one token and accepted by the parser", floor=20)
    ctx.rule("C15.R3", "every semantic field of a printed class appears in its printed form", floor=25)
    ctx.rule("C15.R4", "number tokens cover every shape str(int)/str(float) produces", floor=6)
    ctx.rule("C15.R5", "the reader passes the parsed operands to the constructor in the order they are printed", floor=6)
    project = ctx.project
    rd = ctx.cls(R, "Reader")
    base = ctx.cls(IR, "Instruction")
    built = {}
    PLACEHOLDER_SITES = {"find_value"}     # creates ir.Undefined stand-ins for forward references: not a parse of a printed `undefined`
    for m in rd.body:
        if isinstance(m, ast.FunctionDef) and m.name not in PLACEHOLDER_SITES:
            for c in calls_in(m):
                cn = call_name(c) or ""
                if cn.startswith("ir."):
                    built.setdefault(cn[3:], []).append((m, c))
    for c in sorted(project.subclasses(base), key=lambda c: c.name):
        if c._module.rel != IR or c.name in NOT_IN_BLOCKS:
            continue
        ctx.saw("classes", "%s:%s" % (IR, c.name))
        ctx.ob("C15.R1", R + ":Reader", "ir.%s (printed by the writer) is constructed somewhere in the reader" % c.name, c.name in built, construct="class:" + c.name)
    # a value is printed as `<type> <name> = ...`: parse_assignment starts with parse_type
    for c in sorted(project.subclasses(ctx.cls(IR, "LocalValue")), key=lambda c: c.name):
        if c._module.rel != IR or c.name in NOT_IN_BLOCKS or c.name == "Parameter":
            continue
        st_ = project.find_method(c, "__str__")
        if st_ is None:
            continue
        def leftmost(e):
            while isinstance(e, ast.BinOp) and isinstance(e.op, ast.Add):
                e = e.left
            return e
        rets = [leftmost(r.value) for r in walk_no_nested(st_) if isinstance(r, ast.Return) and r.value is not None]
        ok = bool(rets) and all(isinstance(v, ast.JoinedStr) and v.values and isinstance(v.values[0], ast.FormattedValue) and norm(v.values[0].value) in ("self.ty", "ty") for v in rets)
        ctx.ob("C15.R1", IR + ":%s.__str__" % c.name, "the printed form of ir.%s starts with its type (the reader parses `type name = ...`)" % c.name, ok, construct="printed-type-first:" + c.name)
    for cname in ("Variable", "ExternalFunction", "ExternalProcedure", "ExternalVariable", "Function", "Procedure", "Parameter", "Block", "BlobDataTyp"):
        ctx.ob("C15.R1", R + ":Reader", "ir.%s is constructed by the reader" % cname, cname in built, construct="class:" + cname)

    # ---- R2 tokens ------------------------------------------------------
    tk = ctx.fn(R, "tokenize")
    spec = None
    for n in walk_no_nested(tk):
        if isinstance(n, ast.Assign) and norm(n.targets[0]) == "tok_spec":
            spec = try_const(n.value)
    ctx.need(isinstance(spec, list) and all(isinstance(x, tuple) and len(x) == 2 for x in spec), "tokenize: tok_spec is not a literal list of (name, pattern)")
    ctx.saw("tables", "reader.tokenize.tok_spec")
    try:
        tok_re = re.compile("|".join("(?P<%s>%s)" % (n, p) for n, p in spec))
    except re.error as e:
        ctx.need(False, "tok_spec does not compile: %s" % e)
    ops = {}
    for cname, attr in (("Binop", "ops"), ("Unop", "ops"), ("CJump", "conditions")):
        v = try_const(project.class_attr(ctx.cls(IR, cname), attr))
        ctx.need(isinstance(v, (list, tuple)) and v, "ir.%s.%s is not a literal list" % (cname, attr))
        ops[cname] = list(v)
    pa = ctx.fn(R, "Reader.parse_assignment")
    id_ops_ok = "self.token[1] in ir.Binop.ops" in norm(pa)
    unop_generic = "self.peek in ir.Unop.ops" in norm(pa)
    unop_literals = {c.value for n in walk_no_nested(pa) if isinstance(n, ast.Compare) and norm(n.left) == "self.peek" for c in ast.walk(n) if isinstance(c, ast.Constant) and isinstance(c.value, str)}
    for cname, lst in ops.items():
        for op in lst:
            m = tok_re.match(op)
            one = m is not None and m.end() == len(op) and m.lastgroup in ("OTHER", "ID")
            kind = m.lastgroup if m else None
            ok = one and (kind == "OTHER" or (cname == "Binop" and id_ops_ok))
            if cname == "Unop":
                ok = ok and (unop_generic or op in unop_literals)
            ctx.ob("C15.R2", R + ":tokenize", "%s operator %r is a single token the parser accepts" % (cname, op), ok, construct="%s:%s" % (cname, op),
                   detail="lexes as %s (%r)" % (kind, m.group(0) if m else None))
    # ---- R3 printed fields ------------------------------------------------
    for c in sorted(project.subclasses(base), key=lambda c: c.name) + [ctx.cls(IR, "Variable")]:
        if c._module.rel != IR or c.name in NOT_IN_BLOCKS:
            continue
        st = project.find_method(c, "__str__")
        if st is None or (c.name not in built):
            continue  # unreadable classes are reported once by R1
        printed = set()
        for n in ast.walk(st):
            ch = attr_chain(n) if isinstance(n, ast.Attribute) else None
            if ch and ch.startswith("self."):
                printed.add(ch.split(".")[1])
        fields = init_fields(project, c, own_only=True)
        for f in sorted(fields):
            if f in DERIVED_FIELDS or f.startswith("_"):
                continue
            ctx.ob("C15.R3", "%s:%s.__str__" % (IR, c.name), "field ir.%s.%s appears in the printed form (otherwise it cannot survive the round trip)" % (c.name, f), f in printed, construct="printed:%s.%s" % (c.name, f))
    # ---- R4 numbers -------------------------------------------------------
    pats = dict(spec)
    shapes = {"INT": ["0", "7", "-5", "18446744073709551615", "-9223372036854775808"],
              "FLOAT": ["0.1", "-3.0", "123456789.123", "1e+22", "1.5e-07", "-2.5e+30", "inf", "-inf", "nan"]}
    for typ, samples in shapes.items():
        for sm in samples:
            m = tok_re.match(sm)
            ok = m is not None and m.end() == len(sm) and m.lastgroup == typ
            ctx.ob("C15.R4", R + ":tokenize", "%s shape %r (a form str() produces) lexes as one %s token" % (typ, sm, typ), ok, construct="%s:%s" % (typ, sm), detail="lexed %r as %s" % (m.group(0) if m else None, m.lastgroup if m else None))
    # ---- R11 names ---------------------------------------------------------
    ctx.rule("C15.R11", "every name a front-end can give a function, variable or value (identifier: letter or underscore, then letters, digits, underscores) is lexed by the reader as one ID token", floor=6)
    def id_sets(pattern):
        """(first characters, following characters) of a regex of the form [..][..]*  - None when it has another form"""
        import re._parser as sp
        try:
            t = list(sp.parse(pattern))
        except Exception:
            return None
        def cls(item):
            op, av = item
            out = set()
            if str(op) == "LITERAL":
                return {chr(av)}
            if str(op) != "IN":
                return None
            for o, a in av:
                if str(o) == "LITERAL":
                    out.add(chr(a))
                elif str(o) == "RANGE":
                    out |= {chr(c) for c in range(a[0], a[1] + 1)}
                elif str(o) == "CATEGORY" and str(a) == "CATEGORY_DIGIT":
                    out |= set("0123456789")
                else:
                    return None
            return out
        if len(t) != 2 or str(t[1][0]) != "MAX_REPEAT":
            return None
        lo, hi, sub = t[1][1]
        sub = list(sub)
        if lo != 0 or len(sub) != 1:
            return None
        a, b = cls(t[0]), cls(sub[0])
        return None if a is None or b is None else (a, b)
    rd = id_sets(pats.get("ID", ""))
    ctx.need(rd is not None, "tokenize: the ID pattern is not of the form [first][rest]*")
    import string
    want_first, want_rest = set(string.ascii_letters + "_"), set(string.ascii_letters + string.digits + "_")
    ctx.ob("C15.R11", R + ":tokenize", "an ID may start with any letter or an underscore (C identifiers such as _start, wasm helpers such as _run_init)", want_first <= rd[0], construct="id-first", detail="missing: %s" % "".join(sorted(want_first - rd[0])))
    ctx.ob("C15.R11", R + ":tokenize", "an ID continues with letters, digits and underscores", want_rest <= rd[1], construct="id-rest", detail="missing: %s" % "".join(sorted(want_rest - rd[1])))
    for sm in ("_run_init", "_x", "__main__", "a_1", "X9", "main_foo", "L", "e5"):
        m = tok_re.match(sm)
        ok = m is not None and m.end() == len(sm) and m.lastgroup == "ID"
        ctx.ob("C15.R11", R + ":tokenize", "the name %r lexes as one ID token" % sm, ok, construct="ID:" + sm, detail="lexed %r as %s" % (m.group(0) if m else None, m.lastgroup if m else None))
    for rel in ("ppci/lang/c3/lexer.py", "ppci/lang/pascal/lexer.py"):
        mod = project.modules.get(rel)
        if mod is None:
            continue
        for c in ast.walk(mod.tree):
            if isinstance(c, ast.Constant) and isinstance(c.value, str) and c.value.startswith("[") and c.value.endswith("]*"):
                fs = id_sets(c.value)
                if fs and "a" in fs[0]:
                    ctx.ob("C15.R11", R + ":tokenize", "covers the identifiers of %s (%s)" % (rel, c.value), fs[0] <= rd[0] and fs[1] <= rd[1], construct="covers:" + rel, detail="missing first %s rest %s" % ("".join(sorted(fs[0] - rd[0])), "".join(sorted(fs[1] - rd[1]))))
    # ---- R12 operator decides ------------------------------------------------
    ctx.rule("C15.R12", "`ty name = a <op> b`: a symbolic operator token after the first identifier selects the binary operation whatever that identifier is called (values may be named load, cast, call, phi, alloc ...)", floor=3)
    site = R + ":Reader.parse_assignment"
    bin_if = [n for n in ast.walk(pa) if isinstance(n, ast.If) and any(isinstance(c, ast.Call) and norm(c.func) == "ir.Binop" for b in n.body for c in ast.walk(b))]
    bin_if = [n for n in bin_if if not any(m is not n and any(x is m for x in ast.walk(n)) for m in bin_if)]   # innermost
    ctx.need(len(bin_if) == 1, "parse_assignment: the branch that builds ir.Binop was not found")
    t = bin_if[0].test
    disj = t.values if isinstance(t, ast.BoolOp) and isinstance(t.op, ast.Or) else [t]
    bare = [d for d in disj if " ".join(norm(d).split()) == "self.peek in ir.Binop.ops"]
    ctx.ob("C15.R12", site, "`self.peek in ir.Binop.ops` alone (not and-ed with a test of the identifier) selects the binop branch", len(bare) == 1, construct="symbolic-op-decides", node=t, detail=" ".join(norm(t).split())[:160])
    excl = [d for d in disj if d not in bare]
    ok = all(isinstance(d, ast.BoolOp) and isinstance(d.op, ast.And) and any("self.token[1] in ir.Binop.ops" in norm(v) for v in d.values) for d in excl)
    ctx.ob("C15.R12", site, "identifier exclusions (load / cast / call) restrict only the word-operator form `a rol b`", ok, construct="exclusions-only-for-word-ops")
    parent = getattr(bin_if[0], "_parent", None)
    first = isinstance(parent, ast.If) and parent.body and parent.body[-1] is bin_if[0] and norm(parent.test) == "self.peek == 'ID'"
    ctx.ob("C15.R12", site, "the operator test comes before the keyword branches (phi, alloc, load, cast, call, literal)", bool(first) and bool(bin_if[0].orelse), construct="binop-tested-first")
    # ---- R5 order ----------------------------------------------------------
    for cname in ("Store", "CJump", "Binop", "Load", "Cast", "Alloc", "Unop", "Jump", "Return"):
        cls = ctx.cls(IR, cname)
        st = project.find_method(cls, "__str__")
        pr = [a for a in printed_attrs(st) if a not in ("ty", "name")]
        for m, call in built.get(cname, []):
            po = parse_order(project, m, call)
            if po is None:
                ctx.undecided("C15.R5", "%s:Reader.%s" % (R, m.name), "constructor arguments of ir.%s are not plain parsed locals" % cname)
                continue
            po = [f for f in po if f not in ("ty", "name")]
            pr2 = [f for f in pr if f in po]
            ctx.ob("C15.R5", "%s:Reader.%s" % (R, m.name), "ir.%s operands are parsed in the order they are printed (%s)" % (cname, ", ".join(pr)), po == pr2 and len(po) >= min(len(pr), 1),
                   construct="order:" + cname, node=call, detail="printed %s, parsed %s" % (pr, po))


def _scope_rule(ctx):
    _forward_refs(ctx)
    """name resolution must search the innermost scope first (locals shadow
    module-level names) and define into the innermost scope"""
    import ast as _a
    from ..core import norm as _n, walk_no_nested as _w
    rid = "C15.R9"
    ctx.rule(rid, "value names resolve innermost scope first; definitions go to the innermost scope", floor=2)
    lk = ctx.fn("ppci/irutils/reader.py", "Reader.find_value")
    loops = [x for x in _w(lk) if isinstance(x, _a.For) and "scopes" in _n(x.iter)]
    ok = bool(loops) and _n(loops[0].iter) in ("reversed(self.scopes)", "self.scopes[::-1]")
    ctx.ob(rid, "ppci/irutils/reader.py:Reader.find_value", "lookup walks the scope stack from the innermost scope outwards", ok, construct="innermost-first", detail=_n(loops[0].iter) if loops else "no loop over scopes")
    df = ctx.fn("ppci/irutils/reader.py", "Reader.define_value")
    st = [x for x in _w(df) if isinstance(x, _a.Assign) and "value_map" in _n(x.targets[0])]
    ok = bool(st) and _n(st[0].targets[0]).startswith("self.scopes[-1].value_map[")
    ctx.ob(rid, "ppci/irutils/reader.py:Reader.define_value", "a new value is defined in the innermost scope", ok, construct="define-innermost")


def _forward_refs(ctx):
    """forward references: one placeholder per undefined name, patched when the definition is parsed"""
    import ast as _a
    from ..core import norm as _n, walk_no_nested as _w, last_name as _l
    from ..shapes import get_or_create
    R = "ppci/irutils/reader.py"
    rid = "C15.R10"
    ctx.rule(rid, "forward references: every use of a not yet defined name gets the ONE placeholder registered for that name, and the definition replaces that placeholder everywhere", floor=5)
    fv = ctx.fn(R, "Reader.find_value")
    g = get_or_create(fv, lambda c: _n(c.func) == "ir.Undefined")
    ctx.need(g is not None, "find_value: creation of the ir.Undefined placeholder not found")
    site = R + ":Reader.find_value"
    ctx.ob(rid, site, "a placeholder is created only when none is registered for the name", g["guarded"], construct="create-only-if-absent", node=g["node"], detail="form %s on %s[%s]" % (g["form"], g["registry"], g["key"]))
    ctx.ob(rid, site, "the new placeholder is registered under the name", g["stored"] or g["form"] == "setdefault-discarded", construct="registered", node=g["node"])
    ctx.ob(rid, site, "a second use of the name returns the registered placeholder (a private copy would never be patched)", g["reused"], construct="registered-one-reused", node=g["node"])
    rets = [r for r in _w(fv) if isinstance(r, _a.Return) and r.value is not None]
    ctx.ob(rid, site, "the value returned is the variable holding the found/registered value", len(rets) == 1 and _n(rets[0].value) == g["var"], construct="returns-it")
    dv = ctx.fn(R, "Reader.define_value")
    site = R + ":Reader.define_value"
    pops = [n for n in _a.walk(dv) if isinstance(n, _a.Assign) and isinstance(n.value, _a.Call) and _l(n.value) in ("pop", "get", "__getitem__") and g["registry"] and _n(n.value.func.value) == g["registry"]]
    rep = [c for c in _a.walk(dv) if isinstance(c, _a.Call) and _l(c) == "replace_by"]
    ok = len(pops) == 1 and len(rep) == 1 and _n(rep[0].func.value) == _n(pops[0].targets[0]) and _n(rep[0].args[0]) == dv.args.args[1].arg and _l(pops[0].value) == "pop"
    ctx.ob(rid, site, "defining a name takes its placeholder out of the registry and replaces all its uses by the real value", ok, construct="patch-on-define")
