"""C27 - C integer constant expressions: operator coverage of the constant
evaluator against the parser's alphabet, C meaning of each operator
(truncating / and %), and conversion of every computed value to the type of
the expression before it reaches struct.pack."""
import ast

from ..core import (norm, walk_no_nested, dict_items, try_const, subscript_key_stores, calls_in, call_name,
                    last_name, derives)
from ..tables import isinstance_branches, eq_branches
from .. import intsem

F = "ppci/lang/c/eval.py"
P = "ppci/lang/c/parser.py"
PYOP = {"+": "+", "-": "-", "*": "*", "<<": "<<", ">>": ">>", "<": "<", ">": ">", "<=": "<=", ">=": ">=", "==": "==",
        "!=": "!=", "&": "&", "^": "^", "|": "|", "&&": "and", "||": "or"}
# operators of a constant expression (C11 6.6: no assignment, no comma)
NOT_CONST = {",", "=", "+=", "-=", "*=", "/=", "%=", ">>=", "<<=", "|=", "&=", "^=", "?"}
EXPR_CLASSES = ["BinaryOperator", "TernaryOperator", "UnaryOperator", "Cast", "Sizeof", "NumericLiteral", "CharLiteral", "VariableAccess"]


def _prio_ops(ctx):
    init = ctx.fn(P, "CParser.__init__")
    for n in walk_no_nested(init):
        if isinstance(n, ast.Assign) and norm(n.targets[0]) == "self.prio_map" and isinstance(n.value, ast.Dict):
            return [try_const(k) for k, _ in dict_items(n.value)]
    ctx.need(False, "CParser.prio_map not found")


def run(ctx):
    from ..report import Sub
    from . import c01
    if not isinstance(ctx, Sub):
        c01._promo_rules(Sub(ctx, "C01", only=["C01.R4"]))   # the evaluator converts to expr.typ: the type semantics assigns is its premise
    ctx.rule("C27.R1", "the evaluator has an entry for every operator the parser can put in a constant expression", floor=20)
    ctx.rule("C27.R2", "each entry has the C meaning of its operator; / and % truncate toward zero", floor=15)
    ctx.rule("C27.R3", "every computed integer value is converted to the type of its expression (modulo 2^N, by signedness) before it is returned", floor=5)
    project = ctx.project
    mod = project.module(F)
    eb = ctx.fn(F, "ConstantExpressionEvaluator.eval_binop")
    site = F + ":ConstantExpressionEvaluator.eval_binop"
    table = {}
    tvar = None
    for n in walk_no_nested(eb):
        if isinstance(n, ast.Assign) and isinstance(n.value, ast.Dict) and isinstance(n.targets[0], ast.Name):
            tvar = n.targets[0].id
            for k, v in dict_items(n.value):
                table[try_const(k)] = ("always", v)
    ctx.need(tvar is not None, "eval_binop: operator dict literal not found")
    ctx.saw("tables", "eval_binop." + tvar)
    stores = [(try_const(t.slice), n) for n in walk_no_nested(eb) if isinstance(n, ast.Assign) for t in n.targets
              if isinstance(t, ast.Subscript) and norm(t.value) == tvar]
    for k, st in stores:
        # conditional entries: under `if expr.typ.is_integer` (integer only) or its else (float only)
        cond = "always"
        p = st._parent
        if isinstance(p, ast.If):
            t = norm(p.test)
            if t.endswith(".is_integer"):
                cond = "int" if st in p.body else "float"
            else:
                cond = "?" + t
        if k in table and {table[k][0], cond} == {"int", "float"}:
            table[k] = ("both", table[k][1] if cond == "float" else st.value)
        else:
            table[k] = (cond, st.value)
    ops = [o for o in _prio_ops(ctx) if isinstance(o, str) and o not in NOT_CONST]
    ctx.need(len(ops) >= 18, "parser alphabet too small: %s" % ops)
    for o in ops:
        ok = o in table and table[o][0] in ("always", "int", "both")
        ctx.ob("C27.R1", site, "binary `%s` can be evaluated for integer operands" % o, ok, construct="binop:" + o,
               detail="entry condition: %s" % (table[o][0] if o in table else "absent"))
    # the table lookup is by the parser's operator string
    look = [n for n in walk_no_nested(eb) if isinstance(n, ast.Subscript) and isinstance(n.ctx, ast.Load) and norm(n.value) == tvar]
    ctx.ob("C27.R1", site, "the table is indexed by the operator of the expression", bool(look) and all(norm(x.slice) in ("op", "expr.op") for x in look), construct="lookup")
    # ?: and the unary operators
    ee = ctx.fn(F, "ConstantExpressionEvaluator.eval_expr")
    br = isinstance_branches(ee, "expr")
    for c in EXPR_CLASSES:
        ctx.ob("C27.R1", F + ":ConstantExpressionEvaluator.eval_expr", "eval_expr has a branch for %s" % c, ("expressions." + c) in br, construct="class:" + c)
    eu = ctx.fn(F, "ConstantExpressionEvaluator.eval_unop")
    ubr = eq_branches(eu, "expr.op")
    for o in ("-", "~", "!"):
        ctx.ob("C27.R1", F + ":ConstantExpressionEvaluator.eval_unop", "unary `%s` can be evaluated" % o, o in ubr, construct="unop:" + o)

    # R2
    for o, (cond, fe) in sorted(table.items(), key=lambda kv: str(kv[0])):
        if not isinstance(o, str):
            continue
        d = intsem.resolve_callable(project, mod, fe)
        if o in ("/", "%"):
            if cond == "float":
                continue
            verdict, why = intsem.div_verdict(project, d, "div" if o == "/" else "rem")
            if verdict == "undecided":
                ctx.undecided("C27.R2", site, "`%s`: %s" % (o, why))
            else:
                ctx.ob("C27.R2", site, "integer `%s` truncates toward zero (C11 6.5.5p6)" % o, verdict == "trunc", construct="sem:" + o, node=fe, detail="%s: %s" % (verdict, why))
        elif o in PYOP:
            used = intsem.python_ops_used(d)
            if d.kind == "unknown":
                ctx.undecided("C27.R2", site, "callable of `%s` not resolved" % o)
            else:
                extra = used - {PYOP[o]}
                ctx.ob("C27.R2", site, "`%s` is evaluated with Python `%s`" % (o, PYOP[o]), PYOP[o] in used and not extra, construct="sem:" + o, node=fe, detail="%r uses %s" % (d, sorted(used)))
        else:
            ctx.undecided("C27.R2", site, "operator `%s` has no specification entry" % o)
    # float division entry, if present, is true division
    for st in [s for s in walk_no_nested(eb) if isinstance(s, ast.If) and norm(s.test).endswith(".is_integer")]:
        for s in st.orelse:
            if isinstance(s, ast.Assign) and isinstance(s.targets[0], ast.Subscript) and try_const(s.targets[0].slice) == "/":
                d = intsem.resolve_callable(project, mod, s.value)
                ctx.ob("C27.R2", site, "floating `/` is true division", intsem.python_ops_used(d) == {"/"}, construct="sem:/float", node=s.value)
    # ?: evaluates the selected arm
    if "expressions.TernaryOperator" in br:
        body = br["expressions.TernaryOperator"][1]
        ifs = [s for s in body if isinstance(s, ast.If)]
        ok = False
        if len(ifs) == 1:
            i = ifs[0]
            t, a, b = norm(i.test), " ".join(norm(s) for s in i.body), " ".join(norm(s) for s in i.orelse)
            ok = "expr.a" in t and "expr.b" in a and "expr.c" in b and "expr.c" not in a and "expr.b" not in b
        ctx.ob("C27.R2", F + ":ConstantExpressionEvaluator.eval_expr", "?: yields the second operand when the first is non-zero, else the third", ok, construct="ternary-arms")
    if "!" in ubr:
        txt = " ".join(norm(s) for s in ubr["!"][1])
        ctx.ob("C27.R2", F + ":ConstantExpressionEvaluator.eval_unop", "`!` yields 1 for zero and 0 otherwise", "int(not " in txt or "== 0" in txt, construct="sem:!", detail=txt)
    for o, py in (("-", "neg"), ("~", "~")):
        if o in ubr:
            # the op_map inside the branch
            for s in ubr[o][1]:
                for n in ast.walk(s):
                    if isinstance(n, ast.Dict):
                        for k, v in dict_items(n):
                            if try_const(k) == o:
                                used = intsem.python_ops_used(intsem.resolve_callable(project, mod, v))
                                ctx.ob("C27.R2", F + ":ConstantExpressionEvaluator.eval_unop", "unary `%s` is evaluated with Python %s" % (o, py), used == {py}, construct="sem:unary" + o, node=v)

    # R3: conversion
    conv = ctx.fn(F, "ConstantExpressionEvaluator.convert", optional=True)
    csite = F + ":ConstantExpressionEvaluator.convert"
    if conv is None:
        ctx.ob("C27.R3", F + ":ConstantExpressionEvaluator", "the evaluator has a conversion-to-type step", False, construct="convert-exists")
        return
    cc = [c for c in calls_in(conv) if last_name(c) == "correct"]
    ok = False
    if cc and len(cc[0].args) == 3:
        bits, signed = cc[0].args[1], cc[0].args[2]
        bsrc = derives(conv, bits, project)
        btxt = " ".join(sorted(bsrc)) if isinstance(bsrc, (set, list)) else str(bsrc)
        ok = norm(signed).endswith(".is_signed") and ("sizeof" in btxt or "sizeof" in norm(bits))
        eight = [n for n in walk_no_nested(conv) if isinstance(n, ast.BinOp) and isinstance(n.op, ast.Mult) and 8 in (try_const(n.left), try_const(n.right)) and "sizeof" in norm(n)]
        ok = ok and bool(eight)
    ctx.ob("C27.R3", csite, "convert() wraps with correct(value, 8*sizeof(typ), typ.is_signed)", ok, construct="convert-shape", node=cc[0] if cc else conv)
    rets = [n for n in walk_no_nested(conv) if isinstance(n, ast.Return)]
    guard = [n for n in walk_no_nested(conv) if isinstance(n, ast.If) and ".is_integer" in norm(n.test)]
    ctx.ob("C27.R3", csite, "convert() applies to every integer type (guarded only by is_integer / int value)", len(guard) == 1 and len(rets) == 1 and
           all(x in ("isinstance(value, int)", "typ.is_integer") for x in ([norm(v) for v in guard[0].test.values] if isinstance(guard[0].test, ast.BoolOp) else [norm(guard[0].test)])),
           construct="convert-guard", node=guard[0] if guard else conv)
    # results of eval_binop, eval_unop(-,~) and integer casts pass through convert(…, expr.typ)
    def through_convert(fn, value_node):
        """does value_node (an expression or a name) come from self.convert(x, expr.typ)?"""
        cands = [value_node]
        if isinstance(value_node, ast.Name):
            from ..core import assigned_values
            cands = assigned_values(fn, value_node.id)
        return cands and all(isinstance(c, ast.Call) and norm(c.func) == "self.convert" and len(c.args) == 2 and norm(c.args[1]) == "expr.typ" for c in cands)
    # a single conversion of whatever eval_expr returns serves all three sites
    er = [n for n in walk_no_nested(ee) if isinstance(n, ast.Return) and n.value is not None]
    def conv_before(ret):
        body = ret._parent.body if hasattr(ret._parent, "body") else []
        i = body.index(ret) if ret in body else 0
        prev = body[i - 1] if i > 0 else None
        return (isinstance(prev, ast.Assign) and isinstance(ret.value, ast.Name) and norm(prev.targets[0]) == ret.value.id
                and isinstance(prev.value, ast.Call) and norm(prev.value.func) == "self.convert" and len(prev.value.args) == 2 and norm(prev.value.args[1]) == "expr.typ")
    outer = bool(er) and all(through_convert(ee, x.value) or conv_before(x) for x in er)
    if outer:
        ctx.ob("C27.R3", F + ":ConstantExpressionEvaluator.eval_expr", "every value eval_expr returns is converted to the expression's type", True, construct="expr-converted")
    through_inner = through_convert
    through_convert = lambda fn, v: outer or through_inner(fn, v)
    r = [n for n in walk_no_nested(eb) if isinstance(n, ast.Return) and n.value is not None]
    ctx.ob("C27.R3", site, "the result of a binary operator is converted to the expression's type", bool(r) and all(through_convert(eb, x.value) for x in r), construct="binop-converted")
    for o in ("-", "~"):
        if o in ubr:
            asg = [s for b in ubr[o][1] for s in ast.walk(b) if isinstance(s, ast.Assign) and norm(s.targets[0]) == "value"]
            ok = outer or (bool(asg) and all(isinstance(s.value, ast.Call) and norm(s.value.func) == "self.convert" and norm(s.value.args[1]) == "expr.typ" for s in asg))
            ctx.ob("C27.R3", F + ":ConstantExpressionEvaluator.eval_unop", "the result of unary `%s` is converted to the expression's type" % o, ok, construct="unop-converted:" + o)
    ec = ctx.fn(F, "ConstantExpressionEvaluator.eval_cast")
    ints = [n for n in walk_no_nested(ec) if isinstance(n, ast.If) and norm(n.test).endswith(".is_integer")]
    ok = outer
    if ints and not outer:
        asg = [s for s in ints[0].body if isinstance(s, ast.Assign)]
        ok = bool(asg) and isinstance(asg[-1].value, ast.Call) and norm(asg[-1].value.func) == "self.convert" and norm(asg[-1].value.args[1]) == "expr.typ"
    ctx.ob("C27.R3", F + ":ConstantExpressionEvaluator.eval_cast", "a cast to an integer type converts the value to that type", ok, construct="cast-converted")
    _limits(ctx)


def _limits(ctx):
    """R5: the type limits that decide the type of an integer literal"""
    from .. import sym
    C = "ppci/lang/c/context.py"
    ctx.rule("C27.R5", "CContext.limit_max: the largest value of an N-bit signed type is 2^(N-1) - 1, of an unsigned type 2^N - 1, with N = 8 * size (a literal exactly at 2^(N-1) must not be typed as the signed type)", floor=3)
    lm = ctx.fn(C, "CContext.limit_max")
    site = C + ":CContext.limit_max"
    env = sym.single_assign_env(lm)
    bits = env.get("bit_size")
    ctx.ob("C27.R5", site, "the width is 8 times the size of the type in bytes", bits is not None and norm(bits).replace(" ", "") in ("8*self.type_size_map[typ.type_id][0]", "self.type_size_map[typ.type_id][0]*8", "8*self.sizeof(typ)"), construct="bit-size", detail=norm(bits) if bits is not None else "")
    found = {}
    for n in ast.walk(lm):
        if isinstance(n, ast.If) and norm(n.test) in ("typ.is_signed", "not typ.is_signed"):
            pos, neg = (n.body, n.orelse) if norm(n.test) == "typ.is_signed" else (n.orelse, n.body)
            for key, body in (("signed", pos), ("unsigned", neg)):
                for st in body:
                    for x in ast.walk(st):
                        if isinstance(x, (ast.Assign, ast.Return)) and x.value is not None:
                            found[key] = x.value

    def pow2_minus_one(e):
        """exponent Aff of an expression of the form 2**k - 1 or (1 << k) - 1, else None"""
        if isinstance(e, ast.BinOp) and isinstance(e.op, ast.Sub) and isinstance(e.right, ast.Constant) and e.right.value == 1:
            b = e.left
            if isinstance(b, ast.BinOp) and isinstance(b.op, ast.Pow) and isinstance(b.left, ast.Constant) and b.left.value == 2:
                return sym.affine(b.right, {})
            if isinstance(b, ast.BinOp) and isinstance(b.op, ast.LShift) and isinstance(b.left, ast.Constant) and b.left.value == 1:
                return sym.affine(b.right, {})
        return None
    w = sym.atom("bit_size")
    es, eu = (pow2_minus_one(found[k]) if k in found else None for k in ("signed", "unsigned"))
    ctx.ob("C27.R5", site, "signed maximum = 2^(bit_size - 1) - 1", es is not None and es == w - sym.const(1), construct="signed-max", detail=norm(found["signed"]) if "signed" in found else "not found")
    ctx.ob("C27.R5", site, "unsigned maximum = 2^bit_size - 1", eu is not None and eu == w, construct="unsigned-max", detail=norm(found["unsigned"]) if "unsigned" in found else "not found")
