"""C03 - IR well-formedness bookkeeping: who may mutate the def-use fields,
mirror updates inside ir.py, a raising remove is executed at most once per
replaced value, the optimizer pipeline is bracketed by the verifier."""
import ast

from ..core import norm, walk_no_nested, calls_in, last_name
from ..cfg import CFG

IR = "ppci/ir.py"
FIELDS = {"uses", "used_by", "_var_map"}
MUTATORS = {"add", "remove", "discard", "clear", "pop", "update", "append", "extend", "insert", "__setitem__", "setdefault"}
# modules that use the same attribute names for unrelated objects (reason per line)
OTHER_OBJECTS = {
    "ppci/graph/domtree.py": "_block_map is CfgInfo's own block->node dict",
}


def _anc(n):
    out = []
    n = getattr(n, "_parent", None)
    while n is not None:
        out.append(n)
        n = getattr(n, "_parent", None)
    return out


def run(ctx):
    ctx.rule("C03.R1", "only ppci/ir.py mutates the def-use bookkeeping fields (uses, used_by, _var_map); everything else goes through add_use/del_use/replace_use", floor=1)
    ctx.rule("C03.R2", "inside ir.py a change of `uses` is mirrored on `used_by` in the same function", floor=2)
    ctx.rule("C03.R4", "a raising remove (del_use) runs at most once per replaced value: never inside the loop over the operand slots", floor=4)
    ctx.rule("C03.R5", "api.optimize verifies the module before the first and after the last pass", floor=2)
    project = ctx.project
    # R1
    n_mod = 0
    bad = []
    for rel, mod in project.modules.items():
        if rel == IR or rel in OTHER_OBJECTS:
            continue
        n_mod += 1
        for hit in _writes(project, mod.tree):
            bad.append((rel, hit))
    ctx.need(n_mod > 300, "project modules not enumerated")
    # positive control: the matcher must see these three writes
    ctl = ast.parse("def f(v, i):\n    v.used_by.remove(i)\n    i.uses = set()\n    i._var_map['a'] = v\n")
    ctx.need(len(_writes(project, ctl)) == 3, "C03.R1 matcher lost its positive control")
    ctx.ob("C03.R1", "ppci/*", "no module outside ir.py writes uses/used_by/_var_map (%d modules scanned)" % n_mod, not bad, construct="ownership",
           node=bad[0][1] if bad else None, detail="; ".join("%s:%d %s" % (r, h.lineno, norm(h)[:60]) for r, h in bad[:5]))
    for rel, hit in bad[1:]:
        ctx.ob("C03.R1", rel, "no write to def-use fields", False, construct="ownership:" + norm(hit)[:80], node=hit)

    # R2
    for q, a, b in (("Instruction.add_use", "self.uses.add", "add_user"), ("Instruction.del_use", "self.uses.remove", "del_user"),
                    ("Value.add_user", "self.used_by.add", None), ("Value.del_user", "self.used_by.remove", None)):
        fn = ctx.fn(IR, q)
        txt = [norm(c.func) for c in calls_in(fn)]
        ok = a in txt and (b is None or any(t.endswith("." + b) for t in txt))
        ctx.ob("C03.R2", IR + ":" + q, "%s%s" % (a, " is mirrored by %s()" % b if b else " updates the reverse edge set"), ok, construct="mirror")

    # R4
    inst = ctx.cls(IR, "Instruction")
    n = 0
    for c in project.subclasses(inst, strict=False):
        if c._module.rel != IR:
            continue
        for m in c.body:
            if isinstance(m, ast.FunctionDef) and m.name in ("replace_use", "set_incoming"):
                n += 1
                site = "%s:%s.%s" % (IR, c.name, m.name)
                dels = [d for d in calls_in(m, "del_use")]
                in_loop = [d for d in dels if any(isinstance(a, (ast.For, ast.While)) for a in _anc(d) if a is not m)]
                ctx.ob("C03.R4", site, "del_use (set.remove, raises KeyError the second time) is not called once per matching slot", not in_loop, construct="del-in-loop",
                       node=in_loop[0] if in_loop else m)
                # a del_use that follows an inherited replace_use must be guarded (the base may already have dropped the use)
                sup = [x for x in calls_in(m) if norm(x.func) == "super().replace_use"]
                if sup and dels:
                    ok = all(any(isinstance(a, ast.If) and "self.uses" in norm(a.test) for a in _anc(d)) for d in dels)
                    ctx.ob("C03.R4", site, "del_use after super().replace_use is guarded by `old in self.uses`", ok, construct="guarded-del", node=dels[0])
    ctx.need(n >= 5, "replace_use/set_incoming methods not found")
    # remove_from_block / delete iterate over a copy
    for q in ("Instruction.remove_from_block", "Instruction.delete"):
        fn = ctx.fn(IR, q)
        loops = [l for l in walk_no_nested(fn) if isinstance(l, ast.For) and "self.uses" in norm(l.iter)]
        ok = bool(loops) and all(norm(l.iter).startswith("list(") for l in loops)
        ctx.ob("C03.R4", IR + ":" + q, "the uses set is copied before del_use mutates it in the loop", ok, construct="iterate-copy")

    _block_refs(ctx)
    _mem2reg(ctx)
    _fresh_insertions(ctx)
    _typed_replacements(ctx)
    _fold_defined(ctx)
    # R5
    opt = ctx.fn("ppci/api.py", "optimize")
    cfg = CFG(opt)
    runs = [c for c in ast.walk(opt) if isinstance(c, ast.Call) and last_name(c) == "run" and "pass" in norm(c.func).lower()]
    ctx.need(runs, "api.optimize: pass.run call not found")
    is_verify = lambda n: any(last_name(c) == "verify_module" for c in ast.walk(n) if isinstance(c, ast.Call)) and not isinstance(n, (ast.For, ast.While, ast.If))
    for r in runs:
        st = cfg.stmt_of(r)
        ctx.ob("C03.R5", "ppci/api.py:optimize", "verify_module runs before the first pass", cfg.must_pass(st, is_verify), construct="verify-before", node=r)
        loop = [a for a in _anc(r) if isinstance(a, ast.For)]
        ctx.ob("C03.R5", "ppci/api.py:optimize", "verify_module runs after the last pass on every path to the return", bool(loop) and cfg.must_follow(loop[-1], is_verify), construct="verify-after", node=r)


def _block_refs(ctx):
    """R6: predecessor bookkeeping of jumps.  Block.references holds each jump ONCE (a set), while a jump may
    name the same block in several slots (cjmp c ? b : b)."""
    from .. import sym
    ctx.rule("C03.R6", "Block.references (the predecessor set) mirrors JumpBase._block_map: a jump leaves a block's set only when no other slot still targets that block, and a raising remove never runs once per slot", floor=4)
    st = ctx.fn(IR, "JumpBase.set_target_block")
    site = IR + ":JumpBase.set_target_block"
    rem = [c for c in ast.walk(st) if isinstance(c, ast.Call) and last_name(c) in ("remove", "discard") and norm(c.func.value).endswith(".references")]
    ctx.need(len(rem) == 1, "set_target_block: removal from the old block's references not found")
    env = sym.single_assign_env(st)
    cj = sym.conjuncts(rem[0], st, {})
    conj = [("" if pol else "not ") + norm(e) for e, pol in cj]
    pol_of = {id(e): pol for e, pol in cj}
    raw = [e for e, pol in cj]
    other_slots = [e for e in raw if any(isinstance(x, ast.Call) and norm(x.func) in ("self._block_map.values", "self._block_map.items") for x in ast.walk(e))]
    ctx.ob("C03.R6", site, "the jump is removed from the old target's references only under a condition over all slots of _block_map (another slot may still name the old block; comparing only old and new block is not enough)",
           bool(other_slots), construct="other-slots-consulted", node=rem[0], detail="; ".join(conj))
    if other_slots:
        t = ("" if pol_of[id(other_slots[0])] else "not ") + norm(other_slots[0])
        ok = ("count(" in t and "== 1" in t and not t.startswith("not ")) or t.startswith("not any(") or t.startswith("all(")
        ctx.ob("C03.R6", site, "that condition means `no other slot holds the old block` (count == 1 before the slot is overwritten, or no other slot is the old block)", ok, construct="other-slots-none", node=rem[0], detail=t)
    stores = [n for n in walk_no_nested(st) if isinstance(n, ast.Assign) and norm(n.targets[0]).startswith("self._block_map[")]
    adds = [c for c in ast.walk(st) if isinstance(c, ast.Call) and last_name(c) == "add" and norm(c.func.value).endswith(".references")]
    ok = len(stores) == 1 and len(adds) == 1 and not sym.conjuncts(adds[0], st, {}) and not sym.conjuncts(stores[0], st, {}) and rem[0].lineno < stores[0].lineno
    ctx.ob("C03.R6", site, "the slot is overwritten after the old reference was considered, and the jump is added to the new target's references unconditionally", ok, construct="store-then-add")
    dl = ctx.fn(IR, "JumpBase.delete")
    site = IR + ":JumpBase.delete"
    rem = [c for c in ast.walk(dl) if isinstance(c, ast.Call) and last_name(c) in ("remove", "discard") and norm(c.func.value).endswith(".references")]
    ctx.need(rem, "JumpBase.delete: removal from references not found")
    for c in rem:
        in_loop = any(isinstance(a, (ast.For, ast.While)) for a in _anc(c) if a is not dl)
        guarded = any(pol and isinstance(e, ast.Compare) and isinstance(e.ops[0], (ast.In, ast.NotIn)) and ("references" in norm(e) or "_block_map.values()" in norm(e)) for e, pol in sym.conjuncts(c, dl, {}))
        ctx.ob("C03.R6", site, "delete(): per-slot removal from references tolerates two slots naming one block (discard, or a membership guard): set.remove raises KeyError the second time",
               (not in_loop) or last_name(c) == "discard" or guarded, construct="delete-per-slot", node=c, detail=norm(c))
    loops = [l for l in walk_no_nested(dl) if isinstance(l, (ast.While, ast.For))]
    ctx.ob("C03.R6", site, "delete() empties every slot", bool(loops) and "_block_map" in norm(loops[0].test if isinstance(loops[0], ast.While) else loops[0].iter), construct="delete-all-slots")
    ct = ctx.fn(IR, "JumpBase.change_target")
    calls = [c for c in calls_in(ct, "set_target_block")]
    ok = bool(calls) and any(isinstance(a, ast.For) and "_block_map" in norm(a.iter) for a in _anc(calls[0])) and not any(isinstance(x, (ast.Break, ast.Return)) for x in ast.walk(ct))
    ctx.ob("C03.R6", IR + ":JumpBase.change_target", "change_target retargets every slot that holds the old block (no early exit after the first)", ok, construct="change-all-slots")


def _top_index(fn, node):
    n = node
    while getattr(n, "_parent", None) is not fn:
        n = n._parent
    return fn.body.index(n)


def _mem2reg(ctx):
    """R7: skeleton of the SSA construction in mem2reg (Cytron et al.): iterated dominance frontier, renaming
    along the dominator tree with a stack that is restored per block, undef defined where it dominates all uses"""
    M = "ppci/opt/mem2reg.py"
    ctx.rule("C03.R7", "mem2reg: phis on the iterated dominance frontier; renaming pushes definitions, feeds successors' phis with the current value and restores the stack per dominator-tree node; the undefined initial value is defined in the function's entry block", floor=9)
    pr = ctx.fn(M, "Mem2RegPromotor.promote")
    site = M + ":Mem2RegPromotor.promote"
    ren = [c for c in calls_in(pr, "rename")]
    ctx.need(len(ren) == 1 and ren[0].args, "promote: call of rename not found")
    iv = norm(ren[0].args[0])
    mk = [n for n in ast.walk(pr) if isinstance(n, ast.Assign) and norm(n.targets[0]) == iv]
    ctx.ob("C03.R7", site, "the value a variable has before any store is an ir.Undefined of the variable's type", len(mk) == 1 and isinstance(mk[0].value, ast.Call) and norm(mk[0].value.func) == "ir.Undefined", construct="initial-undefined")
    ins = [c for c in ast.walk(pr) if isinstance(c, ast.Call) and last_name(c) in ("insert_instruction", "add_instruction") and c.args and norm(c.args[0]) == iv]
    ok = len(ins) == 1 and norm(ins[0].func.value).endswith(".function.entry") and last_name(ins[0]) == "insert_instruction" and not ins[0].keywords and len(ins[0].args) == 1 and ins[0].lineno < ren[0].lineno
    ctx.ob("C03.R7", site, "that value is inserted at the top of the function's entry block before renaming (the entry block dominates every phi that may receive it; the alloc's own block need not)", ok, construct="initial-in-entry",
           node=ins[0] if ins else pr, detail=norm(ins[0]) if ins else "")
    rm = [c for c in calls_in(pr, "remove_from_block") if norm(c.func.value) == "store"]
    ctx.ob("C03.R7", site, "the promoted stores are removed after renaming used their values", bool(rm) and rm[0].lineno > ren[0].lineno, construct="stores-removed-last")
    pp = ctx.fn(M, "Mem2RegPromotor.place_phi_nodes")
    site = M + ":Mem2RegPromotor.place_phi_nodes"
    wl = [n for n in walk_no_nested(pp) if isinstance(n, ast.While)]
    ctx.need(len(wl) == 1, "place_phi_nodes: worklist loop not found")
    work = norm(wl[0].test)
    phis = [c for c in ast.walk(wl[0]) if isinstance(c, ast.Call) and norm(c.func) == "ir.Phi"]
    ctx.need(len(phis) == 1, "place_phi_nodes: phi creation not found")
    guard = [a for a in _anc(phis[0]) if isinstance(a, ast.If)]
    fl = [a for a in _anc(phis[0]) if isinstance(a, ast.For)]
    fb = norm(fl[0].target) if fl else "?"
    body = guard[0] if guard else wl[0]
    readd = [c for c in ast.walk(body) if isinstance(c, ast.Call) and last_name(c) in ("add", "append") and norm(c.func.value) == work and norm(c.args[0]) == fb]
    ctx.ob("C03.R7", site, "a block that receives a phi becomes a defining block itself (iterated dominance frontier): it is put back on the worklist", bool(readd), construct="iterated-frontier")
    ok = bool(guard) and "not in" in norm(guard[0].test) and fb in norm(guard[0].test) and any(isinstance(c, ast.Call) and last_name(c) == "add" and norm(c.args[0]) == fb and norm(c.func.value) in norm(guard[0].test) for c in ast.walk(guard[0]))
    ctx.ob("C03.R7", site, "a block gets at most one phi per variable (guarded by the has-phi set, which is updated)", ok, construct="one-phi-per-block")
    src = fl[0].iter if fl else None
    srct = norm(src)
    if isinstance(src, ast.Name):
        a = [n for n in ast.walk(wl[0]) if isinstance(n, ast.Assign) and norm(n.targets[0]) == src.id]
        srct = norm(a[0].value) if a else srct
    pops = [n for n in ast.walk(wl[0]) if isinstance(n, ast.Assign) and isinstance(n.value, ast.Call) and last_name(n.value) == "pop" and norm(n.value.func.value) == work]
    dv = norm(pops[0].targets[0]) if pops else "?"
    ctx.ob("C03.R7", site, "the candidate blocks are the dominance frontier of the block taken from the worklist", "cfg_info.df[%s]" % dv in srct, construct="frontier-of-popped", detail=srct)
    ip = [c for c in ast.walk(body) if isinstance(c, ast.Call) and last_name(c) == "insert_instruction" and norm(c.func.value) == fb]
    ctx.ob("C03.R7", site, "the phi is inserted at the top of the frontier block and returned", bool(ip) and any(isinstance(r, ast.Return) and r.value is not None for r in walk_no_nested(pp)), construct="phi-inserted")
    rn = ctx.fn(M, "Mem2RegPromotor.rename")
    site = M + ":Mem2RegPromotor.rename"
    sr = [f for f in ast.walk(rn) if isinstance(f, ast.FunctionDef) and f is not rn]
    ctx.need(len(sr) == 1, "rename: recursive search function not found")
    sf = sr[0]
    st0 = [n for n in rn.body if isinstance(n, ast.Assign) and isinstance(n.value, ast.List) and len(n.value.elts) == 1 and norm(n.value.elts[0]) == rn.args.args[1].arg]
    ctx.need(len(st0) == 1, "rename: value stack not found")
    stack = norm(st0[0].targets[0])
    pushes = [c for c in ast.walk(sf) if isinstance(c, ast.Call) and norm(c.func) == stack + ".append"]
    pushed = sorted(norm(c.args[0]) for c in pushes)
    counted = all(any(isinstance(x, ast.AugAssign) and isinstance(x.op, ast.Add) and norm(x.value) == "1" for x in c._parent._parent.body) for c in pushes if isinstance(getattr(c._parent, "_parent", None), ast.If))
    ctx.ob("C03.R7", site, "a phi pushes itself and a store pushes the stored value as the current definition, each counted", len(pushes) == 2 and any(p.endswith(".value") for p in pushed) and counted, construct="push-defs", detail=str(pushed))
    rep = [c for c in ast.walk(sf) if isinstance(c, ast.Call) and last_name(c) == "replace_by"]
    ctx.ob("C03.R7", site, "a load is replaced by the definition on top of the stack", len(rep) == 1 and norm(rep[0].args[0]) == stack + "[-1]", construct="load-gets-top")
    si = [c for c in ast.walk(sf) if isinstance(c, ast.Call) and last_name(c) == "set_incoming"]
    ok = len(si) == 1 and norm(si[0].args[1]) == stack + "[-1]" and any(isinstance(a, ast.For) and "successors" in norm(a.iter) for a in _anc(si[0]))
    blk = norm(si[0].args[0]) if si else "?"
    walkb = [l for l in walk_no_nested(sf) if isinstance(l, ast.For) and norm(l.iter) == blk]
    ctx.ob("C03.R7", site, "every phi of every CFG successor receives (this block, current definition) after the block's instructions were walked", ok and bool(walkb) and walkb[0].lineno < si[0].lineno, construct="feed-successor-phis",
           detail=norm(si[0]) if si else "")
    rec = [c for c in ast.walk(sf) if isinstance(c, ast.Call) and norm(c.func) == sf.name]
    pops = [c for c in ast.walk(sf) if isinstance(c, ast.Call) and norm(c.func) == stack + ".pop"]
    ok = len(rec) == 1 and len(pops) == 1 and any(isinstance(a, ast.For) and ".children" in norm(a.iter) for a in _anc(rec[0])) and rec[0].lineno < pops[0].lineno and \
        any(isinstance(a, ast.For) and isinstance(a.iter, ast.Call) and norm(a.iter.func) == "range" for a in _anc(pops[0]))
    cnt = [a for a in _anc(pops[0]) if isinstance(a, ast.For)] if pops else []
    cv = norm(cnt[0].iter.args[0]) if cnt and isinstance(cnt[0].iter, ast.Call) and cnt[0].iter.args else "?"
    inc = [x for x in ast.walk(sf) if isinstance(x, ast.AugAssign) and norm(x.target) == cv]
    ctx.ob("C03.R7", site, "the dominator-tree children are visited with this block's definitions on the stack, then exactly the definitions pushed in this block are popped", ok and len(inc) == len(pushes) and len(pushes) > 0, construct="stack-restored",
           detail="%d pushes, %d counted, pop x %s" % (len(pushes), len(inc), cv))
    start = [c for c in walk_no_nested(rn) if isinstance(c, ast.Call) and norm(c.func) == sf.name]
    ctx.ob("C03.R7", site, "renaming starts at the root of the dominator tree", len(start) == 1 and "root_tree" in norm(start[0].args[0]), construct="start-at-root")


def _writes(project, tree):
    out = []
    for n in ast.walk(tree):
        hit = None
        if isinstance(n, ast.Call) and isinstance(n.func, ast.Attribute) and n.func.attr in MUTATORS and isinstance(n.func.value, ast.Attribute) and n.func.value.attr in FIELDS:
            if not (isinstance(n.func.value.value, ast.Name) and n.func.value.value.id == "self" and _self_is_not_ir(project, n)):
                hit = n
        elif isinstance(n, (ast.Assign, ast.AugAssign, ast.Delete)):
            tg = n.targets if not isinstance(n, ast.AugAssign) else [n.target]
            for t in tg:
                base = t.value if isinstance(t, ast.Subscript) else t
                if isinstance(base, ast.Attribute) and base.attr in FIELDS and not (isinstance(base.value, ast.Name) and base.value.id == "self" and _self_is_not_ir(project, n)):
                    hit = n
        if hit is not None:
            out.append(hit)
    return out


def _self_is_not_ir(project, node):
    """`self.uses = ...` in a class that is not an IR class (e.g. codegen
    frames keep their own `uses`) is a different object"""
    cls = None
    for a in _anc(node):
        if isinstance(a, ast.ClassDef):
            cls = a
            break
    if cls is None:
        return False
    names = {b.name for b in project.mro(cls)}
    return not (names & {"Instruction", "Value"})


# insertion sites that MOVE an instruction (it leaves its old block in the same function); reason per site
MOVES = {
    ("ppci/opt/clean.py", "CleanPass.glue_blocks"): "the instructions of block2 move to block1 and block2 is removed from the function afterwards",
}
PASS_MODULES = ("ppci/opt/cjmp.py", "ppci/opt/clean.py", "ppci/opt/constantfolding.py", "ppci/opt/mem2reg.py", "ppci/opt/tailcall.py", "ppci/opt/cse.py", "ppci/opt/transform.py", "ppci/opt/load_after_store.py")


def _fresh_insertions(ctx):
    """R8: Block.insert_instruction / add_instruction set instruction.block and put the object into the block's
    list without looking whether it already sits in a block.  An object that is already placed would then be listed
    twice (or listed in one block while claiming another): a value with two definitions.  So what a pass inserts
    has to be an object it has just constructed."""
    from .. import sym
    ctx.rule("C03.R8", "what an optimisation pass inserts into a block is an instruction object it constructed itself (never one that already sits in a block), unless the site is a recorded move", floor=9)
    project = ctx.project

    def summary(rel, cls, meth, depth=0):
        """for a helper method: list of (return node, kind) with kind 'fresh' | ('param', name, guard type) | 'other'"""
        f = project.modules[rel].defs.get(cls + "." + meth)
        if f is None or depth > 2:
            return None
        params = [a.arg for a in f.args.args]
        out = []
        for r in walk_no_nested(f):
            if not isinstance(r, ast.Return) or r.value is None:
                continue
            k = fresh(rel, cls, f, r.value, r, depth + 1)
            if k is not True and isinstance(r.value, ast.Name) and r.value.id in params:
                conds = sym.conjuncts(r, f, {})
                g = [norm(c.args[1]) for c, pol in conds if pol is True and isinstance(c, ast.Call) and norm(c.func) == "isinstance" and norm(c.args[0]) == r.value.id]
                out.append((r, ("param", params.index(r.value.id) - 1, g[0] if g else None)))
            else:
                out.append((r, "fresh" if k is True else "other"))
        return out

    def fresh(rel, cls, fn, e, at, depth=0):
        if isinstance(e, ast.Call) and isinstance(e.func, ast.Attribute) and isinstance(e.func.value, ast.Name) and e.func.value.id == "ir" and e.func.attr[:1].isupper():
            return True
        if isinstance(e, ast.Name):
            v = sym.nearest_def(at, e.id)
            if v is not None:
                return fresh(rel, cls, fn, v, at, depth)
            return False
        if isinstance(e, ast.Call) and isinstance(e.func, ast.Attribute) and isinstance(e.func.value, ast.Name) and e.func.value.id == "self" and cls:
            sm = summary(rel, cls, e.func.attr, depth)
            if not sm:
                return False
            for r, kind in sm:
                if kind == "fresh":
                    continue
                if isinstance(kind, tuple) and kind[2] and 0 <= kind[1] < len(e.args):
                    # the helper hands its argument back when it is a <type>: the call site must have excluded that
                    conds = sym.conjuncts(at, fn, {})
                    arg = norm(e.args[kind[1]])
                    if any(pol is False and isinstance(c, ast.Call) and norm(c.func) == "isinstance" and norm(c.args[0]) == arg and norm(c.args[1]) == kind[2] for c, pol in conds):
                        continue
                return False
            return True
        return False

    n_sites = 0
    for rel in PASS_MODULES:
        mod = project.modules.get(rel)
        if mod is None:
            continue
        for q, f in mod.defs.items():
            if not isinstance(f, ast.FunctionDef) or "." not in q:
                continue
            cls = q.rsplit(".", 1)[0]
            for c in walk_no_nested(f):
                if not (isinstance(c, ast.Call) and last_name(c) in ("insert_instruction", "add_instruction") and c.args):
                    continue
                n_sites += 1
                site = "%s:%s" % (rel, q)
                if (rel, q) in MOVES:
                    loop = [l for l in walk_no_nested(f) if isinstance(l, ast.For) and any(x is c for x in ast.walk(l))]
                    src = norm(loop[0].iter) if loop else None
                    rm = [x for x in calls_in(f, "remove_block") if src and norm(x.args[0]) == src and x.lineno > c.lineno]
                    ctx.ob("C03.R8", site, "recorded move: the block the instructions come from is removed from the function afterwards (%s)" % MOVES[(rel, q)], bool(loop) and len(rm) == 1, construct="move:" + q, node=c)
                    continue
                st = c
                while not isinstance(st, ast.stmt):
                    st = st._parent
                ok = fresh(rel, cls, f, c.args[0], st)
                ctx.ob("C03.R8", site, "the inserted object `%s` is constructed by the pass (ir.<Class>(...) here, or in a helper whose every return is such a construction)" % norm(c.args[0]), ok is True, construct="fresh:%s:%s" % (q, norm(c.args[0])), node=c)
    ctx.need(n_sites >= 9, "only %d insertion sites found in the optimisation passes" % n_sites)


def _guards(node, fn):
    """texts of the conditions that hold at node (enclosing tests with polarity, early exits), names not inlined"""
    from .. import sym
    return [norm(e) for e, pol in sym.conjuncts(node, fn, env={}) if pol]


def _asserts_before(fn, node):
    """texts of the conjuncts of assert statements of fn's own body list that precede node in the same statement list"""
    from .. import sym
    out = []
    stmt = node
    while getattr(stmt, "_parent", None) is not None and not isinstance(stmt, ast.stmt):
        stmt = stmt._parent
    par = getattr(stmt, "_parent", None)
    for field in ("body", "orelse"):
        lst = getattr(par, field, None)
        if isinstance(lst, list) and stmt in lst:
            for s in lst[:lst.index(stmt)]:
                if isinstance(s, ast.Assert):
                    out += [norm(c) for c in sym.flatten_bool(s.test)]
    return out


def _same_type(facts, a, b):
    return a == b or ("%s is %s" % (a, b)) in facts or ("%s is %s" % (b, a)) in facts


def _typed_replacements(ctx):
    """C03.R9.  `old.replace_by(new)` rewires every user of old to new without looking at types (ir.Value.replace_by);
    'operand types agree' therefore needs new.ty is old.ty at every call.  Each call site in ppci/opt is decided by the
    idiom that establishes the type on that site; a site matching no idiom is a failed obligation."""
    from .. import sym
    ctx.rule("C03.R9", "type-preserving replacement: at every `old.replace_by(new)` of an optimisation pass the code itself establishes new.ty is old.ty (operand of the replaced binop, incoming value of the replaced phi, constructed with old.ty, found by a type-guarded search, looked up under a key that contains the type, or promoted only when all loads and stores agree)", floor=6)
    project = ctx.project
    sites = []
    for rel, mod in sorted(project.modules.items()):
        if not rel.startswith("ppci/opt/"):
            continue
        for q, fn in mod.defs.items():
            if not isinstance(fn, ast.FunctionDef):
                continue
            for c in walk_no_nested(fn):
                if isinstance(c, ast.Call) and isinstance(c.func, ast.Attribute) and c.func.attr == "replace_by" and len(c.args) == 1:
                    sites.append((rel, q, fn, c))
        # nested functions (mem2reg.rename/search)
        for q, fn in mod.defs.items():
            if isinstance(fn, ast.FunctionDef):
                for inner in ast.walk(fn):
                    if isinstance(inner, ast.FunctionDef) and inner is not fn:
                        for c in walk_no_nested(inner):
                            if isinstance(c, ast.Call) and isinstance(c.func, ast.Attribute) and c.func.attr == "replace_by" and len(c.args) == 1 and not any(s[3] is c for s in sites):
                                sites.append((rel, q + "/" + inner.name, inner, c))
    ctx.need(len(sites) >= 6, "replace_by call sites in ppci/opt: %d found, 8 confirmed by reading (floor 6)" % len(sites))
    for rel, q, fn, c in sites:
        old, new = norm(c.func.value), norm(c.args[0])
        site = "%s:%s" % (rel, q)
        what = "`%s.replace_by(%s)`: the new value has the type of the old one" % (old, new)
        guards = _guards(c, fn)
        ok, how = False, "no idiom establishes the type"
        binding = None
        if isinstance(c.args[0], ast.Name):
            from .. import sym
            binding = sym.nearest_def(c, new)
        # I1: an operand of the replaced binary operation (the verifier guarantees a.ty is b.ty is ty on well-formed input)
        if new in (old + ".a", old + ".b") and any(g in ("type(%s) is ir.Binop" % old, "isinstance(%s, ir.Binop)" % old) for g in guards):
            ok, how = True, "operand of the replaced ir.Binop"
        # I7: an incoming value of the replaced phi (the verifier guarantees value.ty is phi.ty on well-formed input)
        elif (new.startswith(old + ".get_value(") or new.startswith(old + ".inputs[")) and any(isinstance(a, (ast.For, ast.comprehension)) and norm(a.target) == old and norm(a.iter).endswith(".phis") for a in _anc(c)):
            ok, how = True, "incoming value of the replaced phi"
        # I2: constructed with the old value's type
        elif isinstance(binding, ast.Call) and norm(binding.func) in ("ir.Phi", "ir.Const", "ir.Undefined") and binding.args and old + ".ty" in (norm(binding.args[-1]), norm(sym.nearest_def(c, binding.args[-1].id) or binding.args[-1]) if isinstance(binding.args[-1], ast.Name) else ""):
            ok, how = True, "constructed as %s(..., %s.ty)" % (norm(binding.func), old)
        # I3: result of a typed summary function (every return is its argument or a constant of a type that is the argument's)
        elif isinstance(binding, ast.Call) and norm(binding.func).startswith("self.") and len(binding.args) == 1 and norm(binding.args[0]) == old:
            callee = project.find_method(project.cls(rel, q.split(".")[0]), norm(binding.func)[5:]) if "." in q else None
            if callee is not None:
                p = [a.arg for a in callee.args.args if a.arg != "self"][0]
                rets = [r for r in walk_no_nested(callee) if isinstance(r, ast.Return) and r.value is not None]
                bad = []
                for r in rets:
                    v = r.value
                    if isinstance(v, ast.Name) and v.id != p:
                        from .. import sym
                        v = sym.nearest_def(r, v.id) or v
                    if norm(v) == p and "isinstance(%s, ir.Const)" % p in _guards(r, callee):
                        continue
                    if isinstance(v, ast.Call) and norm(v.func) == "ir.Const" and len(v.args) == 3:
                        t = norm(v.args[2])
                        if _same_type(set(_asserts_before(callee, r)), t, p + ".ty"):
                            continue
                    bad.append("line %d: %s" % (r.lineno, norm(v)))
                ok, how = bool(rets) and not bad, ("every return of %s is its argument (already a constant) or ir.Const(.., .., T) with T is %s.ty" % (callee.name, p)) if not bad else "; ".join(bad)
        # I4: found by a search that only returns a store of the requested type
        elif new.endswith(".value") and isinstance(c.args[0], ast.Attribute) and isinstance(c.args[0].value, ast.Name):
            from .. import sym
            b2 = sym.nearest_def(c, new[:-6])
            if isinstance(b2, ast.Call) and norm(b2.func).startswith("self.") and len(b2.args) >= 2 and norm(b2.args[0]) == old and norm(b2.args[1]) == old + ".ty":
                callee = project.find_method(project.cls(rel, q.split(".")[0]), norm(b2.func)[5:])
                ps = [a.arg for a in callee.args.args if a.arg != "self"]
                typ = ps[1]
                rets = [r for r in walk_no_nested(callee) if isinstance(r, ast.Return) and r.value is not None and not (isinstance(r.value, ast.Constant) and r.value.value is None)]
                bad = [("line %d: return %s" % (r.lineno, norm(r.value))) for r in rets if not _same_type(set(_guards(r, callee)), norm(r.value) + ".value.ty", typ)]
                rebound = [n for n in ast.walk(callee) if isinstance(n, ast.Name) and n.id == typ and isinstance(n.ctx, ast.Store)]
                ok = bool(rets) and not bad and not rebound
                how = ("%s only returns a store guarded by `%s is <store>.value.ty`, called with %s.ty" % (callee.name, typ, old)) if ok else ("; ".join(bad) or "type parameter rebound")
        # I5: looked up under a key that contains the type
        elif isinstance(binding, ast.Subscript):
            mp, key = norm(binding.value), norm(binding.slice)
            keys = [n for n in ast.walk(fn) if isinstance(n, ast.Assign) and norm(n.targets[0]) == key]
            stores = [n for n in ast.walk(fn) if isinstance(n, ast.Assign) and isinstance(n.targets[0], ast.Subscript) and norm(n.targets[0].value) == mp]
            k_ok = bool(keys) and all(isinstance(k.value, ast.Tuple) and any(norm(e) == old + ".ty" for e in k.value.elts) for k in keys)
            s_ok = bool(stores) and all(norm(s.targets[0].slice) == key and norm(s.value) == old for s in stores)
            ok, how = k_ok and s_ok, "every key `%s` contains %s.ty and %s[%s] only ever holds the value the key was built from" % (key, old, mp, key) if (k_ok and s_ok) else "key without the type, or the map is filled otherwise"
        # I6: mem2reg renaming - every value on the stack is a phi of phi_ty, a stored value or the Undefined of phi_ty; promotion requires all load and store types to be one type
        elif rel == "ppci/opt/mem2reg.py" and new == "stack[-1]":
            pr = ctx.fn("ppci/opt/mem2reg.py", "is_alloc_promotable")
            rets = [r for r in walk_no_nested(pr) if isinstance(r, ast.Return) and r.value is not None and not (isinstance(r.value, ast.Constant) and r.value.value is False)]
            env = {norm(n.targets[0]): norm(n.value) for n in ast.walk(pr) if isinstance(n, ast.Assign)}
            t_ok = len(rets) == 1 and norm(rets[0].value) == "all((all_types[0] is ty for ty in all_types))" and env.get("all_types") == "load_types + store_types" \
                and env.get("load_types") == "[load.ty for load in loads]" and env.get("store_types") == "[store.value.ty for store in stores]"
            pm = ctx.fn("ppci/opt/mem2reg.py", "Mem2RegPromotor.promote")
            env2 = {norm(n.targets[0]): norm(n.value) for n in ast.walk(pm) if isinstance(n, ast.Assign)}
            p_ok = env2.get("phi_ty") == "all_types[0]" and env2.get("all_types") == "load_types + store_types" and env2.get("initial_value", "").startswith("ir.Undefined(") and env2.get("initial_value", "").endswith(", phi_ty)")
            pp = ctx.fn("ppci/opt/mem2reg.py", "Mem2RegPromotor.place_phi_nodes")
            phis = [n for n in ast.walk(pp) if isinstance(n, ast.Call) and norm(n.func) == "ir.Phi"]
            ph_ok = len(phis) == 1 and norm(phis[0].args[-1]) == "phi_ty"
            pushes = [norm(n.args[0]) for n in ast.walk(fn) if isinstance(n, ast.Call) and norm(n.func) == "stack.append"] + [norm(n.args[0]) for n in ast.walk(fn._parent) if isinstance(n, ast.Call) and norm(n.func) == "stack.append"]
            st_ok = set(pushes) <= {"instruction", "instruction.value"}
            callers = [n for n in ast.walk(ctx.fn("ppci/opt/mem2reg.py", "Mem2RegPromotor.on_function")) if isinstance(n, ast.Call) and norm(n.func) == "is_alloc_promotable"]
            ok = t_ok and p_ok and ph_ok and st_ok and bool(callers)
            how = "promotion requires every load type and stored value type to be one type (%s); phi type and initial value use it (%s, %s); the stack only receives phis and stored values (%s)" % (t_ok, p_ok, ph_ok, st_ok)
        ctx.ob("C03.R9", site, what, ok, construct="typed-replace:%s<-%s" % (old, new), node=c, detail=how)
    # the replaced load keeps its own type: find_store_backwards's type filter is also what keeps remove_redundant_stores from dropping a store of another width
    fsb = ctx.fn("ppci/opt/load_after_store.py", "LoadAfterStorePass.find_store_backwards")
    rs = ctx.fn("ppci/opt/load_after_store.py", "LoadAfterStorePass.remove_redundant_stores")
    calls = [n for n in ast.walk(rs) if isinstance(n, ast.Call) and norm(n.func) == "self.find_store_backwards"]
    ok = len(calls) == 1 and len(calls[0].args) >= 2 and norm(calls[0].args[1]) == norm(calls[0].args[0]) + ".value.ty"
    ctx.ob("C03.R9", "ppci/opt/load_after_store.py:LoadAfterStorePass.remove_redundant_stores", "an earlier store is only removed when the later store to the same address writes a value of the same type (a narrower store does not overwrite a wider one)", ok, construct="redundant-store-type")


CF = "ppci/opt/constantfolding.py"
# IR operations that have no value for some operand (the Python operator the folder uses raises there, or would build a number of unbounded size)
# (a shift by the width or more is not demanded to stay unfolded: Python gives it a value, only astronomically large left shifts cannot be computed)
UNDEFINED_AT = {"%": lambda b, w: b == 0, "/": lambda b, w: b == 0, "<<": lambda b, w: b < 0 or b >= 2 ** 40, ">>": lambda b, w: b < 0}


def _fold_defined(ctx):
    """C03.R10.  ConstantFolder.eval_const applies a Python operator to the two constant operands.  is_const is the only
    gate in front of it, so is_const has to answer False for a remainder by zero, a negative shift count and a huge left shift: such an IR module is well formed (C `5 % z` with z == 0 reaches it after mem2reg) and the pass would die
    with ZeroDivisionError / ValueError, or build a number of a billion bits.  The Binop branch of is_const is evaluated by
    sa/minieval for every folded operation, every width and right operands -3..70, with the operand constants bound
    symbolically."""
    from .. import minieval
    ctx.rule("C03.R10", "constant folding never evaluates an operation that has no value: is_const answers False for a remainder (division) by zero and for a shift by a negative count or a left shift by an astronomically large one (evaluated over every folded operation, widths 8..64, right operands -3..70, 2**40, 2**62)", floor=8)
    cls = ctx.cls(CF, "ConstantFolder")
    ini = ctx.fn(CF, "ConstantFolder.__init__")
    ops = [n for n in ast.walk(ini) if isinstance(n, ast.Assign) and norm(n.targets[0]) == "self.ops" and isinstance(n.value, ast.Dict)]
    ctx.need(len(ops) == 1, "ConstantFolder.ops table not found")
    keys = [k.value for k in ops[0].value.keys if isinstance(k, ast.Constant)]
    ic = ctx.fn(CF, "ConstantFolder.is_const")
    par = [a.arg for a in ic.args.args if a.arg != "self"][0]
    br = [n for n in ast.walk(ic) if isinstance(n, ast.If) and norm(n.test) == "isinstance(%s, ir.Binop)" % par]
    ctx.need(len(br) == 1, "is_const: the ir.Binop branch was not found")
    body = ast.FunctionDef(name="binop_branch", args=ic.args, body=br[0].body, decorator_list=[], lineno=br[0].lineno, col_offset=0)
    methods = {f.name: f for f in cls.body if isinstance(f, ast.FunctionDef) and f.name not in ("is_const", "eval_const", "on_block", "__init__")}
    site = CF + ":ConstantFolder.is_const"
    # users of eval_const other than through is_const
    ob = ctx.fn(CF, "ConstantFolder.on_block")
    for c in [n for n in ast.walk(ob) if isinstance(n, ast.Call) and norm(n.func) == "self.eval_const"]:
        arg = norm(c.args[0])
        g = [t for t in _guards(c, ob)]
        ctx.ob("C03.R10", CF + ":ConstantFolder.on_block", "eval_const(%s) is only reached after is_const(%s)" % (arg, arg), "self.is_const(%s)" % arg in g, construct="gated:" + arg, node=c)
    for op in keys:
        und = UNDEFINED_AT.get(op)
        for w in (8, 16, 32, 64):
            bad = []
            n_und = 0
            for b in list(range(-3, 71)) + [2 ** 40, 2 ** 62]:
                paths = {"value.operation": op, "value.ty.bits": w, "value.ty.is_integer": True, "value.ty.signed": True, "self.ops": dict.fromkeys(keys, 1),
                         "self.is_const(value.a)": True, "self.is_const(value.b)": True, "self.eval_const(value.b).value": b, "self.eval_const(value.a).value": 5,
                         "value.b.value": b, "value.a.value": 5}
                glob = {"self": minieval.Sym("self")}
                env = {"__paths__": paths, "__methods__": methods, "__globals__": glob, "self": glob["self"]}
                try:
                    got = bool(minieval.call(body, [minieval.Sym("value")], env))
                except minieval.Undecidable as e:
                    ctx.undecided("C03.R10", site, "is_const on `%s` (bits %d, right operand %d): %s" % (op, w, b, e))
                    bad = None
                    break
                if und is not None and und(b, w):
                    n_und += 1
                    if got:
                        bad.append(b)
            if bad is None:
                break
            if und is None:
                continue
            ctx.ob("C03.R10", site, "`a %s b` at %d bits is not folded for any b where it has no value" % (op, w), not bad, construct="undefined-not-folded:%s:%d" % (op, w), node=br[0],
                   detail=("%d undefined right operands refused" % n_und) if not bad else "is_const answers True for b = %s" % bad[:6])
