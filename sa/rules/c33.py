"""C33 - integer range sets: canonical form ownership, merge condition,
inclusive-range arithmetic, and the sweep discipline of the two-pointer
algorithms (a range is dropped only when it provably ends first)."""
import ast

from ..core import norm, walk_no_nested, calls_in, call_name, last_name, assigned_values, compare_ops, attrs_in
from .. import sym, flow

F = "ppci/utils/integer_set.py"


def _facts(conds, env):
    """ordering facts (small, large, strict) implied by controlling conditions"""
    facts = []
    for test, pol, _ in conds:
        for l, op, r in compare_ops(test):
            L, Rr = norm(sym.inline(l, env)), norm(sym.inline(r, env))
            if op in ("Gt", "GtE", "Lt", "LtE"):
                if op in ("Gt", "GtE"):
                    small, large, strict = Rr, L, op == "Gt"
                else:
                    small, large, strict = L, Rr, op == "Lt"
                if pol is True:
                    facts.append((small, large, strict))
                elif pol is False:
                    facts.append((large, small, not strict))
    return facts


def run(ctx):
    ctx.rule("C33.R1", "canonical form: ranges assigned only by the normalising constructor; every operation returns IntegerSet(...); eq/hash use the canonical field", floor=8)
    ctx.rule("C33.R2", "merge_overlapping_intervals: sorted input, hole iff next.start > cur.end + 1, merged end = max of ends", floor=4)
    ctx.rule("C33.R3", "inclusive range arithmetic: cardinality, iteration, membership", floor=4)
    ctx.rule("C33.R4", "two-pointer sweeps advance a side only when its current range provably ends no later than the other's", floor=5)
    cls = ctx.cls(F, "IntegerSet")
    # ---- R1 ------------------------------------------------------------------
    writers = []
    for m in ast.walk(ctx.project.module(F).tree):
        if isinstance(m, (ast.Assign, ast.AugAssign)):
            tg = m.targets if isinstance(m, ast.Assign) else [m.target]
            for t in tg:
                if isinstance(t, ast.Attribute) and t.attr == "ranges":
                    writers.append(m)
    init = ctx.fn(F, "IntegerSet.__init__")
    ok = len(writers) == 1 and any(w is n for w in writers for n in walk_no_nested(init))
    ctx.ob("C33.R1", F + ":IntegerSet", "`ranges` is assigned in __init__ only", ok, construct="single-writer")
    vals = [norm(v) for v in assigned_values(init, "ranges")]
    ctx.ob("C33.R1", F + ":IntegerSet.__init__", "input ranges are sorted (empty ones filtered out) before merging", any(v.startswith("sorted(") for v in vals) and any("r[0] <= r[1]" in v for v in vals), construct="sorted", detail=str(vals))
    ctx.ob("C33.R1", F + ":IntegerSet.__init__", "sorted ranges are merged by merge_overlapping_intervals", any("merge_overlapping_intervals(ranges)" in v for v in vals) and
           vals.index([v for v in vals if v.startswith("sorted(")][0]) < vals.index([v for v in vals if "merge_overlapping_intervals" in v][0]) if any(v.startswith("sorted(") for v in vals) and any("merge_overlapping_intervals" in v for v in vals) else False, construct="merged")
    for op in ("union", "intersection", "difference"):
        fn = ctx.fn(F, "IntegerSet." + op)
        rets = [r.value for r in walk_no_nested(fn) if isinstance(r, ast.Return)]
        ok = bool(rets) and all(isinstance(r, ast.Call) and call_name(r) == "IntegerSet" and r.args and isinstance(r.args[0], ast.Starred) for r in rets)
        ctx.ob("C33.R1", "%s:IntegerSet.%s" % (F, op), "result is built through the normalising constructor IntegerSet(*ranges)", ok, construct="ctor-return")
    eq, hs = ctx.fn(F, "IntegerSet.__eq__"), ctx.fn(F, "IntegerSet.__hash__")
    ctx.ob("C33.R1", F + ":IntegerSet.__eq__", "equality compares the canonical ranges", any((norm(l), op, norm(r)) == ("self.ranges", "Eq", "other.ranges") for l, op, r in compare_ops(eq)), construct="eq")
    ctx.ob("C33.R1", F + ":IntegerSet.__hash__", "hash is computed from the canonical ranges", "hash(self.ranges)" in norm(hs), construct="hash")
    un = ctx.fn(F, "IntegerSet.union")
    ctx.ob("C33.R1", F + ":IntegerSet.union", "union takes the ranges of both operands", any(norm(v) in ("self.ranges + other.ranges", "other.ranges + self.ranges") for v in assigned_values(un, "ranges")), construct="union-both")
    sd = ctx.fn(F, "IntegerSet.symmetric_difference")
    r = [x.value for x in walk_no_nested(sd) if isinstance(x, ast.Return)]
    ctx.ob("C33.R1", F + ":IntegerSet.symmetric_difference", "symmetric difference = (self - other) | (other - self)", bool(r) and norm(r[0]) in ("self - other | other - self", "other - self | self - other"), construct="symdiff", detail=norm(r[0]) if r else "")
    for dunder, meth in (("__or__", "union"), ("__and__", "intersection"), ("__sub__", "difference"), ("__xor__", "symmetric_difference"), ("__contains__", "contains"), ("__len__", "cardinality")):
        fn = ctx.fn(F, "IntegerSet." + dunder)
        r = [x.value for x in walk_no_nested(fn) if isinstance(x, ast.Return)]
        ctx.ob("C33.R1", "%s:IntegerSet.%s" % (F, dunder), "%s delegates to %s" % (dunder, meth), bool(r) and isinstance(r[0], ast.Call) and norm(r[0].func) == "self." + meth, construct="delegate")

    # ---- R2 ------------------------------------------------------------------
    mg = ctx.fn(F, "merge_overlapping_intervals")
    site = F + ":merge_overlapping_intervals"
    hole = [n for n in walk_no_nested(mg) if isinstance(n, ast.If) and any(norm(l) == "s[0]" for l, op, r in compare_ops(n.test))]
    ok = False
    if hole:
        l, op, r = [x for x in compare_ops(hole[0].test) if norm(x[0]) == "s[0]"][0]
        a = sym.affine(r, {})
        ok = (op == "Gt" and a == sym.atom("r[1]") + sym.const(1)) or (op == "GtE" and a == sym.atom("r[1]") + sym.const(2))
        ys = [n for n in hole[0].body if isinstance(n, ast.Expr) and isinstance(n.value, ast.Yield)]
        ctx.ob("C33.R2", site, "a hole ends the current range: it is yielded and the next range becomes current", bool(ys) and norm(ys[0].value.value) == "r" and any(norm(n) == "r = s" for n in hole[0].body), construct="hole-yield")
        mr = [n for n in hole[0].orelse if isinstance(n, ast.Assign) and norm(n.targets[0]) == "r"]
        ctx.ob("C33.R2", site, "overlapping or adjacent ranges merge to (cur.start, max(cur.end, next.end))", bool(mr) and norm(mr[0].value) in ("(r[0], max(r[1], s[1]))", "(r[0], max(s[1], r[1]))"), construct="merge-max", detail=norm(mr[0].value) if mr else "")
    ctx.ob("C33.R2", site, "ranges are separate only if next.start > cur.end + 1 (adjacent ranges merge)", ok, construct="hole-test", detail=norm(hole[0].test) if hole else "")
    lasty = [n for n in mg.body[0].body if isinstance(n, ast.Expr) and isinstance(n.value, ast.Yield)] if isinstance(mg.body[0], ast.If) else []
    ctx.ob("C33.R2", site, "the last current range is yielded after the loop", bool(lasty) and norm(lasty[-1].value.value) == "r", construct="last-yield")
    lp = [n for n in walk_no_nested(mg) if isinstance(n, ast.For)]
    ctx.ob("C33.R2", site, "the scan starts with ranges[0] and visits ranges[1:]", bool(lp) and norm(lp[0].iter) == "ranges[1:]" and any(norm(v) == "ranges[0]" for v in assigned_values(mg, "r")), construct="scan")

    # ---- R3 ------------------------------------------------------------------
    card = ctx.fn(F, "IntegerSet.cardinality")
    inc = [n for n in walk_no_nested(card) if isinstance(n, ast.AugAssign) and isinstance(n.op, ast.Add)]
    ok = bool(inc) and sym.affine(inc[0].value, {}) == sym.atom("r[1]") - sym.atom("r[0]") + sym.const(1)
    ctx.ob("C33.R3", F + ":IntegerSet.cardinality", "an inclusive range a..b contributes b - a + 1", ok, construct="card")
    it = ctx.fn(F, "IntegerSet.__iter__")
    rg = [c for c in calls_in(it, "range")]
    ok = bool(rg) and norm(rg[0].args[0]) == "r[0]" and sym.affine(rg[0].args[1], {}) == sym.atom("r[1]") + sym.const(1)
    ctx.ob("C33.R3", F + ":IntegerSet.__iter__", "iteration covers a..b inclusive: range(a, b + 1)", ok, construct="iter")
    co = ctx.fn(F, "IntegerSet.contains")
    txt = norm(co)
    ok = "bisect.bisect(self.ranges, (value,))" in txt and "self.ranges[index - 1][0] <= value <= self.ranges[index - 1][1]" in txt and "index > 0" in txt and \
        "index < len(self.ranges)" in txt and "value == self.ranges[index][0]" in txt
    if ok:
        ctx.ob("C33.R3", F + ":IntegerSet.contains", "membership: bisect on (value,), then either the range starting at value or the preceding range containing it", True, construct="contains")
    else:
        ctx.undecided("C33.R3", F + ":IntegerSet.contains", "membership test not in the recognised bisect form")
    ctx.ob("C33.R3", F + ":IntegerSet.__init__", "an int v becomes the range (v, v)", "ranges.append((value, value))" in norm(init), construct="singleton")

    # ---- R4 sweeps -----------------------------------------------------------
    for meth in ("intersection", "difference"):
        fn = ctx.fn(F, "IntegerSet." + meth)
        site = "%s:IntegerSet.%s" % (F, meth)
        env = sym.single_assign_env(fn)
        its = {}
        for n in walk_no_nested(fn):
            if isinstance(n, ast.Assign) and isinstance(n.targets[0], ast.Tuple) and isinstance(n.value, ast.Tuple):
                for t, v in zip(n.targets[0].elts, n.value.elts):
                    if isinstance(v, ast.Call) and call_name(v) == "next":
                        its[norm(t)] = norm(v.args[0])
        cur = {v: k for k, v in its.items()}    # iterator -> current var
        if set(cur.values()) != {"r", "s"}:
            ctx.undecided("C33.R4", site, "sweep variables not recognised")
            continue
        for n in walk_no_nested(fn):
            if isinstance(n, ast.Assign) and isinstance(n.value, ast.Call) and call_name(n.value) == "next" and isinstance(n.targets[0], ast.Name):
                x = n.targets[0].id
                if norm(n.value.args[0]) not in cur or cur[norm(n.value.args[0])] != x:
                    ctx.ob("C33.R4", site, "each cursor is advanced from its own iterator", False, construct="own-iterator:" + x, node=n, detail=norm(n))
                    continue
                y = "s" if x == "r" else "r"
                conds = flow.controlling(n, fn)
                # other side exhausted?
                exhausted = any((norm(t) == y and pol is False) or (norm(t) == "not " + y and pol is True) for t, pol, _ in conds)
                facts = _facts(conds, env)
                good = exhausted
                for small, large, strict in facts:
                    if small == "%s[1]" % x and large in ("%s[0]" % y, "%s[1]" % y, "min(r[1], s[1])", "min(s[1], r[1])", "y"):
                        good = True
                ctx.ob("C33.R4", site, "`%s = next(...)` happens only where %s provably ends no later than %s (or %s is exhausted): a range that may still meet later ranges of the other set is never dropped" % (x, x, y, y),
                       good, construct="advance:%s:%s" % (x, ";".join(sorted("%s<%s%s" % (a, "" if st else "=", b) for a, b, st in facts))), node=n,
                       detail="path facts: %s" % ["%s %s %s" % (a, "<" if st else "<=", b) for a, b, st in facts])
        if meth == "difference":
            # the piece kept before a hole, and the remainder after it
            txt = norm(fn)
            ctx.ob("C33.R4", site, "the part of r before the hole is (r[0], s[0] - 1), kept only if r starts before s", "if r[0] < s[0]:\n    ranges.append((r[0], s[0] - 1))" in txt.replace("                        ", "    ").replace("                    ", "") or
                   any(isinstance(i, ast.If) and norm(i.test) == "r[0] < s[0]" and norm(i.body[0]) == "ranges.append((r[0], s[0] - 1))" for i in walk_no_nested(fn) if isinstance(i, ast.If)), construct="left-piece")
            rem = [n for n in walk_no_nested(fn) if isinstance(n, ast.Assign) and norm(n.targets[0]) == "r" and isinstance(n.value, ast.Tuple)]
            ctx.ob("C33.R4", site, "the remainder of r after the hole is (s[1] + 1, r[1])", bool(rem) and norm(rem[0].value) == "(s[1] + 1, r[1])", construct="remainder")
        else:
            vs = {k: norm(v) for k, v in env.items()}
            ok = vs.get("x") in ("max(r[0], s[0])", "max(s[0], r[0])") and vs.get("y") in ("min(r[1], s[1])", "min(s[1], r[1])")
            app = [n for n in walk_no_nested(fn) if isinstance(n, ast.If) and norm(n.test) == "x <= y"]
            ctx.ob("C33.R4", site, "the common part is (max of starts, min of ends), kept iff non-empty", ok and bool(app) and "ranges.append((x, y))" in norm(app[0]), construct="common-part")
