"""C04 - x86-64 native code (partial): the peephole filter deletes only what
it proved redundant, pattern functions respect operand flags and return
written registers, the x86_64 tree grammar is complete for its value types.
(ABI rules: C40; ELF: C17; allocator: C06.)"""
import ast
import re

from ..core import norm, walk_no_nested, calls_in, call_name, last_name, assigned_values, compare_ops
from ..cfg import CFG, node_calls
from .. import flow
from . import c07, c29

P = "ppci/codegen/peephole.py"
# classes allowed to describe their complete effect for the peephole comparison: name -> reason
EFFECT_CLASSES = {
    "ppci/arch/generic_instructions.py:Label": "pc := label name (falling into the label)",
    "ppci/arch/x86_64/instructions.py:NearJump": "pc := target (unconditional jump, no other architectural effect)",
}


def run(ctx):
    ctx.rule("C04.R1", "x86_64 pattern functions: no input register clobbered, no garbage read, no dead initialising move, returned register written", floor=100)
    ctx.rule("C04.R2", "x86_64 tree grammar: arithmetic on the types C arithmetic is performed in (32/64-bit integers, floats) and load/store/move/const/compare on every type have an unconditional general rule", floor=80)
    ctx.rule("C04.R3", "peephole: an instruction is dropped only when its declared effect equals that of its successor, never a label; everything else flows downstream", floor=5)
    ctx.rule("C04.R4", "effect() describes the complete architectural effect: only on the reviewed classes", floor=2)
    dump = ctx.isa()
    ctx.need(not dump["errors"], "ISA dump reported errors: %s" % dump["errors"][:2])
    c07.check_arch(ctx, dump, "x86_64", "C04", returns=True)
    c29.grammar_cells(ctx, dump, "x86_64", "C04.R2", narrow_arith=False)
    ctx.rule("C04.R8", "the destination of a read-modify-write instruction (shift, add, neg, ...) in a pattern is never one of the pattern's input registers", floor=30)
    c07.x86_destination_not_an_input(ctx, dump, "C04.R8")
    c07.x86_rm_written(ctx, dump, "C04.R9")
    ctx.rule("C04.R5", "shift by cl: the count register is loaded immediately before the shift instruction that reads it implicitly", floor=20)
    c07.implicit_operand_windows(ctx, dump, "x86_64", "C04.R5")
    from .c05 import phi_lowering
    phi_lowering(ctx, "C04.R6")
    from .c29 import cast_lowering
    cast_lowering(ctx, "C04.R11")
    # ---- R3 ----
    de = ctx.fn(P, "PeepHoleStream.do_emit")
    site = P + ":PeepHoleStream.do_emit"
    pops = [c for c in calls_in(de, "pop") if norm(c.func.value) == "self._window"]
    ctx.need(len(pops) == 1, "do_emit: expected exactly one deletion from the window")
    conds = flow.controlling(pops[0], de)
    ctxt = [(norm(t), pol) for t, pol, _ in conds]
    ea, eb = assigned_values(de, "effect_a"), assigned_values(de, "effect_b")
    ok = ("effect_a == effect_b", True) in ctxt and bool(ea) and bool(eb) and norm(ea[0]) == "a.effect()" and norm(eb[0]) == "b.effect()"
    ctx.ob("C04.R3", site, "the first instruction of the window is dropped only if a.effect() == b.effect()", ok, construct="equal-effect", detail=str(ctxt))
    ctx.ob("C04.R3", site, "a label is never dropped", ("not isinstance(a, Label)", True) in ctxt, construct="never-label")
    ctx.ob("C04.R3", site, "both instructions must declare an effect", ("hasattr(a, 'effect') and hasattr(b, 'effect')", True) in ctxt, construct="both-have-effect")
    ctx.ob("C04.R3", site, "the dropped instruction is the first of the two (the successor stays)", norm(pops[0]) == "self._window.pop(0)" and any(norm(v) == "self._window" for v in assigned_values(de, "a") + [n.value for n in walk_no_nested(de) if isinstance(n, ast.Assign) and isinstance(n.targets[0], ast.Tuple)]), construct="drop-first")
    cw = ctx.fn(P, "PeepHoleStream.clip_window")
    ok = "item = self._window.pop(0)" in norm(cw) and "self._downstream.emit(item)" in norm(cw) and "while len(self._window) > size" in norm(cw)
    ctx.ob("C04.R3", P + ":PeepHoleStream.clip_window", "every item leaving the window by clipping is emitted downstream, oldest first", ok, construct="clip-emits")
    fl = ctx.fn(P, "PeepHoleStream.flush")
    ctx.ob("C04.R3", P + ":PeepHoleStream.flush", "flush empties the window into the downstream", "self.clip_window(0)" in norm(fl), construct="flush")
    ok = norm(de).index("self._window.append(item)") < norm(de).index("self.clip_window(2)")
    ctx.ob("C04.R3", site, "a new item is appended before the window is clipped to two", ok, construct="append-clip")
    # ---- R4 ----
    project = ctx.project
    for m in project.modules.values():
        for c in ast.walk(m.tree):
            if isinstance(c, ast.ClassDef):
                for f in c.body:
                    if isinstance(f, ast.FunctionDef) and f.name == "effect":
                        key = "%s:%s" % (m.rel, c.name)
                        if key in EFFECT_CLASSES:
                            r = [n.value for n in walk_no_nested(f) if isinstance(n, ast.Return)]
                            want = {"Label": "[effects.Set(effects.PC, self.name)]", "NearJump": "[effects.Assign(effects.PC, self.target)]"}[c.name]
                            ctx.ob("C04.R4", key, "%s.effect() is exactly %s (%s)" % (c.name, want, EFFECT_CLASSES[key]), bool(r) and norm(r[0]) == want, construct="effect:" + c.name)
                        else:
                            ctx.undecided("C04.R4", key, "new effect() definition: its completeness has not been reviewed")
    em = project.module("ppci/arch/effects.py")
    ok = "return ('set', lhs, rhs)" in norm(ctx.fn("ppci/arch/effects.py", "Assign")) and "return Assign(lhs, rhs)" in norm(ctx.fn("ppci/arch/effects.py", "Set"))
    ctx.ob("C04.R4", "ppci/arch/effects.py", "effects compare structurally: Set and Assign build the same ('set', lhs, rhs) tuple", ok, construct="effects")
    _float_to_int(ctx)
    _constant_classes(ctx)


def _float_to_int(ctx):
    """R7: C (and IR) float -> integer conversion truncates toward zero: cvttss2si / cvttsd2si, not the rounding cvtss2si / cvtsd2si"""
    import re
    X = "ppci/arch/x86_64/sse2_instructions.py"
    ctx.rule("C04.R7", "x86-64 float->integer conversion patterns emit the truncating SSE conversions (cvtt*2si); the non-truncating forms round to nearest under the default MXCSR", floor=4)
    mod = ctx.project.module(X)
    mnemonic = {}
    for c in mod.tree.body:
        if isinstance(c, ast.ClassDef):
            for st in c.body:
                if isinstance(st, ast.Assign) and norm(st.targets[0]) == "syntax" and isinstance(st.value, ast.Call) and st.value.args and isinstance(st.value.args[0], ast.List) and st.value.args[0].elts:
                    first = st.value.args[0].elts[0]
                    if isinstance(first, ast.Constant):
                        mnemonic[c.name] = first.value
    n = 0
    for fn in mod.tree.body:
        if not isinstance(fn, ast.FunctionDef):
            continue
        trees = [norm(d.args[1]) for d in fn.decorator_list if isinstance(d, ast.Call) and len(d.args) >= 2]
        conv = [t for t in trees if re.match(r"'F(32|64)TO[IU](8|16|32|64)[(]", t)]
        if not conv:
            continue
        for c in ast.walk(fn):
            if isinstance(c, ast.Call) and last_name(c) == "emit" and c.args and isinstance(c.args[0], ast.Call):
                cls = norm(c.args[0].func).split(".")[-1]
                mn = mnemonic.get(cls)
                if mn is None or not mn.startswith("cvt"):
                    continue
                n += 1
                ctx.ob("C04.R7", "%s:%s" % (X, fn.name), "%s is selected with a truncating conversion (emits `%s`)" % (", ".join(t.split("(")[0].strip("'") for t in conv), mn), mn.startswith("cvtt"),
                       construct="truncating:%s" % fn.name, node=c, detail="%s -> %s" % (cls, mn))
    ctx.need(n >= 4, "x86_64 float->int conversion patterns not found (%d)" % n)


XI = "ppci/arch/x86_64/instructions.py"
# nonterminal -> (signed interval the hardware gives the immediate, instruction forms that may take it).  Intel SDM vol. 2: ADD/AND/SUB/OR/XOR/CMP r/m64, imm32
# "imm32 sign-extended to 64-bits"; a disp32 of a ModRM memory operand is sign-extended as well.
SIGN_EXTENDED_IMM = {"con32": ((-2 ** 31, 2 ** 31 - 1), {"AddImm", "AndImm", "SubImm", "OrImm", "XorImm", "CmpImm", "RmMemDisp"})}


def _constant_classes(ctx):
    """R10.  x86-64 has no 64-bit immediates for arithmetic: `add r64, imm32` and disp32 SIGN-extend 32 bits.  The tree grammar routes
    small 64-bit constants through the nonterminal `con32`; the admission condition of every pattern that produces it is evaluated
    (sa/minieval) on the boundary values: 2^31 .. 2^32-1 must be refused - Token accepts them for a 32-bit field (the two's complement
    reading), and the machine then adds 0xFFFFFFFF80000000 instead of 0x80000000."""
    from .. import minieval
    ctx.rule("C04.R10", "x86-64: a constant admitted into the nonterminal `con32` fits a SIGN-extended 32-bit immediate (-2^31 .. 2^31-1) whatever the IR type of the constant, and `con32` is only consumed by instruction forms that sign-extend an imm32 / disp32", floor=6)
    mod = ctx.project.module(XI)
    producers, consumers = [], []
    for fn in [f for f in mod.tree.body if isinstance(f, ast.FunctionDef)]:
        for d in fn.decorator_list:
            if isinstance(d, ast.Call) and norm(d.func).endswith(".pattern") and len(d.args) >= 2 and isinstance(d.args[0], ast.Constant) and isinstance(d.args[1], ast.Constant):
                nt, tree = d.args[0].value, d.args[1].value
                if nt in SIGN_EXTENDED_IMM:
                    producers.append((fn, d, nt, tree))
                for k in SIGN_EXTENDED_IMM:
                    if re.search(r"\b%s\b" % k, tree):
                        consumers.append((fn, d, k, tree))
    ctx.need(len(producers) >= 2 and len(consumers) >= 5, "x86_64 patterns around con32: %d producers, %d consumers found (2 / 7 confirmed by reading)" % (len(producers), len(consumers)))
    for fn, d, nt, tree in producers:
        (lo, hi), _ = SIGN_EXTENDED_IMM[nt]
        site = "%s:%s" % (XI, fn.name)
        cond = [k.value for k in d.keywords if k.arg == "condition"]
        if not cond or not isinstance(cond[0], ast.Lambda):
            ctx.ob("C04.R10", site, "%s from %s has an admission condition" % (nt, tree), False, construct="condition:%s:%s" % (nt, tree), node=d)
            continue
        par = cond[0].args.args[0].arg
        wrong = []
        try:
            for v in (lo - 2 ** 32, lo - 1, lo, -1, 0, 1, hi, hi + 1, 2 ** 32 - 1, 2 ** 32, 2 ** 63):
                got = bool(minieval.ev(cond[0].body, {par + ".value": v, "__paths__": {}, par: minieval.Sym(par)}))
                if got and not (lo <= v <= hi):
                    wrong.append(v)
        except minieval.Undecidable as e:
            ctx.undecided("C04.R10", site, "condition of %s <- %s: %s" % (nt, tree, e))
            continue
        ctx.ob("C04.R10", site, "%s admits a %s only inside [%d, %d]" % (nt, tree, lo, hi), not wrong, construct="admits:%s:%s" % (nt, tree), node=d, detail="also admitted: %s" % [hex(v) for v in wrong] if wrong else norm(cond[0].body))
        ret = [r for r in walk_no_nested(fn) if isinstance(r, ast.Return)]
        ctx.ob("C04.R10", site, "the nonterminal's value is the constant itself", len(ret) == 1 and norm(ret[0].value) in ("tree.value",), construct="value:%s:%s" % (nt, tree))
    for fn, d, nt, tree in consumers:
        _, forms = SIGN_EXTENDED_IMM[nt]
        site = "%s:%s" % (XI, fn.name)
        made = {norm(c.func).split(".")[-1] for c in walk_no_nested(fn) if isinstance(c, ast.Call) and norm(c.func).split(".")[-1][:1].isupper() and norm(c.func).split(".")[-1] not in ("Register64",)}
        imm_users = {m for m in made if m not in ("RmReg64", "MovRegRm", "RmMem")}
        ctx.ob("C04.R10", site, "%s in `%s` only reaches sign-extending imm32 / disp32 forms" % (nt, tree), imm_users <= forms and bool(imm_users), construct="consumer:%s:%s" % (fn.name, tree), node=d, detail="constructs %s" % sorted(made))
