"""C07 - operand read/write annotations: contradictions between the declared
flags and the way instruction-selection patterns use the operands; sibling
flag vectors; (call skeleton shared with C05)."""
import ast

from ..core import norm, walk_no_nested
from .. import isa as isamod

ARCHS_QUICK = ["arm", "arm:thumb", "riscv", "riscv:rvc", "x86_64", "m68k", "mips"]
ARCHS_ALL = ["arm", "arm:thumb", "avr", "m68k", "microblaze", "mips", "msp430", "or1k", "riscv", "riscv:rvc", "x86_64", "xtensa"]


def check_arch(ctx, dump, arch, rid_prefix="C07", returns=False):
    project = ctx.project
    model = isamod.IsaModel(dump, arch)
    seen = set()
    n_fn = 0
    for pat in dump["archs"][arch]["patterns"]:
        key = (pat["file"], pat["method"], pat["line"])
        if key in seen:
            continue
        seen.add(key)
        fn = isamod.find_pattern_function(project, pat)
        if fn is None:
            ctx.undecided(rid_prefix + ".R1", "ppci/%s:%s" % (pat["file"], pat["method"]), "pattern function not found in the source")
            continue
        if any(isinstance(st, ast.Raise) for st in fn.body):
            continue  # unconditionally raising stub
        n_fn += 1
        site = "%s:%s" % (fn._module.rel, fn.name)
        ctx.saw("functions", site)
        events, rets, children, fresh, unresolved = isamod.analyse_pattern(model, fn)
        written = set()      # locals that hold a defined value
        moved = {}           # var -> move statement not yet consumed
        for ev in events:
            if ev[0] == "new":
                pass
            elif ev[0] == "opaque":
                # an emitted instruction / helper the model cannot resolve: it may have written any local
                written |= set(fresh)
                moved.clear()
            elif ev[0] == "move":
                dst = ev[1]
                written.add(dst)
                moved[dst] = ev[3]
            elif ev[0] == "emit":
                uses = ev[1]
                for u in uses:
                    if u.origin == "child" and u.write and (u.cls in CONSERVATIVE_WRITE or fn.name in NORMALISING_IN_PLACE.get(arch.split(":")[0], ())):
                        ctx.ob(rid_prefix + ".R1", site, "input register %s in %s.%s: accepted exception (%s)" % (u.var, u.cls, u.opname, CONSERVATIVE_WRITE.get(u.cls) or "in-place re-normalisation of a narrow value: upper bits are don't-care"), True,
                               construct="child-written-excepted:%s:%s.%s" % (u.var, u.cls, u.opname), node=u.call)
                    elif u.origin == "child" and u.write:
                        ctx.ob(rid_prefix + ".R1", site, "an input register of the pattern (%s) is never passed in a written operand position (%s.%s is declared write=True): the value may still be live elsewhere"
                               % (u.var, u.cls, u.opname), False, construct="child-written:%s:%s.%s" % (u.var, u.cls, u.opname), node=u.call, detail=norm(u.call))
                    elif u.origin == "child":
                        ctx.ob(rid_prefix + ".R1", site, "input register %s is only read by %s.%s" % (u.var, u.cls, u.opname), True, construct="child-read:%s:%s.%s" % (u.var, u.cls, u.opname), node=u.call)
                    selfzero = u.origin == "fresh" and u.cls.lower().startswith(("xor", "eor", "sub")) and all(x.var == u.var for x in uses if x.read)
                    if u.origin == "fresh" and u.read and u.var not in written and not selfzero and u.cls not in CONSERVATIVE_READ:
                        ctx.ob(rid_prefix + ".R1", site, "a freshly allocated register (%s) is not read (%s.%s is declared read=True) before anything was written to it"
                               % (u.var, u.cls, u.opname), False, construct="fresh-read:%s:%s.%s" % (u.var, u.cls, u.opname), node=u.call, detail=norm(u.call))
                    if u.origin == "fresh" and u.var in moved and u.write and not u.read:
                        ctx.ob(rid_prefix + ".R1", site, "register %s was just initialised by context.move() and is then only overwritten (%s.%s is declared write-only): either the move is dead or the operand is also read and must be declared read=True"
                               % (u.var, u.cls, u.opname), False, construct="dead-move:%s:%s.%s" % (u.var, u.cls, u.opname), node=u.call, detail=norm(u.call))
                    elif u.origin == "fresh" and u.var in moved and u.read:
                        ctx.ob(rid_prefix + ".R1", site, "two-address use: %s is initialised by a move and read by %s.%s" % (u.var, u.cls, u.opname), True, construct="two-address:%s:%s.%s" % (u.var, u.cls, u.opname), node=u.call)
                for u in uses:
                    if u.var in moved and (u.read or u.write):
                        moved.pop(u.var, None)
                    if u.write:
                        written.add(u.var)
        for r in (rets if returns else []):
            if isinstance(r, ast.Name) and r.id in fresh:
                ctx.ob(rid_prefix + ".R1", site, "the register returned by the pattern (%s) was written by an emitted instruction or a move" % r.id, r.id in written, construct="return-written:" + r.id, node=r)
    return n_fn


def _fixed_in(tree, regs):
    out = []
    for c in ast.walk(tree):
        if isinstance(c, ast.ClassDef):
            for f in c.body:
                if isinstance(f, ast.FunctionDef) and f.name in ("encode", "set_user_patterns"):
                    for n in ast.walk(f):
                        if isinstance(n, ast.Name) and isinstance(n.ctx, ast.Load) and n.id in regs:
                            out.append((c.name, f.name, n))
    return out


def fixed_registers_in_encoders(project):
    n_enc, hits = 0, []
    for rel, m in sorted(project.modules.items()):
        if not rel.startswith("ppci/arch/"):
            continue
        regs = {k for k, v in m.imports.items() if v[0] == "name" and v[1].endswith("registers") and k[0].islower()}
        for c in ast.walk(m.tree):
            if isinstance(c, ast.ClassDef):
                n_enc += sum(1 for f in c.body if isinstance(f, ast.FunctionDef) and f.name in ("encode", "set_user_patterns"))
        for cname, fname, node in _fixed_in(m.tree, regs):
            hits.append((rel, cname, fname, node))
    return n_enc, hits


# instruction syntax literals that name a register the instruction reads implicitly: arch -> literal -> the fixed registers (all widths) that alias it
IMPLICIT_REG = {"x86_64": {"cl": ("rcx", "ecx", "cx", "cl")}}


def implicit_operand_windows(ctx, dump, arch, rid):
    """An instruction that reads a fixed register without declaring it (shift by cl) is invisible to
    liveness: after `context.move(rcx, count)` the allocator believes rcx is dead.  The only protection is
    that nothing which DEFINES a virtual register sits between the load of the fixed register and the
    consuming instruction (a register defined there may be assigned rcx).  Checked per pattern function."""
    from ..core import walk_no_nested, last_name
    project = ctx.project
    lits = IMPLICIT_REG.get(arch, {})
    a = dump["archs"][arch]
    implicit = {}
    for ins in a["instructions"]:
        for e in ins["syntax"]:
            if isinstance(e, str) and e.strip() in lits:
                implicit[ins["name"]] = e.strip()
    ctx.need(implicit, "%s: no instruction with an implicit register literal found" % arch)
    n = 0
    seen = set()
    for pat in a["patterns"]:
        key = (pat["file"], pat["method"], pat["line"])
        if key in seen:
            continue
        seen.add(key)
        fn = isamod.find_pattern_function(project, pat)
        if fn is None:
            continue
        site = "%s:%s" % (fn._module.rel, fn.name)
        stmts = [x for x in walk_no_nested(fn) if isinstance(x, ast.stmt) and x is not fn]
        stmts.sort(key=lambda x: (x.lineno, x.col_offset))
        for i, st in enumerate(stmts):
            if not (isinstance(st, ast.Expr) and isinstance(st.value, ast.Call) and last_name(st.value) == "emit" and st.value.args and isinstance(st.value.args[0], ast.Call)):
                continue
            cname = (norm(st.value.args[0].func)).split(".")[-1]
            if cname not in implicit:
                continue
            fam = lits[implicit[cname]]
            n += 1
            # walk back to the load of the fixed register
            j, between, load = i - 1, [], None
            while j >= 0:
                b = stmts[j]
                if isinstance(b, ast.Expr) and isinstance(b.value, ast.Call) and last_name(b.value) == "move" and b.value.args and norm(b.value.args[0]) in fam:
                    load = b
                    break
                between.append(b)
                j -= 1
            ctx.ob(rid, site, "%s reads `%s` implicitly: the pattern loads %s with context.move() before emitting it" % (cname, implicit[cname], "/".join(fam)), load is not None, construct="implicit-loaded:%s" % cname, node=st)
            if load is None:
                continue

            def defines_vreg(b):
                if isinstance(b, ast.Assign) and isinstance(b.value, ast.Call) and last_name(b.value) == "new_reg":
                    return False   # allocation of a name, no definition yet
                if isinstance(b, ast.Expr) and isinstance(b.value, ast.Call) and last_name(b.value) == "move" and b.value.args and norm(b.value.args[0]) in FIXED_NAMES.get(arch, ()):
                    return False   # another fixed register is loaded
                return True
            bad = [b for b in between if defines_vreg(b)]
            declared = any(("add_use(%s)" % r) in norm(x) or ("uses=(%s" % r) in norm(x) or ("uses=[%s" % r) in norm(x) for x in stmts[i + 1:] for r in fam)
            if declared:
                bad = []   # the read is declared after the instruction: the register is live across the window
            ctx.ob(rid, site, "nothing that defines a virtual register stands between the load of %s and %s (the implicit read is not declared, so the allocator considers %s free there and may assign it to a register defined in between)"
                   % (norm(load.value.args[0]), cname, norm(load.value.args[0])), not bad, construct="implicit-window:%s" % cname, node=bad[0] if bad else st,
                   detail="; ".join(" ".join(norm(b).split())[:60] for b in bad))
    return n


FIXED_NAMES = {"x86_64": ("rax", "rbx", "rcx", "rdx", "rsi", "rdi", "eax", "ebx", "ecx", "edx", "ax", "bx", "cx", "dx", "al", "bl", "cl", "dl", "r8", "r9", "r10", "r11")}


def sibling_flags(ctx, dump, arch, rid):
    """instructions of one arch with identical syntax operand classes and
    token layout, produced by one factory (same mnemonic family), carry the
    same flag vector - checked for the frozen families below"""
    a = dump["archs"][arch]
    fams = {}
    for ins in a["instructions"]:
        ops = [o for o in ins["operands"] if o["is_register"]]
        if not ops or not ins["syntax"]:
            continue
        shape = (tuple(ins["tokens"]), tuple((e["op"] if isinstance(e, dict) else ("," if e.strip() == "," else "w" if e.isspace() else "M")) for e in ins["syntax"]),
                 tuple(o["cls"] if isinstance(o["cls"], str) else "t" for o in ins["operands"]))
        fams.setdefault(shape, []).append(ins)
    return fams


def run(ctx):
    ctx.rule("C07.R1", "pattern functions use operands consistently with their declared read/write flags (no input clobbered, no garbage read, no dead initialising move, returned register written)", floor=150)
    ctx.rule("C07.R2", "every register operand is declared read and/or written", floor=150)
    dump = ctx.isa()
    ctx.need(not dump["errors"], "ISA dump reported errors: %s" % dump["errors"][:2])
    archs = ARCHS_ALL if ctx.tier == "thorough" else ARCHS_QUICK
    total = 0
    for arch in archs:
        total += check_arch(ctx, dump, arch)
    ctx.extra["pattern_functions_analysed"] = total
    ctx.rule("C07.R4", "an encoder (encode / set_user_patterns) takes register numbers only from its own declared operands, never from a fixed physical register: the encoded register is the one liveness was told about", floor=2)
    n_enc, hits = fixed_registers_in_encoders(ctx.project)
    ctx.need(n_enc >= 120, "encoder functions not enumerated (%d)" % n_enc)
    ctl = ast.parse("class K:\n    def set_user_patterns(self, tokens):\n        Other(rbp, 0).set_user_patterns(tokens)\n")
    ctx.need(len(_fixed_in(ctl, {"rbp"})) == 1, "C07.R4 positive control lost")
    ctx.ob("C07.R4", "ppci/arch/*", "encoder functions scanned for physical register constants: %d" % n_enc, True, construct="scan-encoders")
    for rel, cname, fname, node in hits:
        ctx.ob("C07.R4", "%s:%s.%s" % (rel, cname, fname), "the encoder does not name the physical register `%s`" % node.id, False, construct="fixed-register:%s.%s:%s" % (cname, fname, node.id), node=node)
    ctx.ob("C07.R4", "ppci/arch/*", "no encoder names a physical register", not hits, construct="no-fixed-register")
    ctx.rule("C07.R6", "pseudo instructions: an operand declared write-only is not read by the expansion before the expansion wrote it (every path through render())", floor=2)
    nexp = sum(pseudo_expansions(ctx, dump, arch_, "C07.R6") for arch_ in archs)
    ctx.extra["pseudo_expansion_reads"] = nexp
    ctx.rule("C07.R5", "x86-64: the destination of a read-modify-write instruction (shift, add, neg, ...) in a pattern is never one of the pattern's input registers", floor=30)
    ctx.extra["x86_rmw_sites"] = x86_destination_not_an_input(ctx, dump, "C07.R5")
    ctx.rule("C07.R3", "an undeclared (implicit) fixed-register operand is loaded immediately before the instruction that reads it", floor=20)
    ctx.extra["implicit_operand_sites"] = implicit_operand_windows(ctx, dump, "x86_64", "C07.R3")
    register_api(ctx, "C07.R7")
    x86_rm_written(ctx, dump, "C07.R9")
    from .c08 import arm_addressing_bits
    arm_addressing_bits(ctx, "C07.R8")     # a post-indexed or write-back encoding changes the base register, which is declared read-only
    # R2: flag sanity + sibling vectors
    for arch in archs:
        a = dump["archs"][arch]
        for ins in a["instructions"] + a["constructors"]:
            for o in ins["operands"]:
                if o["is_register"]:
                    ctx.ob("C07.R2", "ppci/%s:%s" % (ins["file"], ins["name"]), "register operand %s of %s is declared read and/or written" % (o["name"], ins["name"]), o["read"] or o["write"], construct="flagged:%s.%s" % (ins["name"], o["name"]))


# instructions that legitimately deviate from their shape siblings: name -> reason
FAMILY_EXCEPTIONS = {}
# instruction classes whose declared write flag is conservative (the instruction only reads that operand)
CONSERVATIVE_WRITE = {"Cmpl": "m68k cmp: declared by the two-operand factory, only sets flags", "Cmpw": "m68k cmp", "Cmpb": "m68k cmp",
                      "cmp_ins": "thumb cmp built by the two-address factory: only sets flags, the declared write is conservative"}
# instruction classes whose declared read flag is conservative (the operand is only written)
CONSERVATIVE_READ = {"rsb_ins": "thumb rsbs rd, rn, #0 built by the two-address factory: rd is only written"}
# pattern functions that re-normalise a narrow value in its own register (sign/zero extension in place)
NORMALISING_IN_PLACE = {
    "riscv": ("pattern_i8_to_i32", "pattern_i16_to_i32", "pattern_8_to_16", "pattern_8_to_32", "pattern_16_to_32", "pattern_shr_i8", "pattern_shr_i16", "pattern_shr_u8", "pattern_shr_u16"),
}


# x86-64 mnemonics that read AND overwrite their first (destination) operand, whatever the declaration says (Intel SDM vol. 2)
X86_RMW = {"add", "sub", "and", "or", "xor", "adc", "sbb", "shl", "shr", "sar", "rol", "ror", "inc", "dec", "neg", "not", "imul", "xchg",
           "addsd", "subsd", "mulsd", "divsd", "addss", "subss", "mulss", "divss"}


def x86_destination_not_an_input(ctx, dump, rid):
    """An r/m constructor declares its register read-only, so `shr [rm=reg]` does not tell the allocator that the
    register changes.  That is only harmless while the register is a temporary of the pattern: a child register
    (an input that may still be live) must never be the destination of a read-modify-write instruction."""
    from ..core import walk_no_nested, last_name, params_of
    a = dump["archs"]["x86_64"]
    model = isamod.IsaModel(dump, "x86_64")
    mnem = {}
    for ins in a["instructions"]:
        if ins["syntax"] and isinstance(ins["syntax"][0], str):
            mnem.setdefault(ins["name"], set()).add(ins["syntax"][0])
    n = 0
    seen = set()
    for pat in a["patterns"]:
        key = (pat["file"], pat["method"], pat["line"])
        if key in seen:
            continue
        seen.add(key)
        fn = isamod.find_pattern_function(ctx.project, pat)
        if fn is None:
            continue
        ps = params_of(fn)
        children = set(ps[2:]) if len(ps) > 2 else set()
        site = "%s:%s" % (fn._module.rel, fn.name)
        for c in ast.walk(fn):
            if not (isinstance(c, ast.Call) and last_name(c) == "emit" and c.args and isinstance(c.args[0], ast.Call)):
                continue
            call = c.args[0]
            cname = norm(call.func).split(".")[-1]
            decl = model.resolve(fn._module, cname)
            ms = set(mnem.get(cname, set()))
            if decl is not None and decl["syntax"] and isinstance(decl["syntax"][0], str):
                ms.add(decl["syntax"][0])
            if not ms and norm(call.func).startswith("bits"):
                import re as _re
                w = _re.match(r"[A-Z][a-z]+", cname)   # bits64.ShrRm, bits32.AddRmReg: attribute names of the per-width collections
                if w and w.group(0).lower() in X86_RMW:
                    ms.add(w.group(0).lower())
            if not (ms & X86_RMW) or not call.args:
                continue
            dst = call.args[0]
            # unwrap a register-direct r/m constructor: RmReg64(x)
            if isinstance(dst, ast.Call) and norm(dst.func).startswith("RmReg") and dst.args:
                dst = dst.args[0]
            if not isinstance(dst, ast.Name):
                continue
            n += 1
            ctx.ob(rid, site, "`%s` overwrites its first operand: `%s` is a register the pattern owns, not one of its inputs (%s)" % (sorted(ms & X86_RMW)[0], dst.id, ", ".join(sorted(children)) or "-"),
                   dst.id not in children, construct="rmw-destination:%s:%s" % (cname, dst.id), node=c, detail=" ".join(norm(call).split())[:70])
    return n


def pseudo_expansions(ctx, dump, arch, rid):
    """A pseudo instruction declares read/write flags for its own operands, but what reaches the machine is the sequence
    its render() yields.  An operand declared write-only (not read) must not be READ by the expansion before the
    expansion has written it - on every path through render()."""
    from ..cfg import CFG
    from ..core import walk_no_nested
    project = ctx.project
    model = isamod.IsaModel(dump, arch)
    a = dump["archs"][arch]
    n = 0
    files = sorted({("ppci/" + i["file"]) for i in a["instructions"] if i.get("file")})
    for rel in files:
        mod = project.modules.get(rel)
        if mod is None:
            continue
        for cls in [c for c in mod.tree.body if isinstance(c, ast.ClassDef)]:
            rn = [f for f in cls.body if isinstance(f, ast.FunctionDef) and f.name == "render"]
            if not rn:
                continue
            ops = {}
            for st in cls.body:
                if isinstance(st, ast.Assign) and isinstance(st.value, ast.Call) and norm(st.value.func) == "Operand":
                    kw = {k.arg: norm(k.value) for k in st.value.keywords}
                    ops[norm(st.targets[0])] = (kw.get("read") == "True", kw.get("write") == "True")
            wo = [o for o, (r, w) in ops.items() if w and not r]
            if not wo:
                continue
            fn = rn[0]
            cfg = CFG(fn)
            ys = []
            for st in walk_no_nested(fn):
                if isinstance(st, ast.Expr) and isinstance(st.value, ast.Yield) and isinstance(st.value.value, ast.Call):
                    call = st.value.value
                    decl = model.resolve(mod, norm(call.func).split(".")[-1])
                    if decl is None:
                        continue
                    formal = model.formal(decl)
                    reads, writes = set(), set()
                    for opname, arg in zip(formal, call.args):
                        o = model.operand(decl, opname)
                        if o is None or not o["is_register"]:
                            continue
                        t = norm(arg)
                        if t.startswith("self."):
                            if o["read"]:
                                reads.add(t[5:])
                            if o["write"]:
                                writes.add(t[5:])
                    ys.append((st, reads, writes))
            for o in wo:
                readers = [(st, r, w) for st, r, w in ys if o in r]
                for st, r, w in readers:
                    n += 1
                    writers = [s2 for s2, r2, w2 in ys if o in w2 and s2 is not st]
                    ok = bool(writers) and cfg.must_pass(st, lambda x: any(x is s2 for s2 in writers))
                    ctx.ob(rid, "%s:%s.render" % (rel, cls.name), "`%s` is declared write-only on %s: the expansion reads it (%s) only after an earlier yielded instruction wrote it, on every path" % (o, cls.name, " ".join(norm(st.value.value).split())[:50]),
                           ok, construct="expansion-reads-after-write:%s.%s" % (cls.name, o), node=st)
    return n


ENC = "ppci/arch/encoding.py"


def register_api(ctx, rid):
    """The interface between an instruction's declaration and the liveness analysis: which registers an instruction
    instance reads and writes is computed from the operand flags by Instruction.used_registers / defined_registers,
    over Constructor.leaves (which expands composite operands)."""
    from ..core import last_name
    ctx.rule(rid, "Instruction.used_registers / defined_registers report exactly the operands declared read / written (composite operands expanded) plus extra_uses / extra_defs; replace_register rewrites every matching operand", floor=10)
    op = ctx.fn(ENC, "Operand.__init__")
    site = ENC + ":Operand.__init__"
    params = [a.arg for a in op.args.args]
    dflt = dict(zip(reversed(params), reversed([norm(d) for d in op.args.defaults])))
    st = {norm(n.targets[0]): norm(n.value) for n in walk_no_nested(op) if isinstance(n, ast.Assign) and len(n.targets) == 1}
    ctx.ob(rid, site, "the read flag is stored in _read and the write flag in _write (not crossed), both default to False", st.get("self._read") == "read" and st.get("self._write") == "write" and dflt.get("read") == "False" and dflt.get("write") == "False",
           construct="flags-stored", detail="_read=%s _write=%s" % (st.get("self._read"), st.get("self._write")))
    for meth, flag, extra in (("used_registers", "_read", "extra_uses"), ("defined_registers", "_write", "extra_defs")):
        f = ctx.fn(ENC, "Instruction." + meth)
        site = "%s:Instruction.%s" % (ENC, meth)
        loops = [l for l in walk_no_nested(f) if isinstance(l, ast.For) and norm(l.iter) == "self.leaves" and isinstance(l.target, ast.Tuple) and len(l.target.elts) == 2]
        ok = len(loops) == 1
        coll = None
        if ok:
            p, o = (norm(e) for e in loops[0].target.elts)
            apps = [c for c in ast.walk(loops[0]) if isinstance(c, ast.Call) and last_name(c) in ("append", "add") and isinstance(c.func, ast.Attribute)]
            ok = len(apps) == 1 and norm(apps[0].args[0]) == "%s.__get__(%s)" % (p, o)
            if ok:
                coll = norm(apps[0].func.value)
                from ..flow import controlling
                conds = [(" ".join(norm(t).split()), pol) for t, pol, _ in controlling(apps[0], f)]
                ok = conds == [("%s.%s" % (p, flag), True)] and not any(isinstance(x, (ast.Break, ast.Continue, ast.Return)) for x in ast.walk(loops[0]))
        ctx.ob(rid, site, "collects the value of every leaf operand whose %s flag is set - that flag is the only condition, and no leaf ends the loop early" % flag, ok, construct="collect:" + meth)
        ext = [c for c in walk_no_nested(f) if isinstance(c, ast.Call) and last_name(c) in ("extend", "update") and coll and norm(c.func.value) == coll and norm(c.args[0]) == "self." + extra]
        rets = [r for r in walk_no_nested(f) if isinstance(r, ast.Return)]
        ok = bool(coll) and len(ext) == 1 and len(rets) == 1 and norm(rets[0].value) == coll
        ctx.ob(rid, site, "adds self.%s (implicit registers of calls and the like) and returns the collection" % extra, ok, construct="extra:" + meth)
    lv = ctx.fn(ENC, "Constructor.leaves")
    site = ENC + ":Constructor.leaves"
    loops = [l for l in walk_no_nested(lv) if isinstance(l, ast.For) and norm(l.iter) == "self.properties"]
    ok = len(loops) == 1 and len(loops[0].body) == 1 and isinstance(loops[0].body[0], ast.If)
    if ok:
        v = norm(loops[0].target)
        br = loops[0].body[0]
        ok = " ".join(norm(br.test).split()) == v + ".is_constructor"
        yf = [n for n in ast.walk(ast.Module(body=br.body, type_ignores=[])) if isinstance(n, ast.YieldFrom)]
        yl = [n for n in ast.walk(ast.Module(body=br.orelse, type_ignores=[])) if isinstance(n, ast.Yield)]
        ok = ok and len(yf) == 1 and norm(yf[0].value) == "%s.__get__(self).leaves" % v and len(yl) == 1 and isinstance(yl[0].value, ast.Tuple) and [norm(e) for e in yl[0].value.elts] == [v, "self"]
        ok = ok and not any(isinstance(x, (ast.Break, ast.Continue, ast.Return)) for x in ast.walk(loops[0]))
    ctx.ob(rid, site, "every property is a leaf of the object it is declared on; a composite (constructor) operand contributes the leaves of its current value instead", ok, construct="leaves")
    pr = ctx.fn(ENC, "Constructor.properties")
    rets = [norm(r.value) for r in walk_no_nested(pr) if isinstance(r, ast.Return) and r.value is not None]
    ctx.ob(rid, ENC + ":Constructor.properties", "the properties are the formal arguments of the syntax (all of them)", "self.syntax.formal_arguments" in rets and all(r in ("self.syntax.formal_arguments", "[]") for r in rets), construct="properties", detail=str(rets))
    rr = ctx.fn(ENC, "Instruction.replace_register")
    site = ENC + ":Instruction.replace_register"
    ok = len(rr.args.args) == 3
    if ok:
        old, new = rr.args.args[1].arg, rr.args.args[2].arg
        loops = [l for l in walk_no_nested(rr) if isinstance(l, ast.For) and norm(l.iter) == "self.leaves" and isinstance(l.target, ast.Tuple)]
        ok = len(loops) == 1
        if ok:
            p, o = (norm(e) for e in loops[0].target.elts)
            sets = [c for c in ast.walk(loops[0]) if isinstance(c, ast.Call) and norm(c.func) == p + ".__set__"]
            ok = len(sets) == 1 and [norm(a) for a in sets[0].args] == [o, new]
            if ok:
                from ..flow import controlling
                conds = {(" ".join(norm(t).split()), pol) for t, pol, _ in controlling(sets[0], rr)}
                ok = ("%s.__get__(%s) is %s" % (p, o, old), True) in conds and all(c in ("%s.__get__(%s) is %s" % (p, o, old), "issubclass(%s._cls, Register)" % p) and pol is True for c, pol in conds)
                ok = ok and not any(isinstance(x, (ast.Break, ast.Continue, ast.Return)) for x in ast.walk(loops[0]))
    ctx.ob(rid, site, "every leaf operand that IS the old register is set to the new one (no early exit: an instruction may name a register twice, e.g. add r, r)", ok, construct="replace-all")
    rg = ctx.fn(ENC, "Instruction.registers")
    ys = [n for n in ast.walk(rg) if isinstance(n, ast.Yield)]
    ok = len(ys) == 1 and not any(isinstance(x, (ast.Break, ast.Continue, ast.Return)) for x in ast.walk(rg))
    ctx.ob(rid, ENC + ":Instruction.registers", "yields the value of every register-typed leaf", ok and "__get__" in norm(ys[0].value), construct="registers")
    for meth, attr in (("reads_register", "used_registers"), ("writes_register", "defined_registers")):
        f = ctx.fn(ENC, "Instruction." + meth)
        a = f.args.args[1].arg
        rets = [" ".join(norm(r.value).split()) for r in walk_no_nested(f) if isinstance(r, ast.Return)]
        ctx.ob(rid, "%s:Instruction.%s" % (ENC, meth), "membership test in %s" % attr, rets == ["%s in self.%s" % (a, attr)], construct=meth, detail=str(rets))
    ini = ctx.fn(ENC, "Instruction.__init__")
    st = {norm(n.targets[0]): norm(n.value) for n in walk_no_nested(ini) if isinstance(n, ast.Assign) and len(n.targets) == 1}
    ctx.ob(rid, ENC + ":Instruction.__init__", "clobbers, extra_uses and extra_defs are per-instance lists that start empty", all(st.get("self." + k) == "[]" for k in ("clobbers", "extra_uses", "extra_defs")), construct="fresh-lists")


# x86-64 mnemonics that write their FIRST operand (read-modify-write, or write only: mov / setcc / pop)
X86_WRITES_FIRST = X86_RMW | {"mov", "movsx", "movzx", "movsxd", "lea", "pop", "cvtsi2sd", "cvtsi2ss", "cvttsd2si", "cvttss2si", "cvtsd2ss", "cvtss2sd", "movsd", "movss", "movd", "movq", "movups", "movaps"} | {"set" + c for c in ("e", "ne", "z", "nz", "l", "le", "g", "ge", "b", "be", "a", "ae", "s", "ns")}
X86_READS_ONLY = {"cmp", "test", "jmp", "call", "push", "idiv", "div", "mul", "ucomisd", "ucomiss", "comisd", "comiss"}


def x86_rm_written(ctx, dump, rid):
    """The r/m operand of an x86 instruction is a composite (addressing mode) whose register leaf is declared
    read-only, because for `[reg + disp]` the register IS only read.  When the r/m operand is a plain register and
    the instruction writes it (add rm, reg; neg rm; shl rm, cl; mov rm, reg) the instruction has to report that
    register as DEFINED itself: spilling stores a register back after every instruction that defines it."""
    ctx.rule(rid, "x86-64: an instruction whose first operand is an r/m operand and whose mnemonic writes its first operand reports the r/m register as defined (rm_written) when the operand is a plain register; instructions that only read it (cmp, test, jmp, ...) do not", floor=30)
    X = "ppci/arch/x86_64/instructions.py"
    a = dump["archs"].get("x86_64")
    ctx.need(a is not None, "x86_64 ISA dump missing")
    n = 0
    for ins in a["instructions"]:
        syn = ins.get("syntax") or []
        if not syn or not isinstance(syn[0], str):
            continue
        mn = syn[0].strip().lower()
        ops = [e for e in syn if isinstance(e, dict)]
        if not ops:
            continue
        first = ops[0]
        o = next((x for x in ins["operands"] if x["name"] == first.get("op")), None)
        if o is None or o.get("is_register") or not o.get("cls_uids"):
            continue       # first operand is not a composite r/m operand
        if first.get("op") != "rm":
            continue
        site = "ppci/%s:%s" % (ins["file"], ins["name"])
        flag = ins.get("flags", {}).get("rm_written")
        if mn in X86_WRITES_FIRST:
            n += 1
            ctx.ob(rid, site, "`%s rm, ...` writes its r/m operand: the class declares rm_written" % mn, flag is True and ins.get("overrides_defined_registers") is True, construct="rm-written:" + ins["name"], detail="rm_written = %r; a base class extends defined_registers: %r" % (flag, ins.get("overrides_defined_registers")))
        elif mn in X86_READS_ONLY:
            n += 1
            ctx.ob(rid, site, "`%s rm, ...` only reads its r/m operand: rm_written is not set" % mn, not flag, construct="rm-read-only:" + ins["name"], detail="rm_written = %r" % flag)
        else:
            ctx.undecided(rid, site, "mnemonic `%s` with an r/m first operand is in neither table" % mn)
    ctx.need(n >= 30, "x86_64 instructions with an r/m first operand not enumerated (%d)" % n)
    base = ctx.project.module(X).defs.get("X86Instruction.defined_registers")
    ok = False
    if base is not None:
        txt = " ".join(norm(base).split())
        ok = "super().defined_registers" in txt and "self.rm_written" in txt and ".reg_rm" in txt and "isinstance(" in txt
        ap = [c for c in ast.walk(base) if isinstance(c, ast.Call) and isinstance(c.func, ast.Attribute) and c.func.attr in ("append", "add") and ".reg_rm" in norm(c)]
        ok = ok and len(ap) == 1
    ctx.ob(rid, X + ":X86Instruction.defined_registers", "defined_registers adds the register of a plain-register r/m operand when rm_written is set (on top of the declared write operands)", ok, construct="defined-includes-rm")
