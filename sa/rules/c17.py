"""C17 - ELF writer: header layouts vs the ELF specification, required
fields assigned before a header is registered, spec formulas for st_info /
r_info / e_ident, locals-before-globals, file offsets taken per table after
alignment and before the content is written, assigned attributes are
declared fields."""
import ast

from ..core import (norm, walk_no_nested, calls_in, call_name, last_name, try_const, assigned_values,
                    attr_chain, compare_ops, names_in)
from ..cfg import CFG, node_calls
from .. import sym, flow

W = "ppci/format/elf/writer.py"
H = "ppci/format/elf/headers.py"

U8, U16, U32, U64, I32, I64 = "Uint8", "Uint16", "Uint32", "Uint64", "Int32", "Int64"
SPEC = {
    ("ElfHeader", 64): [(U16, "e_type"), (U16, "e_machine"), (U32, "e_version"), (U64, "e_entry"), (U64, "e_phoff"), (U64, "e_shoff"), (U32, "e_flags"), (U16, "e_ehsize"), (U16, "e_phentsize"), (U16, "e_phnum"), (U16, "e_shentsize"), (U16, "e_shnum"), (U16, "e_shstrndx")],
    ("ElfHeader", 32): [(U16, "e_type"), (U16, "e_machine"), (U32, "e_version"), (U32, "e_entry"), (U32, "e_phoff"), (U32, "e_shoff"), (U32, "e_flags"), (U16, "e_ehsize"), (U16, "e_phentsize"), (U16, "e_phnum"), (U16, "e_shentsize"), (U16, "e_shnum"), (U16, "e_shstrndx")],
    ("SectionHeader", 32): [(U32, n) for n in ("sh_name", "sh_type", "sh_flags", "sh_addr", "sh_offset", "sh_size", "sh_link", "sh_info", "sh_addralign", "sh_entsize")],
    ("SectionHeader", 64): [(U32, "sh_name"), (U32, "sh_type"), (U64, "sh_flags"), (U64, "sh_addr"), (U64, "sh_offset"), (U64, "sh_size"), (U32, "sh_link"), (U32, "sh_info"), (U64, "sh_addralign"), (U64, "sh_entsize")],
    ("ProgramHeader", 64): [(U32, "p_type"), (U32, "p_flags"), (U64, "p_offset"), (U64, "p_vaddr"), (U64, "p_paddr"), (U64, "p_filesz"), (U64, "p_memsz"), (U64, "p_align")],
    ("ProgramHeader", 32): [(U32, "p_type"), (U32, "p_offset"), (U32, "p_vaddr"), (U32, "p_paddr"), (U32, "p_filesz"), (U32, "p_memsz"), (U32, "p_flags"), (U32, "p_align")],
    ("SymbolTableEntry", 64): [(U32, "st_name"), (U8, "st_info"), (U8, "st_other"), (U16, "st_shndx"), (U64, "st_value"), (U64, "st_size")],
    ("SymbolTableEntry", 32): [(U32, "st_name"), (U32, "st_value"), (U32, "st_size"), (U8, "st_info"), (U8, "st_other"), (U16, "st_shndx")],
    ("RelocationTableEntry", 64): [(U64, "r_offset"), (U64, "r_info"), (I64, "r_addend")],
    ("RelocationTableEntry", 32): [(U32, "r_offset"), (U32, "r_info"), (I32, "r_addend")],
    ("DynamicEntry", 64): [(I64, "d_tag"), (U64, "d_val")],
    ("DynamicEntry", 32): [(I32, "d_tag"), (U32, "d_val")],
}
ENUMS = {
    "SectionHeaderType": {"NULL": 0, "PROGBITS": 1, "SYMTAB": 2, "STRTAB": 3, "RELA": 4, "HASH": 5, "DYNAMIC": 6, "NOTE": 7, "NOBITS": 8, "REL": 9, "DYNSYM": 11},
    "SectionHeaderFlag": {"WRITE": 1, "ALLOC": 2, "EXECINSTR": 4, "INFO_LINK": 0x40},
    "ProgramHeaderType": {"NULL": 0, "LOAD": 1, "DYNAMIC": 2, "INTERP": 3},
    "SymbolTableBinding": {"LOCAL": 0, "GLOBAL": 1, "WEAK": 2},
    "SymbolTableType": {"NOTYPE": 0, "OBJECT": 1, "FUNC": 2, "SECTION": 3, "FILE": 4},
    "ElfMachine": {"ARM": 0x28, "X86_64": 0x3E, "XTENSA": 0x5E, "RISCV": 0xF3, "MICROBLAZE": 0xBD},
}
# fields a header of a given role must have assigned before it is registered
REQUIRED = {
    "SYMTAB": ["sh_name", "sh_type", "sh_offset", "sh_size", "sh_info", "sh_entsize", "sh_addralign"],
    "RELA": ["sh_name", "sh_type", "sh_offset", "sh_size", "sh_info", "sh_entsize", "sh_addralign"],
    "STRTAB": ["sh_name", "sh_type", "sh_offset", "sh_size"],
    "PROGBITS": ["sh_name", "sh_type", "sh_flags", "sh_addr", "sh_offset", "sh_size", "sh_addralign"],
    "LOAD": ["p_type", "p_flags", "p_offset", "p_vaddr", "p_paddr", "p_filesz", "p_memsz", "p_align"],
}


def _bits_of_branch(node, init):
    """32 / 64 from the enclosing `if bits == N` of a mk_header call"""
    for test, pol, _ in flow.controlling(node, init):
        for l, op, r in compare_ops(test):
            if norm(l) == "bits" and op == "Eq":
                v = try_const(r)
                if v in (32, 64):
                    return v if pol else (96 - v)
    return None


def _anc(n):
    out = []
    n = getattr(n, "_parent", None)
    while n is not None:
        out.append(n)
        n = getattr(n, "_parent", None)
    return out


def run(ctx):
    ctx.rule("C17.R1", "header layouts (field order and width) follow the ELF32 / ELF64 specification", floor=12)
    ctx.rule("C17.R2", "enumeration constants follow the ELF specification", floor=20)
    ctx.rule("C17.R3", "every attribute assigned on a header object is a declared field of that header type (others are silently written as 0)", floor=30)
    ctx.rule("C17.R4", "required header fields are assigned before the header is registered", floor=25)
    ctx.rule("C17.R5", "spec formulas: st_info = bind << 4 | type, r_info = sym << 32 (64-bit) / << 8 (32-bit) + type, e_ident class/data/version bytes", floor=6)
    ctx.rule("C17.R6", "symbol table: null entry first, locals before globals, sh_info = number of locals + 1, size = (n + 1) entries, ids mapped for relocations", floor=7)
    ctx.rule("C17.R7", "file offsets: taken by tell() after alignment, before the content is written, once per table / segment (inside the loop that creates the header)", floor=8)
    project = ctx.project
    # ---- R1 ---------------------------------------------------------------
    init = ctx.fn(H, "HeaderTypes.__init__")
    declared = {}
    for c in calls_in(init, "mk_header"):
        name = try_const(c.args[0])
        bits = _bits_of_branch(c, init)
        fields = []
        if len(c.args) >= 2 and isinstance(c.args[1], ast.List):
            for e in c.args[1].elts:
                if isinstance(e, ast.Call) and e.args:
                    fields.append((last_name(e), try_const(e.args[0])))
        if name is None or bits is None:
            ctx.undecided("C17.R1", H + ":HeaderTypes.__init__", "mk_header call not under `bits == N`: %s" % norm(c)[:60])
            continue
        declared[(name, bits)] = fields
        want = SPEC.get((name, bits))
        if want is None:
            continue
        ctx.ob("C17.R1", "%s:HeaderTypes.%s[%d]" % (H, name, bits), "%s (ELF%d) fields are %s" % (name, bits, ", ".join("%s:%s" % (n, t) for t, n in want)), fields == want,
               construct="layout:%s:%d" % (name, bits), node=c, detail="declared " + ", ".join("%s:%s" % (n, t) for t, n in fields))
    for k in SPEC:
        ctx.ob("C17.R1", H + ":HeaderTypes.__init__", "%s for %d bit is declared" % k, k in declared, construct="declared:%s:%d" % k)
    # ---- R2 ---------------------------------------------------------------
    hm = project.module(H)
    for ename, members in ENUMS.items():
        cdef = ctx.cls(H, ename)
        vals = {}
        for st in cdef.body:
            if isinstance(st, ast.Assign) and isinstance(st.targets[0], ast.Name):
                vals[st.targets[0].id] = try_const(st.value)
        for m, v in members.items():
            ctx.ob("C17.R2", "%s:%s" % (H, ename), "%s.%s == %#x" % (ename, m, v), vals.get(m) == v, construct="%s.%s" % (ename, m), detail=str(vals.get(m)))
    wm = project.module(W)
    for n, v in (("ET_REL", 1), ("ET_EXEC", 2), ("ET_DYN", 3), ("DT_NULL", 0), ("DT_NEEDED", 1)):
        got = [try_const(x) for x in wm.assignments(n)]
        ctx.ob("C17.R2", W + ":" + n, "%s == %d" % (n, v), got == [v], construct=n)
    # ---- R3 / R4 -------------------------------------------------------------
    wcls = ctx.cls(W, "ElfWriter")
    all_fields = {}
    for (name, bits), fields in declared.items():
        all_fields.setdefault(name, set()).update(n for _, n in fields)
    for m in [x for x in wcls.body if isinstance(x, ast.FunctionDef)]:
        site = "%s:ElfWriter.%s" % (W, m.name)
        objs = {}
        for n in walk_no_nested(m):
            if isinstance(n, ast.Assign) and isinstance(n.targets[0], ast.Name) and isinstance(n.value, ast.Call):
                cn = call_name(n.value) or ""
                if cn.startswith("self.header_types.") or cn.startswith("self.elf_file.header_types."):
                    objs[n.targets[0].id] = (cn.split(".")[-1], n)
                elif cn == "Entry" and m.name == "write_dynamic_section":
                    objs[n.targets[0].id] = ("DynamicEntry", n)
        if m.name in ("write_elf_header", "write_images", "write_section_headers"):
            objs["self.elf_header"] = ("ElfHeader", None)
        assigned = {}
        for n in walk_no_nested(m):
            if isinstance(n, (ast.Assign, ast.AugAssign)):
                tg = n.targets if isinstance(n, ast.Assign) else [n.target]
                for t in tg:
                    if isinstance(t, ast.Attribute):
                        base = norm(t.value)
                        if base in objs:
                            hname = objs[base][0]
                            assigned.setdefault(base, {}).setdefault(t.attr, n)
                            ctx.ob("C17.R3", site, "attribute %s is a declared field of %s" % (t.attr, hname), t.attr in all_fields.get(hname, set()), construct="field:%s.%s" % (hname, t.attr), node=n)
        # required fields by role
        cfg = None
        for var, (hname, creat) in objs.items():
            if creat is None:
                continue
            a = assigned.get(var, {})
            role = None
            if hname == "SectionHeader" and "sh_type" in a:
                tv = norm(a["sh_type"].value)
                for r in ("SYMTAB", "RELA", "STRTAB", "PROGBITS"):
                    if "SectionHeaderType." + r in tv:
                        role = r
            elif hname == "ProgramHeader" and "p_type" in a and "LOAD" in norm(a["p_type"].value):
                role = "LOAD"
            if role is None:
                continue
            reg = [c for c in calls_in(m, "append") if c.args and norm(c.args[0]) == var]
            if not reg:
                ctx.ob("C17.R4", site, "%s header (%s) is registered in the header list" % (role, var), False, construct="registered:%s" % role)
                continue
            cfg = cfg or CFG(m)
            reg_st = cfg.stmt_of(reg[0])
            for f in REQUIRED[role]:
                ok = f in a and cfg.must_pass(reg_st, lambda n, x=a.get(f): n is x, start=creat) if f in a else False
                ctx.ob("C17.R4", site, "%s header: %s is assigned before the header is registered" % (role, f), ok, construct="required:%s:%s" % (role, f), node=reg[0])
    # ---- R5 -----------------------------------------------------------------
    st = ctx.fn(W, "ElfWriter.write_symbol_table")
    info = [n for n in walk_no_nested(st) if isinstance(n, ast.Assign) and norm(n.targets[0]) == "entry.st_info"]
    ok = bool(info) and norm(info[0].value) in ("int(st_bind) << 4 | int(st_type)", "st_bind << 4 | st_type", "(int(st_bind) << 4) + int(st_type)", "int(st_type) | int(st_bind) << 4", "int(st_bind) << 4 | int(st_type) & 15")
    ctx.ob("C17.R5", W + ":ElfWriter.write_symbol_table", "st_info = (bind << 4) | type", ok, construct="st_info", detail=norm(info[0].value) if info else "")
    rl = ctx.fn(W, "ElfWriter.write_rela_table")
    for n in walk_no_nested(rl):
        if isinstance(n, ast.Assign) and norm(n.targets[0]) == "r_info":
            conds = flow.controlling(n, rl)
            is64 = None
            for t, pol, _ in conds:
                for l, op, r in compare_ops(t):
                    if "bits" in norm(l) and op == "Eq" and try_const(r) in (32, 64):
                        is64 = (try_const(r) == 64) == pol
            if is64 is None:
                ctx.undecided("C17.R5", W + ":ElfWriter.write_rela_table", "r_info assignment not under a bits test")
                continue
            want = "(r_sym << 32) + r_type" if is64 else "(r_sym << 8) + r_type"
            v = n.value
            okv = isinstance(v, ast.BinOp) and isinstance(v.op, (ast.Add, ast.BitOr)) and norm(v.right) == "r_type" and isinstance(v.left, ast.BinOp) and isinstance(v.left.op, ast.LShift) \
                and norm(v.left.left) == "r_sym" and try_const(v.left.right) == (32 if is64 else 8)
            ctx.ob("C17.R5", W + ":ElfWriter.write_rela_table", "r_info = %s for ELF%d" % (want, 64 if is64 else 32), okv, construct="r_info:%d" % (64 if is64 else 32), node=n, detail=norm(n.value))
    ent = {norm(n.targets[0]): norm(n.value) for n in walk_no_nested(rl) if isinstance(n, ast.Assign) and norm(n.targets[0]).startswith("rela_entry.")}
    ctx.ob("C17.R5", W + ":ElfWriter.write_rela_table", "rela entry = (rel.offset, r_info, rel.addend)", ent == {"rela_entry.r_offset": "rel.offset", "rela_entry.r_info": "r_info", "rela_entry.r_addend": "rel.addend"}, construct="rela-entry", detail=str(ent))
    idf = ctx.fn(W, "ElfWriter.write_identification")
    txt = norm(idf)
    ok = "bit_map = {32: 1, 64: 2}" in txt and "e_ident[4] = bit_map[bits]" in txt and "endianity_map = {Endianness.LITTLE: 1, Endianness.BIG: 2}" in txt and "e_ident[5] = endianity_map[endianness]" in txt and "e_ident[6] = 1" in txt
    ctx.ob("C17.R5", W + ":ElfWriter.write_identification", "e_ident: class 1/2 at [4], data 1/2 at [5], version 1 at [6], magic 7f 'ELF'", ok and "[127, ord('E'), ord('L'), ord('F')]" in txt, construct="e_ident")
    eh = ctx.fn(W, "ElfWriter.write_elf_header")
    ctx.ob("C17.R5", W + ":ElfWriter.write_elf_header", "e_ehsize = identification + header size; e_shstrndx = index of .strtab; e_entry = value of the entry symbol",
           "self.elf_header.e_ehsize = self.e_ident_size + self.header_types.ElfHeader.size" in norm(eh) and "self.elf_header.e_shstrndx = self.section_numbers['.strtab']" in norm(eh)
           and "self.elf_header.e_entry = self.obj.get_symbol_id_value(self.obj.entry_symbol_id)" in norm(eh), construct="ehdr")
    # ---- R6 -----------------------------------------------------------------
    site = W + ":ElfWriter.write_symbol_table"
    fors = [n for n in walk_no_nested(st) if isinstance(n, ast.For) and isinstance(n.iter, ast.Call) and call_name(n.iter) == "enumerate"]
    ok = bool(fors) and norm(fors[0].iter.args[0]) == "local_symbols + global_symbols" and len(fors[0].iter.args) == 2 and try_const(fors[0].iter.args[1]) == 1
    ctx.ob("C17.R6", site, "entries are written locals first, then globals, numbered from 1", ok, construct="locals-first", detail=norm(fors[0].iter) if fors else "")
    split = [n for n in walk_no_nested(st) if isinstance(n, ast.If) and "symbol.binding" in norm(n.test) and any("global_symbols.append" in norm(b) for b in n.body)]
    ok = bool(split) and "GLOBAL" in norm(split[0].test) and any("local_symbols.append" in norm(b) for b in split[0].orelse)
    ctx.ob("C17.R6", site, "symbols are split by binding: GLOBAL into the global list, the rest into the local list", ok, construct="split")
    bind = [n for n in ast.walk(st) if isinstance(n, ast.If) and any(isinstance(b, ast.Assign) and norm(b.targets[0]) == "st_bind" and "GLOBAL" in norm(b.value) for b in n.body)]
    ok = bool(split) and len(bind) == 1 and norm(bind[0].test) == norm(split[0].test) and any(isinstance(b, ast.Assign) and norm(b.targets[0]) == "st_bind" and "LOCAL" in norm(b.value) for b in bind[0].orelse)
    ctx.ob("C17.R6", site, "a symbol is written as STB_GLOBAL under exactly the condition that put it into the global part of the table (everything below sh_info is STB_LOCAL)", ok, construct="binding-matches-split",
           node=bind[0] if bind else st, detail="split on `%s`, bound on `%s`" % (norm(split[0].test) if split else "?", norm(bind[0].test) if bind else "?"))
    fg = assigned_values(st, "symbol_table_index_first_global")
    shinfo = [n for n in walk_no_nested(st) if isinstance(n, ast.Assign) and norm(n.targets[0]) == "section_header.sh_info"]
    ok = bool(fg) and sym.affine(fg[0], {}) == sym.atom("len(local_symbols)") + sym.const(1) and bool(shinfo) and norm(shinfo[0].value) == "symbol_table_index_first_global"
    ctx.ob("C17.R6", site, "sh_info of .symtab = index of the first global = len(locals) + 1", ok, construct="sh_info")
    sz = assigned_values(st, "symtab_size")
    ok = bool(sz) and norm(sz[0]) in ("symtab_entsize * (len(self.obj.symbols) + 1)", "(len(self.obj.symbols) + 1) * symtab_entsize")
    ctx.ob("C17.R6", site, "table size = (number of symbols + 1 null entry) * entry size", ok, construct="size")
    null = [c for c in calls_in(st, "write") if norm(c) == "self.f.write(bytes(symtab_entsize))"]
    ok = bool(null) and bool(fors) and null[0].lineno < fors[0].lineno
    ctx.ob("C17.R6", site, "a null entry is written before the first symbol", ok, construct="null-entry")
    idmap = [n for n in walk_no_nested(st) if isinstance(n, ast.Assign) and norm(n.targets[0]) == "self.symbol_id_map[symbol.id]"]
    ok = bool(idmap) and bool(fors) and isinstance(fors[0].target, ast.Tuple) and norm(idmap[0].value) == norm(fors[0].target.elts[0])
    rs = assigned_values(rl, "r_sym")
    ctx.ob("C17.R6", site, "symbol id -> table index map is filled with the entry number and used for r_sym", ok and bool(rs) and norm(rs[0]) == "self.symbol_id_map[rel.symbol_id]", construct="id-map")
    val = [n for n in walk_no_nested(st) if isinstance(n, ast.Assign) and norm(n.targets[0]) == "entry.st_value" and norm(n.value) != "0"]
    ok = bool(val) and sym.affine(val[0].value, {}) == sym.atom("symbol.value") + sym.atom("self.obj.get_section(symbol.section).address")
    ctx.ob("C17.R6", site, "st_value = symbol value + address of its section; st_shndx = number of its section", ok and "entry.st_shndx = self.section_numbers[symbol.section]" in norm(st), construct="st_value")

    # ---- R7 offsets -----------------------------------------------------------
    def offset_rule(fnname, offset_field, hdr_var, content_pred, what):
        fn = ctx.fn(W, "ElfWriter." + fnname)
        site = "%s:ElfWriter.%s" % (W, fnname)
        cfg = CFG(fn)
        asg = [n for n in walk_no_nested(fn) if isinstance(n, ast.Assign) and norm(n.targets[0]) == "%s.%s" % (hdr_var, offset_field)]
        if not asg:
            ctx.ob("C17.R7", site, "%s: %s is assigned" % (what, offset_field), False, construct="offset-assigned:" + what)
            return
        a = asg[0]
        src = a.value
        if not isinstance(src, ast.Name):
            ctx.undecided("C17.R7", site, "%s offset is not a local: %s" % (what, norm(src)))
            return
        tells = [n for n in walk_no_nested(fn) if isinstance(n, ast.Assign) and norm(n.targets[0]) == src.id]
        ok_tell = len(tells) == 1 and norm(tells[0].value) == "self.f.tell()"
        ctx.ob("C17.R7", site, "%s: the offset recorded is self.f.tell()" % what, ok_tell, construct="tell:" + what, node=a, detail=norm(tells[0]) if tells else "")
        if not ok_tell:
            return
        t = tells[0]
        al = [n for n in walk_no_nested(fn) if isinstance(n, ast.Expr) and isinstance(n.value, ast.Call) and norm(n.value.func) == "self.align_to"]
        ctx.ob("C17.R7", site, "%s: the file position is aligned before the offset is taken" % what, bool(al) and cfg.must_pass(t, lambda n: any(n is x for x in al)), construct="align-before-tell:" + what, node=t)
        writes = [n for n in cfg.nodes if not isinstance(n, str) and content_pred(n)]
        ctx.ob("C17.R7", site, "%s: the offset is taken before the content is written" % what, bool(writes) and all(cfg.must_pass(w, lambda n: n is t) for w in writes), construct="tell-before-write:" + what, node=t)
        # per-iteration freshness
        hdr_create = [n for n in walk_no_nested(fn) if isinstance(n, ast.Assign) and norm(n.targets[0]) == hdr_var and isinstance(n.value, ast.Call)]
        if hdr_create:
            loops_h = [p for p in _anc(hdr_create[0]) if isinstance(p, (ast.For, ast.While))]
            loops_t = [p for p in _anc(t) if isinstance(p, (ast.For, ast.While))]
            loops_al = [[p for p in _anc(x) if isinstance(p, (ast.For, ast.While))] for x in al]
            if loops_h:
                ok = loops_h[0] in loops_t and any(loops_h[0] in la for la in loops_al)
                ctx.ob("C17.R7", site, "%s: alignment and offset are taken again for every header created in the loop (each table has its own offset)" % what, ok, construct="fresh-per-iteration:" + what, node=t)

    is_call = lambda n, f: any(norm(c.func) == f for c in node_calls(n))
    offset_rule("write_rela_table", "sh_offset", "section_header", lambda n: is_call(n, "rela_entry.write"), "rela table")
    offset_rule("write_symbol_table", "sh_offset", "section_header", lambda n: is_call(n, "entry.write") or (is_call(n, "self.f.write")), "symbol table")
    offset_rule("write_string_table", "sh_offset", "section_header", lambda n: is_call(n, "self.f.write"), "string table")
    offset_rule("write_images", "p_offset", "program_header", lambda n: is_call(n, "self.f.write"), "segment")
    # sections outside images
    ws = ctx.fn(W, "ElfWriter.write_sections")
    site = W + ":ElfWriter.write_sections"
    cfg = CFG(ws)
    t = [n for n in walk_no_nested(ws) if isinstance(n, ast.Assign) and norm(n.value) == "self.f.tell()"]
    wr = [n for n in cfg.nodes if not isinstance(n, str) and is_call(n, "self.f.write")]
    gh = [c for c in calls_in(ws, "gen_section_header")]
    al = [n for n in walk_no_nested(ws) if isinstance(n, ast.Expr) and norm(n.value).startswith("self.align_to(section.alignment")]
    ok = bool(t) and bool(wr) and bool(gh) and bool(al) and cfg.must_pass(t[0], lambda n: n is al[0]) and cfg.must_pass(wr[0], lambda n: n is t[0]) and [norm(a) for a in gh[0].args] == ["section", norm(t[0].targets[0])]
    ctx.ob("C17.R7", site, "free sections: aligned to the section alignment, offset taken, data written, header created with that offset", ok and norm(wr[0].value.args[0]) == "section.data", construct="free-sections")
    wi = ctx.fn(W, "ElfWriter.write_images")
    so = assigned_values(wi, "section_offset")
    sfo = assigned_values(wi, "section_file_offset")
    ok = bool(so) and sym.affine(so[0], {}) == sym.atom("section.address") - sym.atom("image.address") and bool(sfo) and sym.affine(sfo[0], {}) == sym.atom("file_offset") + sym.atom("section_offset")
    ctx.ob("C17.R7", W + ":ElfWriter.write_images", "a section inside a segment lies at segment file offset + (section address - image address)", ok, construct="section-in-segment")
    ph = {norm(n.targets[0]): norm(n.value) for n in walk_no_nested(wi) if isinstance(n, ast.Assign) and norm(n.targets[0]).startswith("program_header.")}
    ok = ph.get("program_header.p_vaddr") == "vaddr" and ph.get("program_header.p_filesz") == "size" and ph.get("program_header.p_memsz") == "size" and \
        any(norm(v) == "image.address" for v in assigned_values(wi, "vaddr")) and any(norm(v) == "image.size" for v in assigned_values(wi, "size")) and \
        any(norm(c) == "self.f.write(image.data)" for c in calls_in(wi, "write"))
    ctx.ob("C17.R7", W + ":ElfWriter.write_images", "segment: vaddr = image address, file and memory size = image size, content = image data", ok, construct="segment-fields")
    gs = ctx.fn(W, "ElfWriter.gen_section_header")
    d = {norm(n.targets[0]): norm(n.value) for n in walk_no_nested(gs) if isinstance(n, ast.Assign)}
    ok = d.get("section_header.sh_addr") == "section.address" and d.get("section_header.sh_offset") == "offset" and d.get("section_header.sh_size") == "section.size" and d.get("section_header.sh_addralign") == "section.alignment"
    ctx.ob("C17.R7", W + ":ElfWriter.gen_section_header", "section header: addr, offset, size, alignment come from the section and the given file offset", ok, construct="section-header-fields")
    at = ctx.fn(W, "ElfWriter.align_to")
    pad = assigned_values(at, "padding")
    ok = bool(pad) and norm(pad[0]) in ("(alignment - self.f.tell() % alignment) % alignment", "-self.f.tell() % alignment")
    ctx.ob("C17.R7", W + ":ElfWriter.align_to", "align_to pads with (alignment - pos % alignment) % alignment zero bytes", ok and "self.f.write(bytes(padding))" in norm(at), construct="align_to")
    _string_table(ctx)


def _string_table(ctx):
    """R8: the string table of an ELF file: an offset handed out for a name is the position of that name in THIS
    file's table.  The name cache and the table bytes therefore belong to one StringTable instance, and a writer
    creates its own table."""
    from .c30 import process_state_sites
    ST = "ppci/format/elf/string.py"
    ctx.rule("C17.R8", "ELF string table: a name's offset is the length of this table's bytes at the moment the name is appended (NUL terminated); a cached offset is only reused within the same table (cache and bytes are per-instance state created in __init__); every writer creates its own table", floor=5)
    gn = ctx.fn(ST, "StringTable.get_name")
    site = ST + ":StringTable.get_name"
    nm = gn.args.args[1].arg
    sets = [n for n in ast.walk(gn) if isinstance(n, ast.Assign) and isinstance(n.targets[0], ast.Subscript) and norm(n.targets[0].slice) == nm]
    ok = len(sets) == 1 and norm(sets[0].value) == "len(self.strtab)"
    cache = norm(sets[0].targets[0].value) if sets else None
    ctx.ob("C17.R8", site, "a new name is recorded at offset len(self.strtab)", ok, construct="offset-is-length", detail=norm(sets[0]) if sets else "")
    grow = [n for n in ast.walk(gn) if isinstance(n, (ast.AugAssign, ast.Assign)) and norm(n.targets[0] if isinstance(n, ast.Assign) else n.target) == "self.strtab"]
    ok = len(grow) == 1 and sets and grow[0].lineno > sets[0].lineno and "%s.encode(" % nm in norm(grow[0]) and ("bytes([0])" in norm(grow[0]) or "b'\\x00'" in norm(grow[0]))
    ctx.ob("C17.R8", site, "then the table grows by the encoded name and a terminating NUL (after the offset was taken)", bool(ok), construct="append-nul-terminated", detail=norm(grow[0]) if grow else "")
    from ..sym import conjuncts
    guarded = sets and any(pol is True and " ".join(norm(c).split()) == "%s not in %s" % (nm, cache) for c, pol in conjuncts(sets[0], gn, {}))
    rets = [norm(r.value) for r in ast.walk(gn) if isinstance(r, ast.Return)]
    ctx.ob("C17.R8", site, "a name is appended only once; the recorded offset is returned", bool(guarded) and rets == ["%s[%s]" % (cache, nm)], construct="cache-consistent", detail=str(rets))
    mod = ctx.project.module(ST)
    hits = [t for k, n, t in process_state_sites(mod.tree)]
    for rel in ("ppci/format/elf/writer.py", "ppci/format/elf/file.py", "ppci/format/elf/headers.py"):
        hits += [t for k, n, t in process_state_sites(ctx.project.module(rel).tree)]
    ctx.ob("C17.R8", "ppci/format/elf/*", "no state of the ELF writer lives on a class or module (a second file written in the same process would reuse offsets of the first)", not hits, construct="per-file-state", detail="; ".join(hits[:3]))
    ini = ctx.project.module(ST).defs.get("StringTable.__init__")
    st = {norm(n.targets[0]): norm(n.value) for n in ast.walk(ini) if isinstance(n, ast.Assign)} if ini is not None else {}
    ctx.ob("C17.R8", ST + ":StringTable.__init__", "each table starts as the single NUL byte with an empty name cache", st.get("self.strtab") in ("bytes([0])", "b'\\x00'") and st.get(cache or "self.names") == "{}", construct="fresh-table", detail=str(st))
    wc = ctx.cls(W, "ElfWriter")
    mk = [(m.name, n) for m in wc.body if isinstance(m, ast.FunctionDef) for n in ast.walk(m) if isinstance(n, ast.Assign) and norm(n.value) == "StringTable()" and norm(n.targets[0]).startswith("self.")]
    cls_level = [n for n in wc.body if isinstance(n, ast.Assign) and "StringTable" in norm(n.value)]
    ctx.ob("C17.R8", W + ":ElfWriter", "the writer creates a fresh string table for the file it writes (inside a method, not as a class attribute)", len(mk) == 1 and not cls_level, construct="table-per-file", detail=", ".join(m for m, _ in mk))
