"""C01 - C front-end tables every program's meaning passes through:
binary-operator precedence/associativity (C11 6.5.5-6.5.17), the operator
take test, and the usual-arithmetic-conversion rank chain (C11 6.3.1.1,
6.3.1.8).  The lowering of individual constructs is not decided."""
import ast

from ..core import norm, walk_no_nested, dict_items, try_const, attr_chain

P = "ppci/lang/c/parser.py"
S = "ppci/lang/c/semantics.py"
# C11 6.5.5 .. 6.5.17 loosest to tightest
ASSIGN = ["=", "+=", "-=", "*=", "/=", "%=", ">>=", "<<=", "|=", "&=", "^="]
LEVELS = [[","], ASSIGN, ["?"], ["||"], ["&&"], ["|"], ["^"], ["&"], ["==", "!="], ["<", ">", "<=", ">="],
          ["<<", ">>"], ["+", "-"], ["*", "/", "%"]]
RIGHT = set(ASSIGN) | {"?"}
# C11 6.3.1.1: conversion rank chain (lowest first); unsigned has the rank
# of its signed twin and wins the tie in 6.3.1.8
INT_CHAIN = ["CHAR", "SHORT", "INT", "LONG", "LONGLONG"]
FLOAT_CHAIN = ["FLOAT", "DOUBLE", "LONGDOUBLE"]


def run(ctx):
    ctx.rule("C01.R1", "binary operator precedence and associativity of CParser.prio_map follow C11 6.5", floor=60)
    ctx.rule("C01.R2", "expression grouping: after a binary operator the right operand takes every operator of a tighter C11 level, one of the same level only if that level is right associative, and none of a looser level (decided by evaluating _binop_take and the recursion priority over the operator table); entry priorities sit on level boundaries", floor=300)
    ctx.rule("C01.R3", "usual arithmetic conversion ranks follow the C11 chain (signed < unsigned of the same rank < next rank; integers < float < double < long double)", floor=15)
    init = ctx.fn(P, "CParser.__init__")
    table = None
    for n in walk_no_nested(init):
        if isinstance(n, ast.Assign) and norm(n.targets[0]) == "self.prio_map" and isinstance(n.value, ast.Dict):
            table = n.value
    ctx.need(table is not None, "CParser.prio_map dict literal not found")
    ctx.saw("tables", "CParser.prio_map")
    site = P + ":CParser.prio_map"
    mod = ctx.project.module(P)
    consts = {}
    for name in ("LEFT_ASSOCIATIVE", "RIGHT_ASSOCIATIVE"):
        vals = mod.assignments(name)
        ctx.need(len(vals) == 1, "%s not assigned exactly once in parser.py" % name)
        consts[name] = try_const(vals[0])
    ctx.need(consts["LEFT_ASSOCIATIVE"] != consts["RIGHT_ASSOCIATIVE"], "associativity constants are equal")
    entries = {}
    for k, v in dict_items(table):
        key = try_const(k)
        if isinstance(key, str) and isinstance(v, ast.Tuple) and len(v.elts) == 2:
            assoc = norm(v.elts[0])
            prio = try_const(v.elts[1])
            if assoc in consts and isinstance(prio, int):
                entries[key] = (assoc, prio, v)
                continue
        ctx.undecided("C01.R1", site, "entry %s not (ASSOC, int)" % norm(k))
    level_of = {op: i for i, ops in enumerate(LEVELS) for op in ops}
    for op in level_of:
        ctx.ob("C01.R1", site, "operator `%s` is in the table" % op, op in entries, construct="present:" + op)
    for op in entries:
        if op not in level_of:
            ctx.undecided("C01.R1", site, "operator `%s` is not a C11 binary operator" % op)
    ops = sorted(o for o in entries if o in level_of)
    for a in ops:
        for b in ops:
            if a < b:
                la, lb = level_of[a], level_of[b]
                pa, pb = entries[a][1], entries[b][1]
                rel = (la > lb) - (la < lb)
                got = (pa > pb) - (pa < pb)
                if rel != got or abs(la - lb) <= 1:
                    ctx.ob("C01.R1", site, "precedence of `%s` vs `%s` as in C11 6.5" % (a, b), rel == got,
                           construct="prec:%s:%s" % (a, b), node=entries[a][2], detail="ppci %s:%s, %s:%s" % (a, pa, b, pb))
    for o in ops:
        want = "RIGHT_ASSOCIATIVE" if o in RIGHT else "LEFT_ASSOCIATIVE"
        ctx.ob("C01.R1", site, "`%s` is %s" % (o, want.lower().replace("_", " ")), entries[o][0] == want, construct="assoc:" + o, node=entries[o][2])

    # R2: grouping, decided on the table itself (C11 6.5: the grammar levels are LEVELS; within a level the declared associativity)
    from .. import minieval
    bt = ctx.fn(P, "CParser._binop_take")
    tsite = P + ":CParser._binop_take"
    pb = ctx.fn(P, "CParser.parse_binop_with_precedence")
    psite = P + ":CParser.parse_binop_with_precedence"
    table_val = {o: (consts[a], pr) for o, (a, pr, _) in entries.items()}
    base_env = {"self.prio_map": table_val, "LEFT_ASSOCIATIVE": consts["LEFT_ASSOCIATIVE"], "RIGHT_ASSOCIATIVE": consts["RIGHT_ASSOCIATIVE"]}

    def take(op, prio):
        return bool(minieval.call(bt, [op, prio], base_env))
    rec = [c for c in ast.walk(pb) if isinstance(c, ast.Call) and norm(c.func) == "self.parse_binop_with_precedence"]
    ctx.need(rec, "parse_binop_with_precedence does not recurse")
    loops = [l for l in pb.body if isinstance(l, ast.While)]
    ctx.need(len(loops) == 1, "parse_binop_with_precedence: operator loop not found")
    opvar = None
    for n in ast.walk(loops[0]):
        if isinstance(n, ast.Assign) and isinstance(n.value, ast.Call) and norm(n.value.func) in ("self.next_token", "self.consume") and isinstance(n.targets[0], ast.Name):
            opvar = n.targets[0].id
            break
    ctx.need(opvar is not None, "parse_binop_with_precedence: the taken operator token is not bound to a name")

    def rhs_priority(o):
        env = dict(base_env)
        env[opvar + ".val"] = o
        env[opvar + ".typ"] = o
        for st in ast.walk(loops[0]):
            if isinstance(st, ast.Assign) and isinstance(st.targets[0], ast.Name) and st.targets[0].id != opvar and not any(x in rec for x in ast.walk(st.value)):
                try:
                    env[st.targets[0].id] = minieval.ev(st.value, env)
                except minieval.Undecidable:
                    pass
        from ..sym import conjuncts
        for c in rec:
            st = c
            while not isinstance(st, ast.stmt):
                st = st._parent
            holds = True
            for cond, pol in conjuncts(st, pb, {}):
                if "_binop_take" in norm(cond):
                    continue
                try:
                    if bool(minieval.ev(cond, env)) != pol:
                        holds = False
                        break
                except minieval.Undecidable:
                    continue
            if holds:
                return minieval.ev(c.args[0], env)
        raise minieval.Undecidable("no right-operand parse applies to %s" % o)
    try:
        for o1 in ops:
            r = rhs_priority(o1)
            for o2 in ops:
                l1, l2 = level_of[o1], level_of[o2]
                want = l2 > l1 or (l2 == l1 and o1 in RIGHT)
                got = take(o2, r)
                ctx.ob("C01.R2", psite, "in `a %s b %s c` the operand b %s `%s`" % (o1, o2, "takes" if want else "leaves", o2), got == want, construct="group:%s:%s" % (o1, o2),
                       detail="right operand of `%s` is parsed at priority %r; _binop_take(%r, %r) = %r" % (o1, r, o2, r, got))
        ctx.ob("C01.R2", tsite, "a token that is not a binary operator ends the expression", take(")", 0) is False and take(";", 0) is False and take(":", 0) is False, construct="non-operator")
    except minieval.Undecidable as e:
        ctx.undecided("C01.R2", psite, "operator grouping could not be evaluated: %s" % e)
    wl = loops[0].test
    ok = isinstance(wl, ast.Call) and norm(wl.func) == "self._binop_take" and [norm(a) for a in wl.args] == ["self.peek", pb.args.args[1].arg]
    ctx.ob("C01.R2", psite, "the loop continues while _binop_take accepts the next token at the priority this parse was started with", ok, construct="loop-uses-own-priority")
    # entry points: a start priority p admits exactly the levels above a boundary
    entry = {"CParser.parse_expression": ",", "CParser.parse_assignment_expression": "=", "CParser.parse_constant_expression": "?"}
    for q, lowest in entry.items():
        fn = ctx.fn(P, q, optional=True)
        if fn is None:
            ctx.undecided("C01.R2", P + ":" + q, "entry point not present")
            continue
        calls = [c for c in ast.walk(fn) if isinstance(c, ast.Call) and norm(c.func) == "self.parse_binop_with_precedence"]
        if len(calls) != 1 or not isinstance(try_const(calls[0].args[0]) if calls[0].args else None, int):
            ctx.undecided("C01.R2", P + ":" + q, "start priority not a literal")
            continue
        p = try_const(calls[0].args[0])
        lv = level_of[lowest]
        bad = []
        for o in ops:
            try:
                taken = take(o, p)
            except minieval.Undecidable:
                taken = None
            if taken != (level_of[o] >= lv):
                bad.append(o)
        ctx.ob("C01.R2", P + ":" + q, "start priority %d admits exactly the operators from `%s` upward" % (p, lowest), not bad,
               construct="entry-prio", node=calls[0], detail="wrongly %s: %s" % ("classified", bad))

    # R3: rank table
    cls = ctx.cls(S, "CSemantics")
    rt = None
    for n in cls.body:
        if isinstance(n, ast.Assign) and norm(n.targets[0]) == "basic_ranks" and isinstance(n.value, ast.Dict):
            rt = n.value
    ctx.need(rt is not None, "CSemantics.basic_ranks dict literal not found")
    ctx.saw("tables", "CSemantics.basic_ranks")
    rsite = S + ":CSemantics.basic_ranks"
    ranks = {}
    for k, v in dict_items(rt):
        ch = attr_chain(k) or ""
        val = try_const(v)
        if ch.startswith("types.BasicType.") and isinstance(val, int):
            ranks[ch.split(".")[-1]] = val
        else:
            ctx.undecided("C01.R3", rsite, "entry %s not BasicType -> int" % norm(k))
    need = INT_CHAIN + ["U" + t for t in INT_CHAIN] + FLOAT_CHAIN
    for t in need:
        ctx.ob("C01.R3", rsite, "type %s has a rank" % t, t in ranks, construct="present:" + t)
    have = lambda *ts: all(t in ranks for t in ts)
    for t in INT_CHAIN:
        if have(t, "U" + t):
            ctx.ob("C01.R3", rsite, "%s < U%s (6.3.1.8: the unsigned operand of equal rank wins)" % (t, t), ranks[t] < ranks["U" + t], construct="lt:%s:U%s" % (t, t),
                   detail="%d vs %d" % (ranks[t], ranks["U" + t]))
    for a, b in zip(INT_CHAIN, INT_CHAIN[1:]):
        if have("U" + a, b):
            ctx.ob("C01.R3", rsite, "U%s < %s (a higher rank wins regardless of signedness)" % (a, b), ranks["U" + a] < ranks[b], construct="lt:U%s:%s" % (a, b),
                   detail="%d vs %d" % (ranks["U" + a], ranks[b]))
    if have("ULONGLONG", "FLOAT"):
        ctx.ob("C01.R3", rsite, "every integer type ranks below float", max(ranks[t] for t in ranks if t in INT_CHAIN or t[1:] in INT_CHAIN) < ranks["FLOAT"], construct="int<float")
    for a, b in zip(FLOAT_CHAIN, FLOAT_CHAIN[1:]):
        if have(a, b):
            ctx.ob("C01.R3", rsite, "%s < %s" % (a, b), ranks[a] < ranks[b], construct="lt:%s:%s" % (a, b))
    # the common type is the operand of maximal rank
    gc = ctx.fn(S, "CSemantics.get_common_type")
    mx = [c for c in ast.walk(gc) if isinstance(c, ast.Call) and norm(c.func) == "max"]
    ok = any(any(k.arg == "key" and "_get_rank" in norm(k.value) for k in c.keywords) for c in mx)
    ctx.ob("C01.R3", S + ":CSemantics.get_common_type", "the common type is the operand type of maximal rank", ok, construct="max-by-rank")
    gr = ctx.fn(S, "CSemantics._get_rank")
    ok = any(isinstance(n, ast.Return) and n.value is not None and "self.basic_ranks[" in norm(n.value) for n in walk_no_nested(gr))
    ctx.ob("C01.R3", S + ":CSemantics._get_rank", "basic types are ranked through basic_ranks", ok, construct="rank-from-table")
    _promo_rules(ctx)
    _switch_rules(ctx)
    _condition_rules(ctx)
    _size_types(ctx)
    _loop_control(ctx)
    _brace_elision(ctx)


def _promo_rules(ctx):
    """R4: C11 6.3.1.8 - the usual arithmetic conversions start with the
    integer promotions of both operands; 6.5.7 - a shift has the type of its
    promoted left operand; 6.5.3.3 - unary - and ~ promote their operand."""
    from ..cfg import CFG
    from ..tables import eq_branches
    ctx.rule("C01.R4", "integer promotions: both operands are promoted before get_common_type; a shift takes the promoted left operand's type; unary -/~ promote", floor=8)
    ob = ctx.fn(S, "CSemantics.on_binop")
    site = S + ":CSemantics.on_binop"
    cfg = CFG(ob)

    def is_promote(st, var):
        return (isinstance(st, ast.Assign) and len(st.targets) == 1 and norm(st.targets[0]) == var
                and isinstance(st.value, ast.Call) and norm(st.value.func) == "self.promote"
                and len(st.value.args) == 1 and var in {x.id for x in ast.walk(st.value.args[0]) if isinstance(x, ast.Name)})

    br = eq_branches(ob, "op")
    arith = ["+", "-", "*", "/", "%", "<", ">", "<=", ">=", "==", "!=", "&", "|", "^", "<<", ">>"]
    for o in arith:
        ctx.ob("C01.R4", site, "operator `%s` has a branch in on_binop" % o, o in br, construct="branch:" + o)
    gcs = [c for c in ast.walk(ob) if isinstance(c, ast.Call) and norm(c.func) == "self.get_common_type"]
    ctx.need(gcs, "on_binop does not call get_common_type")
    for i, c in enumerate(gcs):
        st = cfg.stmt_of(c)
        args = [norm(a) for a in c.args[:2]]
        ok_args = args == ["lhs.typ", "rhs.typ"]
        ok = ok_args and all(cfg.must_pass(st, lambda n, v=v: is_promote(n, v)) for v in ("lhs", "rhs"))
        owner = [o for o in arith if o in br and any(x is c for s in br[o][1] for x in ast.walk(s))]
        ctx.ob("C01.R4", site, "get_common_type for %s is reached only after `lhs = self.promote(lhs)` and `rhs = self.promote(rhs)`" % (owner or "?"),
               ok, construct="promote-before-common:%s" % ",".join(owner), node=c)
    # C11 6.5.15p5: the conditional operator's result type is the one the usual arithmetic conversions give for its 2nd and 3rd operand
    tn = ctx.fn(S, "CSemantics.on_ternop")
    tcfg = CFG(tn)
    tg = [c for c in ast.walk(tn) if isinstance(c, ast.Call) and norm(c.func) == "self.get_common_type"]
    ctx.need(len(tg) == 1, "on_ternop does not call get_common_type once")
    st = tcfg.stmt_of(tg[0])
    ok = [norm(a) for a in tg[0].args[:2]] == ["mid.typ", "rhs.typ"] and all(tcfg.must_pass(st, lambda n, v=v: is_promote(n, v)) for v in ("mid", "rhs"))
    ctx.ob("C01.R4", S + ":CSemantics.on_ternop", "`c ? x : y`: the common type is taken after `mid = self.promote(..mid..)` and `rhs = self.promote(..rhs..)` (`b ? sc : uc` has type int, not unsigned char)", ok,
           construct="promote-before-common:?:", node=tg[0])
    # every use of get_common_type in the front-end is one of the reviewed ones
    others = [(q, c) for q, f in ctx.project.module(S).defs.items() if isinstance(f, ast.FunctionDef) and q not in ("CSemantics.on_binop", "CSemantics.on_ternop", "CSemantics.get_common_type")
              for c in walk_no_nested(f) if isinstance(c, ast.Call) and norm(c.func).endswith("get_common_type")]
    ctx.ob("C01.R4", S, "get_common_type is only used by on_binop and on_ternop (each use checked above)", not others, construct="common-type-users", detail=", ".join(q for q, _ in others))
    for o in ("<<", ">>"):
        if o not in br:
            continue
        body = br[o][1]
        res = [s for b in body for s in ast.walk(b) if isinstance(s, ast.Assign) and norm(s.targets[0]) == "result_typ"]
        ok = bool(res) and all(norm(s.value) == "lhs.typ" and cfg.must_pass(s, lambda n: is_promote(n, "lhs")) for s in res)
        ctx.ob("C01.R4", site, "`%s`: the result type is the type of the promoted left operand, not the common type" % o, ok,
               construct="shift-type:" + o, node=res[0] if res else br[o][0], detail="; ".join(norm(s) for s in res))
    un = ctx.fn(S, "CSemantics.on_unop")
    ubr = eq_branches(un, "op")
    for o in ("-", "~"):
        if o not in ubr:
            ctx.undecided("C01.R4", S + ":CSemantics.on_unop", "no branch for unary `%s`" % o)
            continue
        body = ubr[o][1]
        ctor = [c for b in body for c in ast.walk(b) if isinstance(c, ast.Call) and norm(c.func).endswith("UnaryOperator")]
        prom = [s for b in body for s in ast.walk(b) if isinstance(s, ast.Assign) and isinstance(s.value, ast.Call)
                and any(isinstance(x, ast.Call) and norm(x.func) == "self.promote" for x in ast.walk(s.value))]
        ok = bool(ctor) and bool(prom) and all(norm(c.args[1]) == norm(prom[0].targets[0]) for c in ctor)
        ctx.ob("C01.R4", S + ":CSemantics.on_unop", "unary `%s` builds its node from the promoted operand" % o, ok, construct="unary-promote:" + o,
               node=ctor[0] if ctor else ubr[o][0])


def _switch_rules(ctx):
    """R5: C11 6.8.4.2p5 - the integer promotions are performed on the controlling expression and every case
    constant is converted to the promoted type"""
    from .. import sym
    ctx.rule("C01.R5", "switch: the controlling expression is promoted before the switch context is created; every case constant is converted to that (promoted) type; the Switch node tests the same promoted expression", floor=5)
    en = ctx.fn(S, "CSemantics.on_switch_enter")
    site = S + ":CSemantics.on_switch_enter"
    mk = [c for c in ast.walk(en) if isinstance(c, ast.Call) and norm(c.func).endswith("CSwitchContext")]
    ctx.need(len(mk) == 1 and mk[0].args, "on_switch_enter: creation of the switch context not found")
    arg = mk[0].args[0]
    p = en.args.args[1].arg
    prom = [n for n in en.body if isinstance(n, ast.Assign) and isinstance(n.value, ast.Call) and norm(n.value.func) == "self.promote" and norm(n.value.args[0]) == p]
    ok = (isinstance(arg, ast.Call) and norm(arg.func) == "self.promote") or (bool(prom) and norm(arg) == norm(prom[0].targets[0]) and prom[0].lineno < mk[0].lineno)
    ctx.ob("C01.R5", site, "the switch context is created from the PROMOTED controlling expression (its type is the type the case labels are converted to)", ok, construct="context-from-promoted", node=mk[0], detail=norm(mk[0]))
    ei = [c for c in ast.walk(en) if isinstance(c, ast.Call) and norm(c.func) == "self.ensure_integer"]
    ctx.ob("C01.R5", site, "a non-integer controlling expression is rejected", bool(ei), construct="ensure-integer")
    oc = ctx.fn(S, "CSemantics.on_case")
    site = S + ":CSemantics.on_case"
    evs = [n for n in ast.walk(oc) if isinstance(n, ast.Assign) and isinstance(n.value, ast.Call) and norm(n.value.func) == "self.eval_expr"]
    ctx.need(len(evs) >= 3, "on_case: evaluation of the case constants not found")
    for i, e in enumerate(evs):
        v = norm(e.value.args[0])
        body = e._parent.body if e in getattr(e._parent, "body", []) else e._parent.orelse
        co = [n for n in body if isinstance(n, ast.Assign) and norm(n.targets[0]) == v and isinstance(n.value, ast.Call) and norm(n.value.func) == "self.coerce" and n.lineno < e.lineno]
        ok = bool(co) and norm(co[-1].value.args[1]).endswith(".typ") and norm(co[-1].value.args[1]).split(".")[0] in ("context",)
        ctx.ob("C01.R5", site, "case constant `%s` is converted to the type of the switch context before it is evaluated and compared with the other labels" % v, ok, construct="case-coerced:%d" % i, node=e)
    ex = ctx.fn(S, "CSemantics.on_switch_exit")
    sw = [c for c in ast.walk(ex) if isinstance(c, ast.Call) and norm(c.func).endswith("statements.Switch")]
    env = sym.single_assign_env(ex)
    ok = len(sw) == 1 and norm(sw[0].args[0]) == "context.expression" and "switch_stack.pop" in norm(env.get("context", ast.parse("x").body[0].value))
    ctx.ob("C01.R5", S + ":CSemantics.on_switch_exit", "the Switch node tests the expression stored in the context (no second, different conversion at exit)", ok, construct="switch-uses-context-expression", detail=norm(sw[0]) if sw else "")
    cx = ctx.cls("ppci/lang/c/semantics.py", "CSwitchContext", optional=True) or ctx.project.cls("ppci/lang/c/scope.py", "CSwitchContext", optional=True)
    if cx is not None:
        init = [m for m in cx.body if isinstance(m, ast.FunctionDef) and m.name == "__init__"]
        ok = bool(init) and any(isinstance(n, ast.Assign) and norm(n.targets[0]) == "self.typ" and norm(n.value).endswith(".typ") and norm(n.value).split(".")[0] == init[0].args.args[1].arg for n in ast.walk(init[0]))
        ctx.ob("C01.R5", "%s:CSwitchContext" % cx._module.rel, "the context's type is the type of the expression it was created with", ok, construct="context-typ")


def _condition_rules(ctx):
    """R6: C11 6.8.4.1 / 6.5.3.3 / 6.5.13-15 - a scalar controlling expression is compared with 0 in its own type"""
    from .. import sym
    ctx.rule("C01.R6", "conditions (if, while, for, !, &&, ||, ?:) test a scalar value against zero at its own type and width: nothing converts it to int first (0.5 and 1LL << 32 are true)", floor=4)
    cc = ctx.fn(S, "CSemantics.check_condition")
    site = S + ":CSemantics.check_condition"
    co = [c for c in ast.walk(cc) if isinstance(c, ast.Call) and norm(c.func) == "self.coerce"]
    ok = True
    detail = []
    for c in co:
        cj = [(" ".join(norm(e).split()), pol) for e, pol in sym.conjuncts(c, cc, {})]
        detail.append(str(cj))
        guarded = any((t.endswith(".typ.is_scalar") and not pol) or (t.startswith("not ") and t.endswith(".typ.is_scalar") and pol) for t, pol in cj)
        ok = ok and guarded
    ctx.ob("C01.R6", site, "a conversion of the condition to int happens at most for non-scalar operands (where it produces the diagnostic)", ok, construct="no-narrowing-of-scalars", node=co[0] if co else cc, detail="; ".join(detail))
    rets = [r for r in ast.walk(cc) if isinstance(r, ast.Return)]
    ctx.ob("C01.R6", site, "the (array/function-to-pointer converted) condition itself is returned", len(rets) == 1 and norm(rets[0].value) == cc.args.args[1].arg and any(norm(c.func) == "self.pointer" for c in ast.walk(cc) if isinstance(c, ast.Call)), construct="returns-condition")
    users = {}
    for q in ("on_if", "on_while", "on_do", "on_for", "on_ternop"):
        fn = ctx.fn(S, "CSemantics." + q, optional=True)
        if fn is None:
            continue
        users[q] = any(isinstance(c, ast.Call) and norm(c.func) == "self.check_condition" for c in ast.walk(fn))
        narrowing = [c for c in ast.walk(fn) if isinstance(c, ast.Call) and norm(c.func) == "self.coerce" and len(c.args) == 2 and norm(c.args[1]) in ("self.int_type", "self.get_type(['int'])")
                     and norm(c.args[0]) in ("condition", "lhs")]
        ctx.ob("C01.R6", S + ":CSemantics." + q, "%s prepares its controlling expression with check_condition and does not convert it to int itself" % q, users[q] and not narrowing, construct="uses-check-condition:" + q,
               node=narrowing[0] if narrowing else fn)
    ctx.need(len(users) >= 4, "statement handlers with conditions not found")
    cg = ctx.fn("ppci/lang/c/codegenerator.py", "CCodeGenerator.check_non_zero")
    z = [c for c in ast.walk(cg) if isinstance(c, ast.Call) and norm(c.func) == "self.emit_const" and norm(c.args[0]) == "0"]
    cj = [c for c in ast.walk(cg) if isinstance(c, ast.Call) and norm(c.func) == "ir.CJump"]
    ok = len(z) == 1 and norm(z[0].args[1]).endswith(".typ") and len(cj) == 1 and try_const(cj[0].args[1]) == "==" and [norm(a) for a in cj[0].args[3:5]] == ["no_block", "yes_block"]
    ctx.ob("C01.R6", "ppci/lang/c/codegenerator.py:CCodeGenerator.check_non_zero", "the generated test compares with a zero of the expression's own type; equal goes to the no-block", ok, construct="zero-of-own-type")


def _size_types(ctx):
    """R7: C11 6.5.6p9 - the difference of two pointers has the SIGNED type ptrdiff_t; 6.5.3.4p5 - sizeof yields the
    UNSIGNED type size_t; 6.2.5p6 - every unsigned type is distinct from its signed counterpart (also in the IR)."""
    ctx.rule("C01.R7", "pointer - pointer has a signed integer type of pointer width; sizeof has an unsigned one; every unsigned C type maps to an unsigned IR type of its size", floor=8)
    ini = ctx.fn(S, "CSemantics.__init__")
    attr_specs = {}
    for n in ast.walk(ini):
        if isinstance(n, ast.Assign) and len(n.targets) == 1 and isinstance(n.targets[0], ast.Attribute) and norm(n.targets[0].value) == "self":
            attr_specs.setdefault(n.targets[0].attr, []).append(n.value)
    def specs(e, depth=0):
        """list of C type-specifier lists an expression of __init__ can denote, or None"""
        if isinstance(e, ast.Call) and norm(e.func) == "self.get_type" and len(e.args) == 1:
            v = try_const(e.args[0])
            return [tuple(v)] if isinstance(v, (list, tuple)) else None
        if isinstance(e, ast.Attribute) and norm(e.value) == "self" and e.attr in attr_specs and depth < 4:
            out = []
            for v in attr_specs[e.attr]:
                r = specs(v, depth + 1)
                if r is None:
                    return None
                out += r
            return out
        return None
    ob = ctx.fn(S, "CSemantics.on_binop")
    site = S + ":CSemantics.on_binop"
    pp = [n for n in ast.walk(ob) if isinstance(n, ast.If) and norm(n.test) == "rhs.typ.is_pointer" and any(isinstance(a, ast.If) and norm(a.test) == "lhs.typ.is_pointer" for a in _ancestors(n))
          and any(isinstance(a, ast.If) and norm(a.test) in ("op == '-'", 'op == "-"') for a in _ancestors(n))]
    ctx.need(len(pp) == 1, "on_binop: the pointer - pointer branch was not found")
    rt = [a for st in pp[0].body for a in ast.walk(st) if isinstance(a, ast.Assign) and norm(a.targets[0]) == "result_typ"]
    sp = specs(rt[0].value) if len(rt) == 1 else None
    ok = bool(sp) and all("unsigned" not in t and any(k in t for k in ("int", "long")) for t in sp)
    ctx.ob("C01.R7", site, "the result type of pointer - pointer is signed (a negative difference stays negative; it is divided by the element size and compared as a signed number)", ok, construct="ptrdiff-signed",
           node=rt[0] if rt else pp[0], detail="%s = %s" % (norm(rt[0].value) if rt else "?", sp))
    sz = {}
    for n in ast.walk(ini):
        if isinstance(n, ast.If) and "sizeof" in norm(n.test) and "intptr_type" in norm(n.test):
            for br, lab in ((n.body, "int-is-pointer-sized"), (n.orelse, "otherwise")):
                for st in br:
                    for a in ast.walk(st):
                        if isinstance(a, ast.Assign) and isinstance(a.targets[0], ast.Attribute) and len(rt) == 1 and norm(a.targets[0]) == norm(rt[0].value):
                            sz[lab] = specs(a.value)
    ok = sz.get("int-is-pointer-sized") and sz.get("otherwise") and all("long" not in t for t in sz["int-is-pointer-sized"]) and all("long" in t for t in sz["otherwise"])
    ctx.ob("C01.R7", S + ":CSemantics.__init__", "that type is int when an int is as wide as a pointer and long otherwise", bool(ok), construct="ptrdiff-width", detail=str(sz))
    so = [c for q in ("CSemantics.on_sizeof", "CSemantics.on_builtin_offsetof") if (S, q) for c in ast.walk(ctx.fn(S, q)) if isinstance(c, ast.Call) and norm(c.func).startswith("expressions.") and len(c.args) >= 2] if ctx.project.modules[S].defs.get("CSemantics.on_sizeof") else []
    ctx.need(bool(so), "on_sizeof: construction of the Sizeof expression not found")
    sp2 = specs(so[0].args[1])
    ok = bool(sp2) and all("unsigned" in t for t in sp2)
    ctx.ob("C01.R7", S + ":CSemantics.on_sizeof", "the type of a sizeof expression is unsigned (size_t): `sizeof(int) - 5 > 0` is true in C", ok, construct="sizeof-unsigned", node=so[0], detail="%s = %s" % (norm(so[0].args[1]), sp2))
    cg = ctx.fn("ppci/lang/c/codegenerator.py", "CCodeGenerator.__init__")
    tables = {}
    for n in ast.walk(cg):
        if isinstance(n, ast.Assign) and isinstance(n.value, ast.Dict) and isinstance(n.targets[0], ast.Name) and n.targets[0].id in ("int_types", "uint_types"):
            tables[n.targets[0].id] = {try_const(k): norm(v) for k, v in zip(n.value.keys, n.value.values)}
    ctx.need(set(tables) == {"int_types", "uint_types"}, "CCodeGenerator.__init__: int_types / uint_types tables not found")
    for size, t in sorted(tables["int_types"].items()):
        ctx.ob("C01.R7", "ppci/lang/c/codegenerator.py:CCodeGenerator.__init__", "a signed integer of %d bytes maps to ir.i%d" % (size, size * 8), t == "ir.i%d" % (size * 8), construct="int-map:%d" % size, detail=t)
    for size, t in sorted(tables["uint_types"].items()):
        ctx.ob("C01.R7", "ppci/lang/c/codegenerator.py:CCodeGenerator.__init__", "an unsigned integer of %d bytes maps to ir.u%d (unsigned division, shift and comparison are chosen by the IR type)" % (size, size * 8), t == "ir.u%d" % (size * 8), construct="uint-map:%d" % size, detail=t)
    tm = [n for n in ast.walk(cg) if isinstance(n, ast.Assign) and norm(n.targets[0]) == "self.ir_type_map" and isinstance(n.value, ast.Dict)]
    ctx.need(len(tm) == 1, "ir_type_map not found")
    for k, v in zip(tm[0].value.keys, tm[0].value.values):
        name = norm(k).split(".")[-1]
        if not isinstance(v, ast.Tuple) or name in ("FLOAT", "DOUBLE", "LONGDOUBLE", "VA_LIST"):
            continue
        t = norm(v.elts[0])
        uns = name.startswith("U")
        ok = ("uint_types[" in t) if (uns and "[" in t) else ("int_types[" in t and "uint_types[" not in t) if "[" in t else (t.startswith("ir.u") == uns)
        ctx.ob("C01.R7", "ppci/lang/c/codegenerator.py:CCodeGenerator.__init__", "BasicType.%s takes an %s IR type" % (name, "unsigned" if uns else "signed"), ok, construct="signedness:" + name, detail=t)


CG = "ppci/lang/c/codegenerator.py"


def _loop_events(fn):
    """straight-line walk of a loop lowering: (kind, current block, arguments, node); the current block is the last
    set_block argument, unknown ("?") after a nested statement was generated (it may have opened blocks of its own)"""
    ev = []
    def walk(body, cur):
        for st in body:
            if isinstance(st, ast.If):
                a = walk(st.body, cur)
                b = walk(st.orelse, cur)
                cur = a if a == b else "?"
                continue
            calls = [c for c in ast.walk(st) if isinstance(c, ast.Call)]
            for c in calls:
                f = norm(c.func)
                args = [norm(a) for a in c.args]
                if f == "self.builder.set_block" and args:
                    ev.append(("set", cur, args, c))
                    cur = args[0]
                elif f == "self.builder.emit_jump" and args:
                    ev.append(("jump", cur, args, c))
                elif f == "self.gen_condition" and len(args) == 3:
                    ev.append(("cond", cur, args, c))
                elif f == "self.gen_stmt" and args:
                    ev.append(("stmt", cur, args, c))
                    cur = "?"
                elif f in ("self.gen_expr", "self.gen_local_variable") and args:
                    ev.append(("expr", cur, args, c))
                elif f in ("self.break_block_stack.append", "self.continue_block_stack.append") and args:
                    ev.append(("push-" + f.split(".")[1].split("_")[0], cur, args, c))
                elif f in ("self.break_block_stack.pop", "self.continue_block_stack.pop"):
                    ev.append(("pop-" + f.split(".")[1].split("_")[0], cur, args, c))
        return cur
    walk(fn.body, "<entry>")
    return ev


def _loop_control(ctx):
    ctx.rule("C01.R8", "loops: `continue` goes to the block in which the loop's next step is generated (the condition of while / do-while, the iteration expression of for), `break` to the block the code after the loop continues in, which is also the false target of the condition; the body is generated in the condition's true target and falls through to the next step; targets are pushed before the body and popped after it", floor=30)
    for q, step in (("CCodeGenerator.gen_while", "stmt.condition"), ("CCodeGenerator.gen_do_while", "stmt.condition"), ("CCodeGenerator.gen_for", "stmt.post")):
        fn = ctx.fn(CG, q)
        site = CG + ":" + q
        ev = _loop_events(fn)
        fresh = {norm(n.targets[0]) for n in ast.walk(fn) if isinstance(n, ast.Assign) and isinstance(n.value, ast.Call) and norm(n.value.func) == "self.builder.new_block" and isinstance(n.targets[0], ast.Name)}
        idx = {k: [i for i, e in enumerate(ev) if e[0] == k] for k in ("set", "jump", "cond", "stmt", "expr", "push-break", "push-continue", "pop-break", "pop-continue")}
        body = [i for i in idx["stmt"] if ev[i][2][0] == "stmt.body"]
        cond = [i for i in idx["cond"] if ev[i][2][0] == "stmt.condition"]
        ctx.need(len(body) == 1 and len(cond) == 1, "%s: generation of the body / the condition not found" % q)
        bi, ci = body[0], cond[0]
        if step == "stmt.post":
            st = [i for i in idx["expr"] if ev[i][2][0] == "stmt.post"]
            ctx.need(len(st) == 1, "%s: generation of the iteration expression not found" % q)
            si = st[0]
        else:
            si = ci
        pc, pb = idx["push-continue"], idx["push-break"]
        ok = len(pc) == 1 and len(pb) == 1 and ev[pc[0]][2][0] in fresh and ev[pb[0]][2][0] in fresh and ev[pc[0]][2][0] != ev[pb[0]][2][0]
        ctx.ob("C01.R8", site, "one fresh block each is pushed as the continue and as the break target", ok, construct="targets-pushed")
        if not ok:
            continue
        C, B = ev[pc[0]][2][0], ev[pb[0]][2][0]
        ctx.ob("C01.R8", site, "`continue` target %s is the block in which %s is generated (a continue re-tests the condition / runs the iteration expression, C11 6.8.6.2)" % (C, step), ev[si][1] == C, construct="continue-target", node=ev[si][3], detail="%s is generated in block %s" % (step, ev[si][1]))
        T, Fl = ev[ci][2][1], ev[ci][2][2]
        sets = idx["set"]
        ctx.ob("C01.R8", site, "`break` target %s is the condition's false target and the block the code after the loop continues in" % B, Fl == B and bool(sets) and ev[sets[-1]][2][0] == B and sets[-1] > max(bi, ci, si), construct="break-target", node=ev[ci][3], detail="false target %s, last block %s" % (Fl, ev[sets[-1]][2][0] if sets else None))
        ctx.ob("C01.R8", site, "the body is generated in the condition's true target %s" % T, ev[bi][1] == T and T in fresh and T not in (B,), construct="body-block", node=ev[bi][3], detail="body in %s" % ev[bi][1])
        # what follows the body: a jump to the block of the next step, then that block is opened (or the step follows directly)
        nxt = [i for i in range(bi + 1, len(ev)) if ev[i][0] in ("jump", "cond", "set", "expr")]
        want = C
        ok = bool(nxt) and ev[nxt[0]][0] == "jump" and ev[nxt[0]][2][0] == want
        ctx.ob("C01.R8", site, "the end of the body falls through to the next step (jump to %s)" % want, ok, construct="body-falls-through", node=ev[nxt[0]][3] if nxt else fn, detail=str(ev[nxt[0]][:3]) if nxt else "")
        # every set_block follows a terminator of the block before
        for i in sets:
            prev = ev[i - 1] if i else None
            ok = prev is not None and prev[0] in ("jump", "cond")
            ctx.ob("C01.R8", site, "block %s is opened right after the previous block was terminated" % ev[i][2][0], ok, construct="terminated-before:" + ev[i][2][0], node=ev[i][3], detail=str(prev[:3]) if prev else "")
        # entry: the first jump goes to the block that runs first (condition for while/for, body for do-while)
        first = T if q.endswith("do_while") else ev[ci][1]
        j0 = idx["jump"][0] if idx["jump"] else None
        ctx.ob("C01.R8", site, "the loop is entered at %s" % first, j0 is not None and ev[j0][2][0] == first and (not sets or j0 < sets[0]), construct="entry", detail=str(ev[j0][:3]) if j0 is not None else "")
        if step == "stmt.post":
            after = [i for i in range(si + 1, len(ev)) if ev[i][0] in ("jump", "cond", "set")]
            ok = bool(after) and ev[after[0]][0] == "jump" and ev[after[0]][2][0] == ev[ci][1]
            ctx.ob("C01.R8", site, "after the iteration expression the condition is tested again (jump to %s)" % ev[ci][1], ok, construct="step-to-condition")
            guard = [a for a in _ancestors(ev[ci][3]) if isinstance(a, ast.If) and norm(a.test) == "stmt.condition"]
            alt = [c for g in guard for st2 in g.orelse for c in ast.walk(st2) if isinstance(c, ast.Call) and norm(c.func) == "self.builder.emit_jump"]
            ctx.ob("C01.R8", site, "a missing condition means true: the body is entered unconditionally", len(guard) == 1 and len(alt) == 1 and norm(alt[0].args[0]) == T, construct="no-condition-is-true")
        elif q.endswith("gen_while"):
            pass
        ok = pc[0] < bi and pb[0] < bi and len(idx["pop-continue"]) == 1 and len(idx["pop-break"]) == 1 and idx["pop-continue"][0] > bi and idx["pop-break"][0] > bi
        ctx.ob("C01.R8", site, "both targets are pushed before the body is generated and popped exactly once after it", ok, construct="push-pop")
    for q, stack in (("CCodeGenerator.gen_continue", "self.continue_block_stack"), ("CCodeGenerator.gen_break", "self.break_block_stack")):
        fn = ctx.fn(CG, q)
        j = [c for c in ast.walk(fn) if isinstance(c, ast.Call) and norm(c.func) == "self.builder.emit_jump"]
        env = {norm(n.targets[0]): norm(n.value) for n in ast.walk(fn) if isinstance(n, ast.Assign)}
        ok = len(j) == 1 and env.get(norm(j[0].args[0]), norm(j[0].args[0])) == stack + "[-1]"
        ctx.ob("C01.R8", CG + ":" + q, "jumps to the innermost target (%s[-1])" % stack, ok, construct="innermost", detail=str(env))
    sw = ctx.fn(CG, "CCodeGenerator.gen_switch")
    pushes = [norm(c.func) for c in ast.walk(sw) if isinstance(c, ast.Call) and norm(c.func).endswith("_block_stack.append")]
    pops = [norm(c.func) for c in ast.walk(sw) if isinstance(c, ast.Call) and norm(c.func).endswith("_block_stack.pop")]
    ctx.ob("C01.R8", CG + ":CCodeGenerator.gen_switch", "a switch is a break target but not a continue target (continue inside a switch belongs to the enclosing loop)", pushes == ["self.break_block_stack.append"] and pops == ["self.break_block_stack.pop"], construct="switch-break-only", detail="%s / %s" % (pushes, pops))


INI = "ppci/lang/c/init.py"


def _brace_elision(ctx):
    """C01.R9 (C11 6.7.9 p17-22).  With braces elided, one initializer list fills nested aggregates in order; when a
    sub-aggregate that was entered implicitly is full the cursor returns to the parent and advances there - and the
    parent may be full at that very moment too, so this repeats until a level with room (or an explicit level) is
    current.  `int g[2][2][2] = {1,2,3,4,5,6,7,8}` needs two levels left after the 4th element."""
    from .. import minieval
    ctx.rule("C01.R9", "initializer cursor: after an element every finished implicitly entered level is left, repeatedly, and the parent advanced each time; unwind drops all implicit levels; a struct level is full after its last field, an array level after `size` elements (never when the size is open), a union level after one member; go_next advances by exactly one", floor=8)
    ne = ctx.fn(INI, "InitCursor.next_element")
    site = INI + ":InitCursor.next_element"
    body = [st for st in ne.body if not (isinstance(st, ast.Expr) and isinstance(st.value, ast.Constant))]
    ok = bool(body) and isinstance(body[0], ast.Expr) and norm(body[0].value) == "self.level.go_next()"
    ctx.ob("C01.R9", site, "the current level is advanced first", ok, construct="advance-first")
    leaves = [c for c in ast.walk(ne) if isinstance(c, ast.Call) and norm(c.func) in ("self.leave_compound", "self._stack.pop")]
    ctx.need(len(leaves) == 1, "next_element: the call that leaves a level was not found")
    loops = [a for a in _ancestors(leaves[0]) if isinstance(a, ast.While)]
    rec = [c for a in _ancestors(leaves[0]) if isinstance(a, ast.If) for c in ast.walk(a) if isinstance(c, ast.Call) and norm(c.func) == "self.next_element"]
    holder = loops[0] if loops else next((a for a in _ancestors(leaves[0]) if isinstance(a, ast.If)), None)
    test = set()
    if holder is not None:
        t = holder.test
        test = {norm(v) for v in (t.values if isinstance(t, ast.BoolOp) and isinstance(t.op, ast.And) else [t])}
    ctx.ob("C01.R9", site, "a level is left only when it is full and was entered implicitly", test == {"self.level.at_end()", "self.level.implicit"}, construct="leave-guard", node=leaves[0], detail="guard: %s" % sorted(test))
    ctx.ob("C01.R9", site, "leaving repeats until the current level has room or is explicit (a loop, or a recursive call that advances the parent)", bool(loops) or bool(rec), construct="leave-repeats", node=leaves[0],
           detail="enclosing while: %d, recursive call: %d" % (len(loops), len(rec)))
    if holder is not None:
        seq = [norm(st.value) for st in holder.body if isinstance(st, ast.Expr)]
        ok = seq[:2] == ["self.leave_compound()", "self.level.go_next()"] or seq[:2] == ["self.leave_compound()", "self.next_element()"] or seq[:2] == ["self._stack.pop()", "self.level.go_next()"]
        ctx.ob("C01.R9", site, "after a level is left the parent advances past the sub-aggregate that was just completed", ok, construct="parent-advances", detail=str(seq))
    uw = ctx.fn(INI, "InitCursor.unwind")
    wl = [n for n in ast.walk(uw) if isinstance(n, ast.While) and norm(n.test) == "self.level.implicit" and any(isinstance(c, ast.Call) and norm(c.func) in ("self._stack.pop", "self.leave_compound") for c in ast.walk(n))]
    ctx.ob("C01.R9", INI + ":InitCursor.unwind", "unwind leaves every implicit level up to the innermost explicit one", len(wl) == 1, construct="unwind-loop")
    def run_method(q, env, args=()):
        fn = ctx.fn(INI, q)
        return minieval.call(fn, list(args), dict(env))
    try:
        bad = []
        for size in (None, 0, 1, 2, 3):
            for pos in range(0, 5):
                got = run_method("ArrayInitLevel.at_end", {"self.size": size, "self.pos": pos})
                if bool(got) != (size is not None and pos >= size):
                    bad.append((size, pos, got))
        ctx.ob("C01.R9", INI + ":ArrayInitLevel.at_end", "an array level is full exactly when `size` elements were passed; never when the size is open", not bad, construct="array-at-end", detail="(size, pos, answer): %s" % bad[:4])
        bad = []
        for nf in range(0, 4):
            for pos in range(0, 5):
                got = run_method("StructInitLevel.at_end", {"self.typ.fields": tuple(range(nf)), "self.pos": pos})
                if bool(got) != (pos >= nf):
                    bad.append((nf, pos, got))
        ctx.ob("C01.R9", INI + ":StructInitLevel.at_end", "a struct level is full exactly after its last field", not bad, construct="struct-at-end", detail="(fields, pos, answer): %s" % bad[:4])
    except minieval.Undecidable as e:
        ctx.undecided("C01.R9", INI, "at_end: %s" % e)
    for cls in ("ArrayInitLevel", "StructInitLevel"):
        gn = ctx.fn(INI, cls + ".go_next")
        st = [s for s in gn.body if not (isinstance(s, ast.Expr) and isinstance(s.value, ast.Constant))]
        ok = len(st) == 1 and ((isinstance(st[0], ast.AugAssign) and norm(st[0].target) == "self.pos" and isinstance(st[0].op, ast.Add) and norm(st[0].value) == "1")
                               or (isinstance(st[0], ast.Assign) and norm(st[0].targets[0]) == "self.pos" and norm(st[0].value) in ("self.pos + 1", "1 + self.pos")))
        ctx.ob("C01.R9", "%s:%s.go_next" % (INI, cls), "go_next advances the position by exactly one", ok, construct="go-next:" + cls)
    un = ctx.fn(INI, "UnionInitLevel.go_next")
    ok = any(isinstance(s, ast.Assign) and norm(s.targets[0]) == "self._end" and norm(s.value) == "True" for s in un.body)
    ctx.ob("C01.R9", INI + ":UnionInitLevel.go_next", "a union level is full after one member", ok and norm(ctx.fn(INI, "UnionInitLevel.at_end").body[-1]) == "return self._end", construct="union-one-member")


def _ancestors(n):
    out = []
    n = getattr(n, "_parent", None)
    while n is not None:
        out.append(n)
        n = getattr(n, "_parent", None)
    return out
