"""C21 - wasm binary codec: opcode table injective, every operand kind has a
reader exactly when it has a writer and the two use inverse primitives,
definition classes dispatched on both sides, section ids per the spec,
primitive formats agree.  Text round trip and reference acceptance are not
decided."""
import ast

from ..core import norm, walk_no_nested, dict_items, try_const, attr_chain, calls_in, last_name, const_eval, NotConst

WR = "ppci/wasm/binary/writer.py"
RD = "ppci/wasm/binary/reader.py"
OP = "ppci/wasm/opcodes.py"
CO = "ppci/wasm/components.py"
SPEC_SECTIONS = {"custom": 0, "type": 1, "import": 2, "function": 3, "table": 4, "memory": 5, "global": 6, "export": 7, "start": 8, "elem": 9,
                 "code": 10, "data": 11, "datacount": 12}
# writer primitive -> reader primitive that inverts it
INVERSE = {"write_type": "read_type", "write_vu32": "read_uint", "write_ref": "read_space_ref", "write_vs32": "read_int", "write_vs64": "read_int",
           "write_f32": "read_f32", "write_f64": "read_f64", "write": None}
SPECIAL = {"br_table", "result_types"}
# one opcode name that legitimately has two encodings (reviewed): select 0x1B / select t* 0x1C
TWO_ENCODINGS = {"select"}


def _module_dict(project, rel, name):
    mod = project.module(rel)
    for s in mod.tree.body:
        if isinstance(s, ast.Assign) and isinstance(s.targets[0], ast.Name) and s.targets[0].id == name:
            return s.value
    return None


def run(ctx):
    ctx.rule("C21.R1", "instruction table: every opcode name has one binary code and no two names share a code", floor=400)
    ctx.rule("C21.R2", "an operand kind used by the instruction table has a binary reader exactly when it has a writer, and the pair are inverse primitives", floor=15)
    ctx.rule("C21.R3", "every definition class is dispatched by the binary writer and read by the reader for its section; section ids follow the spec", floor=20)
    ctx.rule("C21.R4", "primitive encoders and decoders use the same fixed formats", floor=4)
    project = ctx.project
    tbl = _module_dict(project, OP, "instruction_table")
    ctx.need(isinstance(tbl, ast.List), "opcodes.instruction_table list not found")
    ctx.saw("tables", "opcodes.instruction_table")
    names, codes, kinds = {}, {}, {}
    for e in tbl.elts:
        if not isinstance(e, ast.Tuple) or len(e.elts) < 2:
            ctx.undecided("C21.R1", OP + ":instruction_table", "row not a tuple: %s" % norm(e)[:40])
            continue
        nm, code = try_const(e.elts[0]), try_const(e.elts[1])
        names.setdefault(nm, []).append(code)
        codes.setdefault(code, []).append(nm)
        if len(e.elts) > 2 and isinstance(e.elts[2], ast.Tuple):
            for o in e.elts[2].elts:
                k = attr_chain(o) or try_const(o)
                kinds.setdefault(k, []).append(nm)
    for nm, cs in names.items():
        ok = len(cs) == 1 or nm in TWO_ENCODINGS
        ctx.ob("C21.R1", OP + ":instruction_table", "`%s` has one encoding" % nm, ok, construct="name:%s" % nm, detail=str(cs))
    dup = {c: n for c, n in codes.items() if len(n) > 1}
    ctx.ob("C21.R1", OP + ":instruction_table", "no binary code is shared by two instructions", not dup, construct="codes-injective", detail=str(dup)[:200])
    # OPCODES / REVERZ are derived from the table in both directions
    mod = project.module(OP)
    d = {s.targets[0].id: norm(s.value) for s in mod.tree.body if isinstance(s, ast.Assign) and isinstance(s.targets[0], ast.Name) and s.targets[0].id in ("OPCODES", "REVERZ", "OPERANDS")}
    ctx.ob("C21.R1", OP + ":OPCODES", "OPCODES maps name -> code and REVERZ code -> name over the same table", d.get("OPCODES") == "{r[0]: r[1] for r in instruction_table}" and d.get("REVERZ") == "{r[1]: r[0] for r in instruction_table}", construct="derived", detail=str(d))

    # R2
    def fmt_table(rel, name):
        v = _module_dict(project, rel, name)
        ctx.need(isinstance(v, ast.Dict), "%s.%s not found" % (rel, name))
        out = {}
        for k, lam in dict_items(v):
            prim = None
            arg = None
            if isinstance(lam, ast.Lambda) and isinstance(lam.body, ast.Call):
                prim = last_name(lam.body)
                if lam.body.args and isinstance(lam.body.args[0], ast.Constant):
                    arg = lam.body.args[0].value
            out[attr_chain(k)] = (prim, arg, lam)
        return out
    wfm, rfm = fmt_table(WR, "wfm"), fmt_table(RD, "rfm")
    wi, ri = ctx.fn(WR, "BinaryFileWriter.write_instruction"), ctx.fn(RD, "BinaryFileReader.read_instruction")
    w_special = {try_const(c.comparators[0]) for c in ast.walk(wi) if isinstance(c, ast.Compare) and norm(c.left) == "o" and isinstance(c.ops[0], ast.Eq)}
    r_special = {try_const(c.comparators[0]) for c in ast.walk(ri) if isinstance(c, ast.Compare) and norm(c.left) == "operand" and isinstance(c.ops[0], ast.Eq)}
    for k in sorted(kinds, key=str):
        site = OP + ":instruction_table"
        if k in SPECIAL:
            ctx.ob("C21.R2", site, "operand kind %r is handled by both write_instruction and read_instruction" % k, k in w_special and k in r_special, construct="special:%s" % k)
            continue
        hw, hr = k in wfm, k in rfm
        ctx.ob("C21.R2", site, "operand kind %s (used by %s…) is readable iff writable" % (k, kinds[k][0]), hw == hr, construct="both-sides:%s" % k, detail="writer:%s reader:%s" % (hw, hr))
        if hw and hr:
            wp, rp = wfm[k][0], rfm[k][0]
            inv = INVERSE.get(wp, "?")
            ok = inv == rp or (wp == "write" and rp in ("read_byte", "read_exactly"))
            ctx.ob("C21.R2", site, "operand kind %s: %s is inverted by %s" % (k, wp, rp), ok, construct="inverse:%s" % k, detail="%s / %s" % (wp, rp))
            if rp == "read_space_ref":
                want = k.split(".")[-1].replace("IDX", "").lower()
                ctx.ob("C21.R2", site, "operand kind %s reads an index of the %s space" % (k, want), rfm[k][1] == want, construct="space:%s" % k, detail=str(rfm[k][1]))

    # R3
    wd = ctx.fn(WR, "BinaryFileWriter.write_definition")
    wmap = {}
    for n in walk_no_nested(wd):
        if isinstance(n, ast.Dict):
            for k, v in dict_items(n):
                wmap[(attr_chain(k) or "").split(".")[-1]] = norm(v).split(".")[-1]
    croot = project.cls(CO, "Definition")
    defs = [c for c in project.subclasses(croot, strict=True) if not project.subclasses(c, strict=True) and c._module.rel == CO]
    ctx.need(len(defs) >= 10, "components.Definition subclasses not found")
    wcls = ctx.cls(WR, "BinaryFileWriter")
    rcls = ctx.cls(RD, "BinaryFileReader")
    wm = {m.name for m in wcls.body if isinstance(m, ast.FunctionDef)}
    rm = {m.name for m in rcls.body if isinstance(m, ast.FunctionDef)}
    for c in defs:
        ctx.ob("C21.R3", WR + ":BinaryFileWriter.write_definition", "definition class %s has a writer" % c.name, c.name in wmap and wmap[c.name] in wm, construct="writes:" + c.name)
        meth = wmap.get(c.name, "write_?_definition").replace("write_", "read_")
        ctx.ob("C21.R3", RD + ":BinaryFileReader", "definition class %s has the mirrored reader %s" % (c.name, meth), meth in rm, construct="reads:" + c.name)
    sec = _module_dict(project, CO, "SECTION_IDS")
    ids = {try_const(k): try_const(v) for k, v in dict_items(sec)} if isinstance(sec, ast.Dict) else {}
    for k, v in SPEC_SECTIONS.items():
        ctx.ob("C21.R3", CO + ":SECTION_IDS", "section %s has id %d" % (k, v), ids.get(k) == v, construct="section:" + k, detail=str(ids.get(k)))
    order = [k for k in ids if k not in ("custom", "func", "code")]
    ctx.ob("C21.R3", CO + ":SECTION_IDS", "sections are listed (and therefore written) in increasing id order", [ids[k] for k in order if k != "datacount"] == sorted(ids[k] for k in order if k != "datacount"), construct="section-order")

    # R4 primitives
    def fmts(cls, meth, call):
        fn = [m for m in cls.body if isinstance(m, ast.FunctionDef) and m.name == meth]
        if not fn:
            return None
        for c in calls_in(fn[0], call):
            for a in c.args:
                if isinstance(a, ast.Constant) and isinstance(a.value, str):
                    return a.value.lstrip("<")
        return None
    for w, r in (("write_f32", "read_f32"), ("write_f64", "read_f64"), ("write_u32", "read_u32")):
        fw, fr = fmts(wcls, w, "write_fmt"), fmts(rcls, r, "read_fmt")
        ctx.ob("C21.R4", WR + ":BinaryFileWriter." + w, "%s and %s use the same struct code" % (w, r), fw is not None and fw == fr, construct="fmt", detail="%s / %s" % (fw, fr))
    hw = ctx.fn(WR, "BinaryFileWriter.write_header")
    hr = ctx.fn(RD, "BinaryFileReader.read_header")
    magic_w = [c.value for c in ast.walk(hw) if isinstance(c, ast.Constant) and isinstance(c.value, bytes)]
    magic_r = [c.value for c in ast.walk(hr) if isinstance(c, ast.Constant) and isinstance(c.value, bytes)]
    ctx.ob("C21.R4", WR + ":BinaryFileWriter.write_header", "the magic written is the magic checked and is \\0asm", magic_w == [b"\x00asm"] and b"\x00asm" in magic_r, construct="magic", detail="%s / %s" % (magic_w, magic_r))
    ws, rs = ctx.fn(WR, "BinaryFileWriter.write_str"), ctx.fn(RD, "BinaryFileReader.read_str")
    ctx.ob("C21.R4", WR + ":BinaryFileWriter.write_str", "strings are utf-8 with a length prefix on both sides", "encode('utf-8')" in norm(ws) and "decode('utf-8')" in norm(rs) and "write_vu32(len(bb))" in norm(ws), construct="str")
    _optional_presence(ctx)


INT_SINKS = ("write_vu32", "write_vs32", "write_vs64", "write_vu7", "write_vu1", "write_u32")


def _int_uses(stmts, xt):
    """does one of the statements hand `xt` to an integer encoder / integer format"""
    for s in stmts:
        for n in ast.walk(s):
            if isinstance(n, ast.Call) and last_name(n) in INT_SINKS and any(norm(a) == xt for a in n.args):
                return True
            if isinstance(n, ast.FormattedValue) and norm(n.value) == xt and n.format_spec is not None and "d" in norm(n.format_spec):
                return True
    return False


def optional_presence_sites(fn):
    """(test node, operand text, kind) for every branch whose condition decides whether an integer is written:
    kind 'is-none' (X is None / X is not None) or 'truthy' (X / not X)"""
    out = []
    for n in ast.walk(fn):
        if not isinstance(n, ast.If):
            continue
        t = n.test
        neg = False
        while isinstance(t, ast.UnaryOp) and isinstance(t.op, ast.Not):
            t, neg = t.operand, not neg
        if isinstance(t, ast.Compare) and len(t.ops) == 1 and isinstance(t.ops[0], (ast.Is, ast.IsNot)) and norm(t.comparators[0]) == "None":
            xt = norm(t.left)
            if _int_uses(n.body + n.orelse, xt):
                out.append((n, xt, "is-none"))
        elif isinstance(t, (ast.Name, ast.Attribute)):
            xt = norm(t)
            if _int_uses(n.body + n.orelse, xt):
                out.append((n, xt, "truthy"))
    return out


def _optional_presence(ctx):
    ctx.rule("C21.R5", "an optional integer field (limits maximum) is present iff it `is not None`: its presence is never decided by truthiness, which would drop a declared maximum of 0", floor=3)
    ctl = ast.parse("def w(self, min, max):\n    if max:\n        self.write_vu32(max)\n    if self.m.max is not None:\n        self.emit(f'{self.m.max:d}')\n")
    ctx.need(sorted(k for _, _, k in optional_presence_sites(ctl)) == ["is-none", "truthy"], "C21.R5 positive control lost")
    n = 0
    sites = []
    for rel in (WR, "ppci/wasm/text/writer.py", CO):
        mod = ctx.project.module(rel)
        for fn in [f for f in ast.walk(mod.tree) if isinstance(f, ast.FunctionDef)]:
            for node, xt, kind in optional_presence_sites(fn):
                sites.append((rel, fn, node, xt, kind))
    # which integer fields are optional (None = absent): those tested against None somewhere, and constructor parameters defaulting to None
    optional = {xt.split(".")[-1] for _, _, _, xt, kind in sites if kind == "is-none"}
    for c in ast.walk(ctx.project.module(CO).tree):
        if isinstance(c, ast.FunctionDef) and c.name == "_from_args":
            for a, d in zip(reversed(c.args.args), reversed(c.args.defaults)):
                if isinstance(d, ast.Constant) and d.value is None:
                    optional.add(a.arg)
    ctx.extra["optional_int_fields"] = sorted(optional)
    for rel, fn, node, xt, kind in sites:
        if kind == "truthy" and xt.split(".")[-1] not in optional:
            continue   # an integer whose absence means 0 (e.g. a memarg offset): omitting 0 loses nothing
        n += 1
        ctx.ob("C21.R5", "%s:%s" % (rel, fn.name), "the presence of the optional `%s` is tested with `is None` before it is written as an integer" % xt, kind == "is-none", construct="presence:%s:%s" % (fn.name, xt), node=node, detail=norm(node.test))
    ctx.need(n >= 3, "optional integer fields of the wasm writers not found (%d)" % n)
    rl = ctx.fn(RD, "BinaryFileReader.read_limits")
    txt = norm(rl)
    ok = "maximum = None" in txt and any(isinstance(r, ast.Return) and isinstance(r.value, ast.Tuple) and len(r.value.elts) == 2 for r in ast.walk(rl))
    ctx.ob("C21.R5", RD + ":BinaryFileReader.read_limits", "the reader yields None exactly when the flag byte says no maximum follows", ok, construct="reader-none")
    _labels(ctx)


def _labels(ctx):
    """R6: branch labels in the text format resolve to the innermost enclosing block of that name"""
    from .. import sym
    P = "ppci/wasm/text/parser.py"
    ctx.rule("C21.R6", "text format: `br $l` resolves to the INNERMOST enclosing block labelled $l (the depth is counted from the top of the block stack); blocks are pushed on entry and popped on `end`", floor=3)
    mr = ctx.fn(P, "WatParser._make_ref")
    site = P + ":WatParser._make_ref"
    asg = [n for n in ast.walk(mr) if isinstance(n, ast.Assign) and norm(n.targets[0]).endswith(".index") and "block_stack" in norm(sym.deep_inline(n.value, sym.single_assign_env(mr)))]
    ctx.need(len(asg) == 1, "_make_ref: label depth computation not found")
    e = sym.deep_inline(asg[0].value, sym.single_assign_env(mr))
    t = " ".join(norm(e).split())
    innermost = ("list(reversed(self.block_stack)).index(value)", "self.block_stack[::-1].index(value)")
    outermost = any(isinstance(c, ast.Call) and norm(c.func) == "self.block_stack.index" for c in ast.walk(e))
    if t in innermost:
        ctx.ob("C21.R6", site, "the label depth is the position of the name counted from the top of the block stack (innermost binding wins)", True, construct="innermost-label")
    elif outermost:
        ctx.ob("C21.R6", site, "the label depth is the position of the name counted from the top of the block stack (innermost binding wins)", False, construct="innermost-label", node=asg[0],
               detail="%s searches from the bottom: an inner block re-using the name is skipped" % t)
    else:
        ctx.undecided("C21.R6", site, "label depth computed by `%s`: search direction not recognised" % t)
    cls = ctx.cls(P, "WatParser")
    pushes = [c for c in ast.walk(cls) if isinstance(c, ast.Call) and norm(c.func) == "self.block_stack.append"]
    pops = [c for c in ast.walk(cls) if isinstance(c, ast.Call) and norm(c.func) == "self.block_stack.pop"]
    ctx.ob("C21.R6", P + ":WatParser", "every block/loop/if pushes its label and every end pops one (%d pushes, %d pops)" % (len(pushes), len(pops)), len(pushes) >= 2 and len(pops) >= len(pushes), construct="push-pop")
    ctx.ob("C21.R6", P + ":WatParser", "labels are popped from the top of the stack", all(not c.args for c in pops), construct="pop-top")
    from .c23 import component_arity
    ctx.rule("C21.R7", "the binary reader and the text parser construct every definition with the argument shape of its class", floor=20)
    n = component_arity(ctx, "C21.R7", [RD, "ppci/wasm/text/parser.py"])
    ctx.need(n >= 20, "component constructions in reader/parser not found (%d)" % n)
    _locals_order(ctx)


def _locals_order(ctx):
    """R8: a function's locals are stored as a vector of (count, type) groups; local index k is the k-th element of
    the concatenation.  The writer may only merge NEIGHBOURING locals of one type, the reader expands groups in order."""
    from ..core import last_name
    ctx.rule("C21.R8", "function locals: the writer groups only adjacent locals of equal type (run-length, in declaration order) and the reader expands the groups in order, so every local keeps its index and type", floor=6)
    fn = ctx.fn(WR, "BinaryFileWriter.write_func_definition")
    site = WR + ":BinaryFileWriter.write_func_definition"
    loops = [l for l in walk_no_nested(fn) if isinstance(l, ast.For) and norm(l.iter).endswith(".locals")]
    ctx.need(len(loops) == 1, "write_func_definition: loop over func.locals not found")
    loop = loops[0]
    ty = [norm(e) for e in (loop.target.elts if isinstance(loop.target, ast.Tuple) else [loop.target])][-1]
    # the group container: a list created empty before the loop
    apps = [c for c in ast.walk(loop) if isinstance(c, ast.Call) and last_name(c) == "append" and isinstance(c.func, ast.Attribute)]
    ok = len(apps) == 1 and isinstance(apps[0].func.value, ast.Name)
    ctx.ob("C21.R8", site, "groups are collected by appending to one list (an ordered sequence of groups: a mapping keyed by type would merge locals that are not neighbours)", ok, construct="groups-are-a-list",
           detail="; ".join(norm(c)[:60] for c in apps) or "no append in the loop")
    if not ok:
        return
    G = apps[0].func.value.id
    init = [n for n in walk_no_nested(fn) if isinstance(n, ast.Assign) and norm(n.targets[0]) == G]
    ctx.ob("C21.R8", site, "the group list starts empty", len(init) == 1 and isinstance(init[0].value, ast.List) and not init[0].value.elts and init[0].lineno < loop.lineno, construct="groups-start-empty")
    new = apps[0].args[0] if apps[0].args else None
    ok = isinstance(new, ast.Tuple) and len(new.elts) == 2 and try_const(new.elts[0]) == 1 and norm(new.elts[1]) == ty
    ctx.ob("C21.R8", site, "a local that does not continue the current run opens a new group (1, its type) at the end", ok, construct="new-group", detail=norm(new) if new is not None else "")
    # every other store to the list is to its LAST element, under a test that compares the LAST group's type with this local's type
    stores = [n for n in ast.walk(loop) if isinstance(n, (ast.Assign, ast.AugAssign)) for t in (n.targets if isinstance(n, ast.Assign) else [n.target]) if isinstance(t, ast.Subscript) and norm(t.value).startswith(G)]
    from ..flow import controlling
    bad = []
    for n in stores:
        t = n.targets[0] if isinstance(n, ast.Assign) else n.target
        last = norm(t).startswith(G + "[-1]")
        conds = [(" ".join(norm(c).split()), pol) for c, pol, _ in controlling(n, fn)]
        guarded = any(pol is True and ("%s[-1][1] == %s" % (G, ty) in c or "%s == %s[-1][1]" % (ty, G) in c) for c, pol in conds)
        keeps_type = isinstance(n, ast.AugAssign) or (isinstance(n.value, ast.Tuple) and len(n.value.elts) == 2 and norm(n.value.elts[1]) in (ty, "%s[-1][1]" % G))
        plus_one = isinstance(n, ast.Assign) and isinstance(n.value, ast.Tuple) and " ".join(norm(n.value.elts[0]).split()) in ("%s[-1][0] + 1" % G, "1 + %s[-1][0]" % G)
        if not (last and guarded and keeps_type and plus_one):
            bad.append(n)
    ctx.ob("C21.R8", site, "a run is extended only at the LAST group, only when that group has this local's type, by exactly one", len(stores) == 1 and not bad, construct="extend-last-run-only", node=bad[0] if bad else None,
           detail="%d store(s) into the group list" % len(stores))
    out = [l for l in walk_no_nested(fn) if isinstance(l, ast.For) and norm(l.iter) == G]
    ok = len(out) == 1 and isinstance(out[0].target, ast.Tuple) and len(out[0].target.elts) == 2
    if ok:
        c, t = (norm(e) for e in out[0].target.elts)
        calls = [x for x in ast.walk(out[0]) if isinstance(x, ast.Call) and last_name(x) in ("write_vu32", "write_type")]
        ok = [(last_name(x), norm(x.args[0])) for x in sorted(calls, key=lambda x: (x.lineno, x.col_offset))] == [("write_vu32", c), ("write_type", t)]
        cnt = [x for x in walk_no_nested(fn) if isinstance(x, ast.Call) and last_name(x) == "write_vu32" and norm(x.args[0]) == "len(%s)" % G]
        ok = ok and len(cnt) == 1 and cnt[0].lineno < out[0].lineno
    ctx.ob("C21.R8", site, "the groups are written in list order, preceded by their number: count then type", ok, construct="groups-written-in-order")
    rd = ctx.fn(RD, "BinaryFileReader.read_func_definition")
    site = RD + ":BinaryFileReader.read_func_definition"
    ext = [c for c in ast.walk(rd) if isinstance(c, ast.Call) and last_name(c) == "extend"]
    ok = len(ext) == 1
    if ok:
        a = ext[0].args[0]
        ok = isinstance(a, ast.BinOp) and isinstance(a.op, ast.Mult)
        loopr = [l for l in ast.walk(rd) if isinstance(l, ast.For) and any(x is ext[0] for x in ast.walk(l))]
        reads = [n for l in loopr[:1] for n in l.body if isinstance(n, ast.Assign) and isinstance(n.value, ast.Call)]
        order = [last_name(n.value) for n in reads]
        ok = ok and order[:2] == ["read_uint", "read_type"]
        if ok:
            cvar, tvar = norm(reads[0].targets[0]), norm(reads[1].targets[0])
            lst, mul = (a.left, a.right) if isinstance(a.left, ast.List) else (a.right, a.left)
            ok = isinstance(lst, ast.List) and len(lst.elts) == 1 and norm(mul) == cvar and tvar in norm(lst.elts[0])
    ctx.ob("C21.R8", site, "the reader appends count copies of the group's type, group after group (count read before type)", ok, construct="reader-expands-in-order")
    _inline_data_memory(ctx)


def _inline_data_memory(ctx):
    """R9: `(memory (data "..."))` declares a memory of exactly ceil(len / 64 KiB) pages (min == max), as the reference
    assembler does; the page count comes from round_up(len, PAGE_SIZE) // PAGE_SIZE."""
    from .. import minieval
    PA = "ppci/wasm/text/parser.py"
    ctx.rule("C21.R9", "text format, memory with inline data: the declared size is ceil(len(data) / PAGE_SIZE) pages - round_up(v, m) is the least multiple of m that is >= v (v itself when it already is a multiple, 0 for 0)", floor=3)
    ru = ctx.fn(PA, "round_up")
    bad = []
    try:
        for m in (1, 2, 3, 4, 7, 16):
            for v in range(0, 3 * m + 2):
                r = minieval.call(ru, [v, m])
                if not (isinstance(r, int) and r % m == 0 and r >= v and r - v < m):
                    bad.append((v, m, r))
        ctx.ob("C21.R9", PA + ":round_up", "for every value v and multiple m (all residues, three periods, m in 1..16): the result is a multiple of m, >= v and < v + m", not bad, construct="round-up-least-multiple",
               detail="; ".join("round_up(%d, %d) = %r" % b for b in bad[:4]))
    except minieval.Undecidable as e:
        ctx.undecided("C21.R9", PA + ":round_up", "round_up could not be evaluated: %s" % e)
    pm = ctx.fn(PA, "WatParser.parse_memory")
    site = PA + ":WatParser.parse_memory"
    calls = [c for c in ast.walk(pm) if isinstance(c, ast.Call) and norm(c.func) == "round_up"]
    ok = len(calls) == 1 and [" ".join(norm(a).split()) for a in calls[0].args] == ["len(data)", "PAGE_SIZE"]
    par = calls[0]._parent if calls else None
    ok = ok and isinstance(par, ast.BinOp) and isinstance(par.op, ast.FloorDiv) and norm(par.right) == "PAGE_SIZE"
    ctx.ob("C21.R9", site, "the page count is round_up(len(data), PAGE_SIZE) // PAGE_SIZE", ok, construct="pages-from-length", detail=norm(par) if par is not None else "")
    asg = [n for n in ast.walk(pm) if isinstance(n, ast.Assign) and calls and any(x is calls[0] for x in ast.walk(n.value))]
    v = norm(asg[0].targets[0]) if asg else None
    ok = False
    det = ""
    if asg:
        # the branch (statement list) that holds the page computation
        lst = asg[0]._parent
        body = next((getattr(lst, f) for f in ("body", "orelse") if asg[0] in getattr(lst, f, [])), [])
        alias = {v}
        for st in body:
            if isinstance(st, ast.Assign) and isinstance(st.targets[0], ast.Name) and isinstance(st.value, ast.Name) and st.value.id in alias:
                alias.add(st.targets[0].id)
        mem = [c for st in body for c in ast.walk(st) if isinstance(c, ast.Call) and norm(c.func).endswith("Memory")]
        ok = len(mem) == 1 and len(mem[0].args) == 3 and all(isinstance(a, ast.Name) and a.id in alias for a in mem[0].args[1:])
        det = norm(mem[0])[:80] if mem else ""
    ctx.ob("C21.R9", site, "minimum and maximum of the declared memory are both that page count", ok, construct="min-equals-max", detail=det)
