"""C40 - System V ABI on x86_64: argument/return register tables, callee-saved
set, prologue/epilogue mirror with 16-byte alignment, stack bookkeeping in
gen_call, PLT32 for calls to undefined functions."""
import ast

from ..core import (norm, walk_no_nested, calls_in, call_name, last_name, try_const, assigned_values,
                    names_in, attrs_in, compare_ops, derives)
from ..cfg import CFG, node_calls
from .. import sym, flow

A = "ppci/arch/x86_64/arch.py"
R = "ppci/arch/x86_64/registers.py"
SYSV_INT = ["rdi", "rsi", "rdx", "rcx", "r8", "r9"]
SYSV_INT32 = ["edi", "esi", "edx", "ecx", "r8d", "r9d"]
SYSV_CALLEE = ["rbx", "rbp", "r12", "r13", "r14", "r15"]


def yield_events(fn):
    """ordered abstract events of a generator: ('yield', text, guard-texts, loop-text)"""
    out = []
    for n in walk_no_nested(fn):
        if isinstance(n, ast.Expr) and isinstance(n.value, (ast.Yield, ast.YieldFrom)) and n.value.value is not None:
            guards = tuple(("%s" if pol else "not (%s)") % norm(t) for t, pol, _ in reversed(flow.controlling(n, fn)))
            loops = []
            p = n._parent
            while p is not None and p is not fn:
                if isinstance(p, ast.For):
                    loops.append("for %s in %s" % (norm(p.target), norm(p.iter)))
                p = p._parent
            out.append((n.lineno, norm(n.value.value), guards, tuple(reversed(loops))))
    out.sort()
    return [(t, g, l) for _, t, g, l in out]


def run(ctx):
    ctx.rule("C40.R1", "System V tables: integer arguments rdi rsi rdx rcx r8 r9, floats xmm0-7, return rax/xmm0, first stack argument at rbp+16 in 8-byte slots", floor=7)
    ctx.rule("C40.R2", "callee-saved: every allocatable register of {rbx, r12-r15} is in callee_save_linux; save sets are disjoint; rbp is saved by the prologue", floor=4)
    ctx.rule("C40.R3", "prologue and epilogue are mirror images (same saved set, same stack adjustment under the same condition, reverse order); 16-byte alignment", floor=8)
    ctx.rule("C40.R4", "gen_call: every rsp adjustment is accounted in the amount given back after the call; argument area is 16-byte aligned; call skeleton (uses before, clobbers, defs after)", floor=8)
    ctx.rule("C40.R5", "calls to undefined functions use PLT32 relocations in ELF objects", floor=1)
    project = ctx.project
    # ---- R1 ----
    da = ctx.fn(A, "X86_64Arch.determine_arg_locations")
    site = A + ":X86_64Arch.determine_arg_locations"
    ints = flts = None
    for n in walk_no_nested(da):
        if isinstance(n, ast.Assign) and isinstance(n.targets[0], ast.Name) and isinstance(n.value, ast.List):
            conds = flow.controlling(n, da)
            win = any("wincc" in norm(t) and pol for t, pol, _ in conds)
            if win:
                continue
            elts = [[attrs_in(x) and norm(x).split(".")[-1] for x in e.elts] if isinstance(e, ast.Tuple) else [norm(e).split(".")[-1]] for e in n.value.elts]
            if n.targets[0].id == "int_regs":
                ints = elts
            elif n.targets[0].id == "float_regs":
                flts = elts
    ctx.need(ints is not None and flts is not None, "System V int_regs / float_regs lists not found")
    ctx.ob("C40.R1", site, "integer argument registers are rdi, rsi, rdx, rcx, r8, r9 (64-bit) with edi, esi, edx, ecx, r8d, r9d as their 32-bit views", [e[0] for e in ints] == SYSV_INT and [e[1] for e in ints] == SYSV_INT32, construct="int-regs", detail=str(ints))
    ctx.ob("C40.R1", site, "floating point argument registers are xmm0..xmm7", [e[1] for e in flts] == ["xmm%d" % i for i in range(8)] and [e[0] for e in flts] == ["xmm%d_single" % i for i in range(8)], construct="float-regs", detail=str(flts))
    off = [v for v in assigned_values(da, "offset") if isinstance(v, ast.Constant)]
    ctx.ob("C40.R1", site, "the first stack argument is at offset 16 from rbp (return address and saved rbp below it)", bool(off) and off[0].value == 16, construct="first-stack-offset")
    sz = [v for v in assigned_values(da, "arg_size") if isinstance(v, ast.Constant)]
    ctx.ob("C40.R1", site, "integer stack arguments occupy 8-byte slots", bool(sz) and sz[0].value == 8, construct="int-slot-size")
    # which view is chosen for 32 bit / 64 bit and single / double
    txt = norm(da)
    def view_rule(test_txt, listname, body_idx, else_idx):
        for n in walk_no_nested(da):
            if isinstance(n, ast.If) and norm(n.test) == test_txt and len(n.body) == 1 and len(n.orelse) == 1:
                return norm(n.body[0]) == "reg = %s.pop(0)[%d]" % (listname, body_idx) and norm(n.orelse[0]) == "reg = %s.pop(0)[%d]" % (listname, else_idx)
        return False
    ctx.ob("C40.R1", site, "32-bit integers take the 32-bit view, other integers the 64-bit register, from the same position", view_rule("arg_type in [ir.i32, ir.u32]", "int_regs", 1, 0), construct="int-view")
    ctx.ob("C40.R1", site, "f32 takes the single view, f64 the double view", view_rule("arg_type is ir.f32", "float_regs", 0, 1), construct="float-view")
    ctx.ob("C40.R1", site, "stack offsets advance by the slot size", txt.count("offset += arg_size") >= 2 and "StackLocation(offset, arg_size)" in txt, construct="stack-advance")
    rv = ctx.fn(A, "X86_64Arch.determine_rv_location")
    want = {"[ir.i64, ir.u64, ir.ptr]": "registers.rax", "[ir.i32, ir.u32]": "registers.eax", "[ir.i16, ir.u16]": "registers.ax", "[ir.i8, ir.u8]": "registers.al", "ir.f64": "registers.xmm0", "ir.f32": "registers.xmm0_single"}
    got = {}
    for n in walk_no_nested(rv):
        if isinstance(n, ast.If):
            t = n.test
            if isinstance(t, ast.Compare):
                a = [b for b in n.body if isinstance(b, ast.Assign)]
                if a:
                    got[norm(t.comparators[0])] = norm(a[0].value)
    ctx.ob("C40.R1", A + ":X86_64Arch.determine_rv_location", "return value in rax/eax/ax/al or xmm0", got == want, construct="return-regs", detail=str(got))
    fe = ctx.fn(A, "X86_64Arch.gen_function_enter")
    ctx.ob("C40.R1", A + ":X86_64Arch.gen_function_enter", "incoming stack arguments are read from rbp + 16 + running offset", norm(fe).count("RmMemDisp(rbp, stack_offset + 16)") >= 4 and any(norm(v) == "0" for v in assigned_values(fe, "stack_offset")), construct="incoming-stack")
    # ---- R2 ----
    rm = project.module(R)
    def names_of(var):
        v = rm.assignments(var)
        return [norm(e) for e in v[0].elts] if v and isinstance(v[0], ast.Tuple) else None
    callee, caller = names_of("callee_save_linux"), names_of("caller_save_linux")
    ctx.need(callee is not None and caller is not None, "callee_save_linux / caller_save_linux tuples not found")
    dump = ctx.isa()
    alloc = set()
    for rc in dump["archs"]["x86_64"]["register_classes"]:
        if rc["name"] == "reg64":
            alloc = set(rc["registers"])
    ctx.need(alloc, "reg64 register class not found in the ISA dump")
    for r in SYSV_CALLEE:
        if r == "rbp":
            continue
        ctx.ob("C40.R2", R + ":callee_save_linux", "%s is callee-saved in the System V ABI: if the allocator may use it, it must be in callee_save_linux" % r, (r not in alloc) or (r in callee), construct="callee:" + r, detail="allocatable=%s listed=%s" % (r in alloc, r in callee))
    ctx.ob("C40.R2", R + ":callee_save_linux", "only ABI callee-saved registers are treated as preserved across calls", set(callee) <= set(SYSV_CALLEE), construct="callee-subset", detail=str(callee))
    ctx.ob("C40.R2", R + ":caller_save_linux", "caller-saved and callee-saved sets are disjoint", not (set(callee) & set(caller)), construct="disjoint")
    for r in sorted(alloc):
        ctx.ob("C40.R2", R + ":save-sets", "allocatable register %s is either assumed clobbered by calls or preserved by the callee" % r, r in caller or r in callee or r in ("rbp", "rsp"), construct="partition:" + r)
    init = ctx.fn(A, "X86_64Arch.__init__")
    ok = "self._callee_save = registers.callee_save_linux" in norm(init) and "self._caller_save = registers.caller_save_linux" in norm(init)
    ctx.ob("C40.R2", A + ":X86_64Arch.__init__", "without the wincc option the Linux save sets are selected", ok, construct="select-linux")
    gc = ctx.fn(A, "X86_64Arch.get_callee_saved")
    ctx.ob("C40.R2", A + ":X86_64Arch.get_callee_saved", "the registers saved are the callee-saved ones the frame uses (aliases included)", "for reg in self._callee_save" in norm(gc) and "frame.is_used(reg, self.info.alias)" in norm(gc), construct="saved-if-used")
    # ---- R3 ----
    pro, epi = ctx.fn(A, "X86_64Arch.gen_prologue"), ctx.fn(A, "X86_64Arch.gen_epilogue")
    pe, ee = yield_events(pro), yield_events(epi)
    site = A + ":X86_64Arch.gen_prologue/gen_epilogue"
    def sp_adjust(events, cls):
        return [(t[len(cls) + 1:-1].split(", ", 1)[1], g) for t, g, l in events if t.startswith(cls + "(rsp, ")]
    subs, adds = sp_adjust(pe, "SubImm"), sp_adjust(ee, "AddImm")
    ctx.ob("C40.R3", site, "every `sub rsp, X` of the prologue is undone by `add rsp, X` with the same X under the same condition", sorted(subs) == sorted(adds) and bool(subs), construct="sp-mirror", detail="prologue %s / epilogue %s" % (subs, adds))
    pushes = [(t, l) for t, g, l in pe if t.startswith("self.push(")]
    pops = [(t, l) for t, g, l in ee if t.startswith("self.pop(")]
    ok = [p[0] for p in pushes] == ["self.push(rbp)", "self.push(reg)"] and [p[0] for p in pops] == ["self.pop(reg)", "self.pop(rbp)"] and \
        pushes[1][1] == ("for reg in saved_registers",) and pops[0][1] == ("for reg in reversed(saved_registers)",)
    ctx.ob("C40.R3", site, "push rbp / push saved registers in order is mirrored by pop saved registers in reverse / pop rbp", ok, construct="push-pop-mirror", detail="%s / %s" % (pushes, pops))
    for fn, nm in ((pro, "prologue"), (epi, "epilogue")):
        sv = assigned_values(fn, "saved_registers")
        ss = assigned_values(fn, "saved_size")
        ctx.ob("C40.R3", site, "%s obtains the saved set from get_callee_saved(frame) and its size from the registers' sizes" % nm, bool(sv) and norm(sv[0]) == "self.get_callee_saved(frame)" and bool(ss) and norm(ss[0]) in ("sum((r.bitsize // 8 for r in saved_registers))", "sum(r.bitsize // 8 for r in saved_registers)"), construct="saved-set:" + nm)
    order_p = [t for t, g, l in pe]
    ok = order_p[:3] == ["Label(frame.name)", "self.push(rbp)", "bits64.MovRegRm(rbp, RmReg64(rsp))"]
    ctx.ob("C40.R3", site, "the frame pointer is set up right after rbp is saved (stack arguments then sit at rbp+16)", ok, construct="frame-setup", detail=str(order_p[:3]))
    order_e = [t for t, g, l in ee]
    i_pop, i_ret = (order_e.index("self.pop(rbp)") if "self.pop(rbp)" in order_e else -1), (order_e.index("Ret()") if "Ret()" in order_e else -1)
    i_lastadd = max([i for i, t in enumerate(order_e) if t.startswith("AddImm(rsp")] or [-1])
    ctx.ob("C40.R3", site, "epilogue order: pop saved registers, release locals, pop rbp, ret", 0 <= i_lastadd < i_pop < i_ret and order_e[0] == "self.pop(reg)", construct="epilogue-order", detail=str(order_e[:6]))
    ru = ctx.fn(A, "round_up16")
    r = [n.value for n in walk_no_nested(ru) if isinstance(n, ast.Return)]
    tot = assigned_values(ru, "total")
    ok = bool(r) and norm(r[0]) in ("s + (16 - total % 16)", "s + -total % 16", "s + (-total) % 16") and bool(tot) and sym.affine(tot[0], {}) == sym.atom("s") + sym.atom("already_taken")
    ctx.ob("C40.R3", A + ":round_up16", "locals are rounded up so that locals + saved registers is a multiple of 16", ok, construct="round-up16")
    ok = any(g == ("not (frame.stacksize > 0)", "saved_size % 16 != 0") and x == "saved_size % 16" for x, g in subs)
    ctx.ob("C40.R3", site, "without locals an odd number of saved 8-byte registers is compensated to keep rsp 16-byte aligned", ok, construct="align-no-locals")
    # ---- R4 ----
    gcall = ctx.fn(A, "X86_64Arch.gen_call")
    site = A + ":X86_64Arch.gen_call"
    cfg = CFG(gcall)
    final = [n for n in walk_no_nested(gcall) if isinstance(n, ast.Expr) and isinstance(n.value, ast.Yield) and norm(n.value.value) == "AddImm(rsp, stack_size)"]
    ctx.ob("C40.R4", site, "after the call rsp is raised by stack_size", bool(final) and any(norm(t) == "stack_size" and pol for t, pol, _ in flow.controlling(final[0], gcall)), construct="give-back")
    init = [v for v in assigned_values(gcall, "stack_size") if not isinstance(v, ast.AugAssign)]
    ctx.ob("C40.R4", site, "stack_size starts as the total size of the stack-passed arguments", bool(init) and norm(init[0]) in ("sum((p[1] for p in mem_args))", "sum(p[1] for p in mem_args)"), construct="stack-size-init")
    for n in walk_no_nested(gcall):
        if isinstance(n, ast.Expr) and isinstance(n.value, ast.Yield) and isinstance(n.value.value, ast.Call) and call_name(n.value.value) == "SubImm" and norm(n.value.value.args[0]) == "rsp":
            v = n.value.value.args[1]
            vt = norm(v)
            if "push_reg" in names_in(v):
                ok = any(isinstance(p, ast.For) and "mem_args" in norm(p.iter) for p in _anc(n))
                ctx.ob("C40.R4", site, "`sub rsp, %s` reserves room for a stack argument already counted in stack_size" % vt, ok, construct="sub:" + vt, node=n)
            else:
                acc = lambda m, vt=vt: isinstance(m, ast.AugAssign) and norm(m.target) == "stack_size" and isinstance(m.op, ast.Add) and norm(m.value) == vt
                ok = bool(final) and cfg.must_pass(final[0], acc, start=n)
                ctx.ob("C40.R4", site, "`sub rsp, %s` is added to stack_size before the amount is given back after the call" % vt, ok, construct="sub:" + vt, node=n)
    al = [n for n in walk_no_nested(gcall) if isinstance(n, ast.If) and norm(n.test) == "stack_size % 16 != 0"]
    ok = bool(al) and any(isinstance(b, ast.Expr) and "SubImm(rsp, extra_padding)" in norm(b) for b in al[0].body)
    pushes = [n for n in walk_no_nested(gcall) if isinstance(n, ast.Expr) and isinstance(n.value, ast.Yield) and norm(n.value.value).startswith("Push(")]
    ctx.ob("C40.R4", site, "the argument area is padded to a multiple of 16 bytes before anything is pushed", ok and bool(pushes) and all(cfg.must_pass(p, lambda m: m is al[0]) for p in pushes), construct="pre-align")
    ctx.ob("C40.R4", site, "stack arguments are pushed in reverse order (first stack argument ends up at the lowest address)", any(isinstance(p, ast.For) and norm(p.iter) == "reversed(mem_args)" for x in pushes for p in _anc(x)), construct="reverse-push")
    # skeleton
    calls = [n for n in walk_no_nested(gcall) if isinstance(n, ast.Expr) and isinstance(n.value, ast.Yield) and isinstance(n.value.value, ast.Call) and (call_name(n.value.value) or "").split(".")[-1] in ("Call", "CallReg")]
    ctx.need(len(calls) == 2, "gen_call: Call/CallReg yields not found")
    uses = [n for n in walk_no_nested(gcall) if isinstance(n, ast.Expr) and isinstance(n.value, ast.Yield) and norm(n.value.value) == "RegisterUseDef(uses=arg_regs)"]
    ok = bool(uses) and all(cfg.must_pass(c, lambda m: m is uses[0]) for c in calls)
    atoms = derives(gcall, ast.parse("arg_regs", mode="eval").body)
    ctx.ob("C40.R4", site, "the argument registers (from determine_arg_locations) are marked used right before the call", ok and "call:determine_arg_locations" in atoms, construct="uses-before-call")
    ok = all(any(k.arg == "clobbers" and norm(k.value) == "self._caller_save" for k in c.value.value.keywords) for c in calls)
    ctx.ob("C40.R4", site, "the call instruction declares the caller-saved registers as clobbered", ok, construct="clobbers")
    defs = [n for n in walk_no_nested(gcall) if isinstance(n, ast.Expr) and isinstance(n.value, ast.Yield) and norm(n.value.value) == "RegisterUseDef(defs=(retval_loc,))"]
    mv = [n for n in walk_no_nested(gcall) if isinstance(n, ast.Expr) and isinstance(n.value, ast.Yield) and norm(n.value.value) == "self.move(rv[1], retval_loc)"]
    ok = bool(defs) and bool(mv) and cfg.must_pass(mv[0], lambda m: m is defs[0]) and all(cfg.reachable(c, defs[0]) for c in calls) and any(norm(v) == "self.determine_rv_location(rv[0])" for v in assigned_values(gcall, "retval_loc"))
    ctx.ob("C40.R4", site, "the return register is marked defined after the call and then moved to the result", ok, construct="defs-after-call")
    fx = ctx.fn(A, "X86_64Arch.gen_function_exit")
    ok = "yield self.move(retval_loc, rv[1])" in norm(fx) and "live_out.add(retval_loc)" in norm(fx) and "yield RegisterUseDef(uses=live_out)" in norm(fx)
    ctx.ob("C40.R4", A + ":X86_64Arch.gen_function_exit", "the return value is moved into the return register, which is kept live until the epilogue", ok, construct="function-exit")
    ok = "yield RegisterUseDef(defs=arg_regs)" in norm(fe) and "self.determine_arg_locations(arg_types)" in norm(fe)
    ctx.ob("C40.R4", A + ":X86_64Arch.gen_function_enter", "incoming argument registers are marked defined at function entry", ok, construct="function-enter")
    # ---- R5 ----
    gr = ctx.fn(A, "X86_64Arch.get_reloc_type")
    i = [n for n in walk_no_nested(gr) if isinstance(n, ast.If)]
    ok = bool(i) and all(x in norm(i[0].test) for x in ("symbol.is_function", "symbol.undefined", "reloc_type == 'rel32'")) and "R_X86_64_PLT32" in norm(i[0].body[0])
    ctx.ob("C40.R5", A + ":X86_64Arch.get_reloc_type", "a rel32 reference to an undefined function becomes R_X86_64_PLT32, everything else follows elf_reloc_mapping", ok and "elf_support.elf_reloc_mapping[reloc_type]" in norm(gr), construct="plt32")
    em = project.module("ppci/arch/x86_64/elf.py")
    vals = {n: [try_const(v) for v in em.assignments(n)] for n in ("R_X86_64_PLT32", "R_X86_64_PC32", "R_X86_64_64", "R_X86_64_32")}
    ctx.ob("C40.R5", "ppci/arch/x86_64/elf.py", "ELF relocation numbers: R_X86_64_64=1, PC32=2, PLT32=4, 32=10", vals == {"R_X86_64_PLT32": [4], "R_X86_64_PC32": [2], "R_X86_64_64": [1], "R_X86_64_32": [10]}, construct="reloc-numbers", detail=str(vals))


def _anc(n):
    out = []
    n = getattr(n, "_parent", None)
    while n is not None:
        out.append(n)
        n = getattr(n, "_parent", None)
    return out
