"""C29 - code generation succeeds: DAG-builder operator tables cover the IR
operators, cast opcodes are built from the pointer-normalised type, and the
tree grammar of each mature target has an unconditional general rule for
every (operator x supported value type) cell."""
import ast
import re

from ..core import last_name, norm, walk_no_nested, calls_in, call_name, try_const, assigned_values, names_in, dict_items

D = "ppci/codegen/irdag.py"
IR = "ppci/ir.py"
TARGETS = ["x86_64", "arm", "arm:thumb", "riscv", "riscv:rvc"]
INT_OPS = ["ADD", "SUB", "MUL", "DIV", "REM", "AND", "OR", "XOR", "SHL", "SHR", "NEG", "INV"]
FLT_OPS = ["ADD", "SUB", "MUL", "DIV", "NEG"]
MEM_OPS = ["LDR", "STR", "MOV", "CONST", "CJMP"]


def grammar(dump, arch):
    roots = {}
    for p in dump["archs"][arch]["patterns"]:
        m = re.match(r"([A-Z0-9]+)(\((.*)\))?$", p["tree"])
        if not m:
            continue
        root, kids = m.group(1), m.group(3) or ""
        general = "(" not in kids and all(re.match(r"^[a-z0-9_]+$", k.strip()) for k in kids.split(",") if k.strip())
        roots.setdefault(root, []).append((general, p["condition"], p))
    return roots


def run(ctx):
    ctx.rule("C29.R1", "the DAG builder's operator-name tables cover every IR operator (a missing key is an internal KeyError)", floor=12)
    ctx.rule("C29.R2", "cast opcodes are built from the pointer-normalised source type", floor=2)
    ctx.rule("C29.R3", "tree grammar completeness: every (operator x value type the target has a REG rule for) has an unconditional general rule", floor=250)
    ctx.rule("C29.R4", "every IR instruction class has a do_* handler in the DAG builder's dispatch table", floor=15)
    project = ctx.project
    # ---- R1 ----
    for meth, cls, attr in (("do_binop", "Binop", "ops"), ("do_unop", "Unop", "ops")):
        fn = ctx.fn(D, "SelectionGraphBuilder." + meth)
        tab = None
        for v in assigned_values(fn, "names"):
            if isinstance(v, ast.Dict):
                tab = {try_const(k): try_const(val) for k, val in dict_items(v)}
        ctx.need(tab is not None, "%s: literal `names` table not found" % meth)
        ops = try_const(project.class_attr(ctx.cls(IR, cls), attr))
        ctx.need(isinstance(ops, list), "ir.%s.%s not literal" % (cls, attr))
        for op in ops:
            ctx.ob("C29.R1", "%s:SelectionGraphBuilder.%s" % (D, meth), "IR %s operator %r has a DAG operation name" % (cls, op), op in tab, construct="op:%s:%s" % (cls, op))
    # ---- R2 ----
    dc = ctx.fn(D, "SelectionGraphBuilder.do_cast")
    site = D + ":SelectionGraphBuilder.do_cast"
    ops = [v for v in assigned_values(dc, "op") if isinstance(v, ast.JoinedStr)]
    if not ops:
        ctx.undecided("C29.R2", site, "cast opcode f-string not found")
    else:
        used = names_in(ops[0])
        # the name used must be a local that is re-assigned under an `is ir.ptr` test
        normalised = set()
        for n in walk_no_nested(dc):
            if isinstance(n, ast.If) and "ir.ptr" in norm(n.test):
                for b in n.body:
                    if isinstance(b, ast.Assign) and isinstance(b.targets[0], ast.Name) and norm(b.targets[0]) in norm(n.test) and "ptr_ty" in norm(b.value):
                        normalised.add(b.targets[0].id)
        direct = any(isinstance(x, ast.Attribute) and x.attr == "ty" for x in ast.walk(ops[0]))
        ctx.ob("C29.R2", site, "the cast opcode names the source type after `ptr` was replaced by the target's pointer integer type", bool(used & normalised) and not direct, construct="cast-from-normalised", node=ops[0], detail="f-string uses %s; normalised locals %s" % (sorted(used), sorted(normalised)))
        same = [n for n in walk_no_nested(dc) if isinstance(n, ast.Compare) and "bits" in norm(n)]
        ctx.ob("C29.R2", site, "a cast is elided only between integer types of equal width in the same register class", any("from_ty.bits == to_ty.bits" in norm(n) for n in same) and "get_reg_class(ty=from_ty) is self.arch.get_reg_class(ty=to_ty)" in norm(dc) and "from_ty.is_integer and to_ty.is_integer" in norm(dc), construct="elide-condition")
    # ---- R4 ----
    base = ctx.cls(IR, "Instruction")
    sb = ctx.cls(D, "SelectionGraphBuilder")
    handled = set()
    for m in sb.body:
        if isinstance(m, ast.FunctionDef) and m.name.startswith("do_"):
            handled.add("".join(x.capitalize() for x in m.name[2:].split("_")))
    mm = ctx.fn(D, "make_map")
    ctx.need("name.startswith('do_')" in norm(mm) and "x.capitalize() for x in name[2:].split('_')" in norm(mm), "make_map no longer derives the IR class from the do_* method name")
    ctx.need(len(handled) >= 10, "SelectionGraphBuilder do_* handlers not found")
    skip = {"Instruction", "LocalValue", "FinalInstruction", "JumpBase", "Parameter", "JumpTable", "Phi"}
    for c in sorted(project.subclasses(base), key=lambda c: c.name):
        if c._module.rel != IR or c.name in skip:
            continue
        ctx.ob("C29.R4", D + ":SelectionGraphBuilder", "ir.%s is dispatched to a do_* handler" % c.name, c.name in handled, construct="handler:" + c.name)
    _split_block(ctx)
    late_binding_rule(ctx, "C29.R5", ("ppci/codegen/", "ppci/arch/", "ppci/binutils/", "ppci/irutils/", "ppci/opt/", "ppci/ir.py", "ppci/api.py"))
    # ---- R3 ----
    dump = ctx.isa()
    ctx.need(not dump["errors"], "ISA dump reported errors: %s" % dump["errors"][:2])
    for arch in TARGETS:
        grammar_cells(ctx, dump, arch, "C29.R3")
    _context_interface(ctx, dump)
    _vregs_before_trees(ctx)
    from .c05 import phi_lowering
    cast_lowering(ctx, "C29.R10")
    phi_lowering(ctx, "C29.R8")      # the CFG preparation before selection must not die on any verifier-valid shape (cjmp c ? S : S)


def late_binding_rule(ctx, rid, prefixes):
    """rule templates (selector rules, grammar reductions, relocation handlers) are registered as closures; one
    created in a loop must freeze what it captures"""
    from .. import closures
    ctx.rule(rid, "no closure created in a loop reads a variable that the loop re-binds (late binding: every closure would see the last iteration's value, e.g. every UND<type> rule allocating the last register class)", floor=1)
    ctl = ast.parse("def f(classes, out):\n    for c in classes:\n        k = c.typ\n        def mk(ctx):\n            return ctx.new_reg(k)\n        out.append(mk)\n        out.sort(key=lambda x: x.name + c.name)\n")
    for par in ast.walk(ctl):
        for ch in ast.iter_child_nodes(par):
            ch._parent = par
    ctx.need([cap for _, _, cap in closures.late_binding(ctl)] == [["k"]], "%s positive control lost" % rid)
    n_mod = 0
    for rel in sorted(ctx.project.modules):
        if not rel.startswith(prefixes):
            continue
        n_mod += 1
        for node, loop, cap in closures.late_binding(ctx.project.module(rel).tree):
            ctx.ob(rid, rel, "closure `%s` defined in a loop does not capture the loop-bound name(s) %s" % (getattr(node, "name", "lambda"), cap), False,
                   construct="late-binding:%s:%s" % (getattr(node, "name", "lambda"), ",".join(cap)), node=node, detail="loop at line %d re-binds %s" % (loop.lineno, cap))
    ctx.ob(rid, "ppci/*", "modules scanned for late-binding closures: %d" % n_mod, True, construct="scan-closures")


def grammar_cells(ctx, dump, arch, rid, narrow_arith=True):
    roots = grammar(dump, arch)
    types = sorted({r[3:] for r in roots if r.startswith("REG") and len(r) > 3 and r[3] in "IUF"})
    ctx.need(types, "no REG<type> rules for %s" % arch)
    for t in types:
        ops = INT_OPS if t[0] in "IU" else FLT_OPS
        if not narrow_arith and t[0] in "IU" and int(t[1:]) < 32:
            ops = []   # the C front-end promotes narrow operands to int before arithmetic
        for op in ops + MEM_OPS:
            term = op + t
            rules = roots.get(term, [])
            if any(g and not c for g, c, _ in rules):
                ctx.ob(rid, "grammar:%s" % arch, "%s has an unconditional general rule in %s" % (term, arch), True, construct="cell:%s:%s" % (arch, term))
            elif any(g for g, c, _ in rules):
                ctx.undecided(rid, "grammar:%s" % arch, "%s is covered only by conditional rules" % term)
            elif rules:
                ctx.ob(rid, "grammar:%s" % arch, "%s has a general rule (all operands non-terminals) in %s, not only operand-specific ones" % (term, arch), False, construct="cell:%s:%s" % (arch, term),
                       detail="only %s" % [r[2]["tree"] for r in rules][:3])
            else:
                ctx.ob(rid, "grammar:%s" % arch, "%s has a rule in %s (type %s has REG/LDR/STR rules, so values of this type reach the selector)" % (term, arch, t), False, construct="cell:%s:%s" % (arch, term),
                       detail="no pattern with root %s" % term)


def _split_block(ctx):
    """R6: blocks longer than 200 instructions are split before selection; the phis of ALL successors - the block
    itself included, when it loops to itself - must name the new second half as their predecessor"""
    B = "ppci/irutils/builder.py"
    ctx.rule("C29.R6", "split_block: every phi of every successor of the split block (including the block itself for a self-loop) moves its incoming edge from the block to the new second half; the first half jumps to the second", floor=4)
    sb = ctx.fn(B, "split_block")
    site = B + ":split_block"
    blk = sb.args.args[0].arg
    coll = [l for l in ast.walk(sb) if isinstance(l, (ast.For, ast.comprehension)) and norm(l.iter) == blk + ".successors"]
    ok = False
    detail = ""
    if len(coll) == 1:
        c = coll[0]
        if isinstance(c, ast.For):
            filt = [x for x in ast.walk(c) if isinstance(x, (ast.If, ast.Continue, ast.Break))]
        else:
            comp = c._parent
            filt = [i for g in comp.generators for i in g.ifs]
        ok = not filt
        detail = "; ".join(" ".join(norm(getattr(f, "test", f)).split())[:60] for f in filt)
    ctx.ob("C29.R6", site, "the phis of every successor are collected, without exception (a block that is its own successor has its back edge leave from the second half too)", ok, construct="all-successor-phis", detail=detail)
    upd = [l for l in sb.body if isinstance(l, ast.For) and any(isinstance(x, ast.Call) and last_name(x) == "set_incoming" for x in ast.walk(l))]
    ok = False
    if upd:
        l = upd[0]
        gv = [n for n in l.body if isinstance(n, ast.Assign) and isinstance(n.value, ast.Call) and last_name(n.value) == "get_value" and norm(n.value.args[0]) == blk]
        dl = [x for x in ast.walk(l) if isinstance(x, ast.Call) and last_name(x) == "del_incoming" and norm(x.args[0]) == blk]
        si = [x for x in ast.walk(l) if isinstance(x, ast.Call) and last_name(x) == "set_incoming"]
        ok = len(gv) == 1 and len(dl) == 1 and len(si) == 1 and norm(si[0].args[1]) == norm(gv[0].targets[0]) and norm(si[0].args[0]) != blk and not any(isinstance(x, (ast.If, ast.Continue)) for x in ast.walk(l))
    ctx.ob("C29.R6", site, "each collected phi keeps its value and takes it from the new block instead of the old one", ok, construct="phi-retargeted")
    mv = [n for n in ast.walk(sb) if isinstance(n, ast.Assign) and norm(n.targets[0]) == "instruction.block"]
    ctx.ob("C29.R6", site, "the moved instructions belong to the new block", bool(mv), construct="instructions-moved")
    jm = [c for c in ast.walk(sb) if isinstance(c, ast.Call) and norm(c.func) == "ir.Jump"]
    ok = len(jm) == 1 and any(isinstance(c, ast.Call) and norm(c.func) == blk + ".add_instruction" and any(x is jm[0] for x in ast.walk(c)) for c in ast.walk(sb))
    ctx.ob("C29.R6", site, "the first half ends in a jump to the second half", ok, construct="jump-to-second-half")
    chk = [n for n in ast.walk(sb) if isinstance(n, ast.Assert) and "is_phi" in norm(n.test)]
    ctx.ob("C29.R6", site, "phis never move into the second half", bool(chk), construct="no-phi-in-rest")


def _context_interface(ctx, dump):
    """R7: the spill code generator selects instructions for MOV/LDR/STR/FPREL/REG trees through its own small
    context object; it must offer everything those pattern functions use on `context`"""
    from .. import isa as isamod
    RA = "ppci/codegen/registerallocator.py"
    ctx.rule("C29.R7", "every attribute a load/store/move/frame-address pattern uses on its `context` argument exists on the spill code generator's context (MiniCtx) as well as on the instruction selector's", floor=10)
    project = ctx.project
    mini = ctx.cls(RA, "MiniCtx")
    provided = set()
    for c in project.mro(mini):
        for m in getattr(c, "body", []):
            if isinstance(m, ast.FunctionDef):
                provided.add(m.name)
                if m.name == "__init__":
                    for n in ast.walk(m):
                        if isinstance(n, ast.Assign) and isinstance(n.targets[0], ast.Attribute) and norm(n.targets[0].value) == "self":
                            provided.add(n.targets[0].attr)
    n = 0
    seen = set()
    for arch in TARGETS + ["msp430", "xtensa", "avr", "or1k", "microblaze", "m68k", "mips"]:
        if arch not in dump["archs"]:
            continue
        for pat in dump["archs"][arch]["patterns"]:
            root = pat["tree"].split("(")[0].strip()
            import re as _re
            if not _re.match(r"^(MOV|LDR|STR|REG|FPREL)[IUF]\d+$", root):
                continue   # MiniGen only builds MOV<t>(LDR<t>(FPREL..)), STR<t>(FPREL.., REG<t>) trees (MOVB is a block copy, never spill code)
            key = (pat["file"], pat["method"], pat["line"])
            if key in seen:
                continue
            seen.add(key)
            fn = isamod.find_pattern_function(project, pat)
            if fn is None or not fn.args.args:
                continue
            cv = fn.args.args[0].arg
            used = sorted({x.attr for x in ast.walk(fn) if isinstance(x, ast.Attribute) and isinstance(x.value, ast.Name) and x.value.id == cv})
            for a in used:
                n += 1
                ctx.ob("C29.R7", "%s:%s" % (fn._module.rel, fn.name), "`context.%s` used by the %s pattern is provided by MiniCtx (spill code)" % (a, root), a in provided, construct="ctx-attr:%s:%s" % (fn.name, a))
    return n


def _vregs_before_trees(ctx):
    """R9: a value used in another block than its own travels in a virtual register (check_vreg).  The blocks of a
    function are turned into trees in LAYOUT order, which need not respect dominance (the increment block of a `for`
    with `continue` is created before the body blocks), so every value of the WHOLE function must have its register
    before the first block is split: mk_tr raises `does require vreg` otherwise."""
    DS = "ppci/codegen/dagsplit.py"
    ctx.rule("C29.R9", "DagSplitter.split_into_trees assigns virtual registers for the whole selection graph before any block is split into trees (layout order is not dominance order)", floor=3)
    st = ctx.fn(DS, "DagSplitter.split_into_trees")
    site = DS + ":DagSplitter.split_into_trees"
    av = [c for c in ast.walk(st) if isinstance(c, ast.Call) and norm(c.func) == "self.assign_vregs"]
    loops = [l for l in walk_no_nested(st) if isinstance(l, ast.For) and any(isinstance(c, ast.Call) and norm(c.func) == "self.split_group_into_trees" for c in ast.walk(l))]
    ctx.need(len(loops) == 1, "split_into_trees: loop over the blocks not found")
    ok = len(av) == 1 and av[0].args and norm(av[0].args[0]) == st.args.args[1].arg and av[0].lineno < loops[0].lineno and not any(x is av[0] for x in ast.walk(loops[0]))
    ctx.ob("C29.R9", site, "assign_vregs(<the whole graph>) runs once, before the loop that splits the blocks", ok, construct="vregs-for-whole-graph-first", detail=norm(av[0])[:60] if av else "no call")
    avf = ctx.fn(DS, "DagSplitter.assign_vregs")
    lp = [l for l in walk_no_nested(avf) if isinstance(l, ast.For)]
    ok = len(lp) == 1 and norm(lp[0].iter) == avf.args.args[1].arg and any(isinstance(c, ast.Call) and norm(c.func) == "self.check_vreg" for c in ast.walk(lp[0])) \
        and not any(isinstance(x, (ast.Break, ast.Return)) for x in ast.walk(lp[0]))
    ctx.ob("C29.R9", DS + ":DagSplitter.assign_vregs", "every node of the graph that belongs to a block is checked", ok, construct="all-nodes-checked")
    cv = ctx.fn(DS, "DagSplitter.check_vreg")
    txt = " ".join(norm(cv).split())
    ok = "u.group is not node.group" in txt and "len(data_output.users) > 1" in txt and "frame.new_reg(" in txt
    ctx.ob("C29.R9", DS + ":DagSplitter.check_vreg", "a value gets a register when it has several users or a user in another block", ok, construct="cross-block-gets-vreg")


def cast_lowering(ctx, rid):
    """The selection DAG gets one conversion node per ir.Cast: from the type of the cast's OWN operand to the cast's own type, applied
    to the value of that operand.  Looking through the operand (a cast of a cast) is only sound for some signedness combinations -
    i8 -> u32 -> i64 sign-extends to 32 bits and then ZERO-extends - and is the optimizer's business (C38), not the builder's."""
    ctx.rule(rid, "DAG builder, casts: the conversion is taken from the type of the cast's own operand (node.src.ty, pointer-normalised) to node.ty and applied to the value of node.src - no looking through the operand", floor=4)
    dc = ctx.fn(D, "SelectionGraphBuilder.do_cast")
    site = D + ":SelectionGraphBuilder.do_cast"
    par = [a.arg for a in dc.args.args if a.arg != "self"][0]
    defs = {}
    for n in walk_no_nested(dc):
        if isinstance(n, ast.Assign) and len(n.targets) == 1 and isinstance(n.targets[0], ast.Name):
            defs.setdefault(n.targets[0].id, []).append(n.value)
    def origins(e, depth=0):
        """set of texts an expression may denote, local names expanded through ALL their assignments"""
        if isinstance(e, ast.Name) and e.id in defs and depth < 6:
            out = set()
            for v in defs[e.id]:
                out |= origins(v, depth + 1)
            return out
        if isinstance(e, ast.Attribute):
            return {b + "." + e.attr for b in origins(e.value, depth + 1)}
        return {norm(e)}
    gv = [c for c in walk_no_nested(dc) if isinstance(c, ast.Call) and norm(c.func) == "self.get_value" and c.args]
    ctx.need(len(gv) >= 1, "do_cast: no operand value is fetched")
    for c in gv:
        o = origins(c.args[0])
        ctx.ob(rid, site, "the converted value is the cast's own operand (%s.src)" % par, o == {par + ".src"}, construct="operand", node=c, detail="may be %s" % sorted(o))
    for name, want in (("from_ty", {par + ".src.ty", "self.ptr_ty"}), ("to_ty", {par + ".ty", "self.ptr_ty"})):
        o = origins(ast.Name(id=name, ctx=ast.Load()))
        ctx.ob(rid, site, "%s is %s (or the pointer integer type in its place)" % (name, sorted(want)[0]), o == want, construct="type:" + name, detail="may be %s" % sorted(o))
    nn = [c for c in walk_no_nested(dc) if isinstance(c, ast.Call) and norm(c.func) == "self.new_node"]
    ok = len(nn) == 1 and len(nn[0].args) == 3 and norm(nn[0].args[1]) == par + ".ty" and origins(nn[0].args[2]) <= {"self.get_value(%s.src)" % par}
    ctx.ob(rid, site, "one conversion node is created with the cast's result type and that operand", ok, construct="node")
