"""C26 - preprocessor #if arithmetic: precedence chain, operator semantics,
truncating division, associativity test, unsigned operands."""
import ast

from ..core import norm, walk_no_nested, calls_in, call_name, dict_items, try_const, assigned_values
from .. import intsem

F = "ppci/lang/c/preprocessor.py"
# C11 6.5.5 .. 6.5.15, loosest to tightest
LEVELS = [["?"], ["||"], ["&&"], ["|"], ["^"], ["&"], ["==", "!="], ["<", ">", "<=", ">="], ["<<", ">>"], ["+", "-"], ["*", "/", "%"]]
PYOP = {"*": "*", "+": "+", "-": "-", "<<": "<<", ">>": ">>", "<": "<", ">": ">", "<=": "<=", ">=": ">=", "==": "==", "!=": "!=", "&": "&", "^": "^", "|": "|", "&&": "and", "||": "or"}


def run(ctx):
    ctx.rule("C26.R1", "#if operator precedence follows the C11 chain; only ?: is right associative", floor=15)
    ctx.rule("C26.R2", "each #if operator is evaluated with the Python operator of the same meaning; / and % truncate", floor=15)
    ctx.rule("C26.R3", "#if expression grouping: after a binary operator the right operand takes every tighter operator, an equally tight one only if the operator is right associative, and no looser one; a unary operator's operand takes NO binary operator; a fresh (sub)expression takes them all", floor=60)
    ctx.rule("C26.R4", "unsigned literals keep their unsignedness (type specifier of the literal is consulted)", floor=1)
    project = ctx.project
    mod = project.module(F)
    cls = ctx.cls(F, "CPreProcessor")
    table = None
    for n in cls.body:
        if isinstance(n, ast.Assign) and any(isinstance(t, ast.Name) and t.id == "OP_MAP" for t in n.targets) and isinstance(n.value, ast.Dict):
            table = n.value
    ctx.need(table is not None, "CPreProcessor.OP_MAP dict literal not found")
    ctx.saw("tables", "CPreProcessor.OP_MAP")
    site = F + ":CPreProcessor.OP_MAP"
    entries = {}
    for k, v in dict_items(table):
        key = try_const(k)
        if isinstance(key, str) and isinstance(v, ast.Tuple) and len(v.elts) == 3:
            entries[key] = (try_const(v.elts[0]), try_const(v.elts[1]), v.elts[2])
        else:
            ctx.undecided("C26.R1", site, "entry %s not a 3-tuple" % norm(k))
    level_of = {op: i for i, ops in enumerate(LEVELS) for op in ops}
    for op in level_of:
        ctx.ob("C26.R1", site, "operator `%s` is in the table" % op, op in entries, construct="present:" + op)
    ops = [o for o in entries if o in level_of and isinstance(entries[o][0], int)]
    for a in ops:
        for b in ops:
            if a < b:
                la, lb = level_of[a], level_of[b]
                pa, pb = entries[a][0], entries[b][0]
                rel = (la > lb) - (la < lb)
                got = (pa > pb) - (pa < pb)
                if rel != got or abs(la - lb) <= 1:
                    ctx.ob("C26.R1", site, "precedence of `%s` vs `%s` as in C11 6.5" % (a, b), rel == got, construct="prec:%s:%s" % (a, b), detail="ppci %s:%s, %s:%s" % (a, pa, b, pb))
    for o in ops:
        ctx.ob("C26.R1", site, "`%s` is %s associative" % (o, "right" if o == "?" else "left"), bool(entries[o][1]) == (o == "?"), construct="assoc:" + o)
    # R2
    for o, (_, _, fe) in entries.items():
        if o == "?":
            continue
        d = intsem.resolve_callable(project, mod, fe)
        if o in ("/", "%"):
            verdict, why = intsem.div_verdict(project, d, "div" if o == "/" else "rem")
            if verdict == "undecided":
                ctx.undecided("C26.R2", site, "`%s`: %s" % (o, why))
            else:
                ctx.ob("C26.R2", site, "`%s` truncates toward zero as C 6.5.5 requires" % o, verdict == "trunc", construct="sem:" + o, node=fe, detail="%s: %s" % (verdict, why))
        elif o in PYOP:
            used = intsem.python_ops_used(d)
            if d.kind == "unknown":
                ctx.undecided("C26.R2", site, "callable of `%s` not resolved" % o)
            else:
                ctx.ob("C26.R2", site, "`%s` is evaluated with Python `%s`" % (o, PYOP[o]), PYOP[o] in used and not (used - {PYOP[o]}), construct="sem:" + o, node=fe, detail="%r uses %s" % (d, sorted(used)))
    # R3 - grouping, decided on the operator table itself
    _grouping(ctx)
    _raw_arguments(ctx)
    # R4
    pe = ctx.fn(F, "CPreProcessor.parse_expression")
    for c in calls_in(pe, "cnum"):
        st = c
        while not isinstance(st, ast.stmt):
            st = st._parent
        discarded = isinstance(st, ast.Assign) and isinstance(st.targets[0], ast.Tuple) and len(st.targets[0].elts) == 2 and norm(st.targets[0].elts[1]) == "_"
        ctx.ob("C26.R4", F + ":CPreProcessor.parse_expression", "the type specifiers returned by cnum() (u/l suffixes) are used, so unsigned operands get unsigned arithmetic",
               not discarded, construct="cnum-type-specifier", node=c, detail=norm(st))
    _hidesets(ctx)


def _hidesets(ctx):
    """R5: macro expansion bookkeeping (C11 6.10.3.4: a macro is not re-expanded inside its own expansion)"""
    from ..core import last_name, calls_in
    from .. import sym
    ctx.rule("C26.R5", "macro expansion: a name is expanded only if it is defined and not hidden; the new expansion hides the macro itself plus what is hidden where expansion continues AFTER the arguments were read; it is pushed with that hideset", floor=6)
    ex = ctx.fn(F, "CPreProcessor.expand")
    site = F + ":CPreProcessor.expand"
    em = [c for c in calls_in(ex, "expand_macro")]
    ctx.need(len(em) == 1, "expand: call of expand_macro not found")
    cj = [(" ".join(norm(e).split()), pol) for e, pol in sym.conjuncts(em[0], ex, sym.single_assign_env(ex))]
    ctx.ob("C26.R5", site, "a macro is expanded only when it is defined", any(pol and t == "self.is_defined(macro_token.val)" for t, pol in cj), construct="only-defined", detail=str(cj))
    ctx.ob("C26.R5", site, "a macro in the current hideset is not expanded again", any((not pol) and t == "self.in_hideset(macro_token.val)" for t, pol in cj), construct="not-hidden", detail=str(cj))
    reads = [n for n in ast.walk(ex) if isinstance(n, ast.Attribute) and n.attr == "hideset" and "macro_expansions[-1]" in norm(n.value)]
    ok = bool(reads) and all(r.lineno > em[0].lineno for r in reads)
    ctx.ob("C26.R5", site, "the inherited hideset is taken from the expansion stack after expand_macro() has read the arguments (reading `(` and the arguments pops expansions that are exhausted: their hidden names no longer apply)", ok,
           construct="hideset-after-arguments", node=reads[0] if reads else ex)
    own = [n for n in ast.walk(ex) if isinstance(n, ast.BinOp) and isinstance(n.op, ast.BitOr) and "macro.name" in norm(n)]
    ctx.ob("C26.R5", site, "the macro's own name is added to the hideset", bool(own) and any(isinstance(x, ast.Set) and [norm(e) for e in x.elts] == ["macro.name"] for o in own for x in ast.walk(o)), construct="hides-itself")
    empty = [n for n in ast.walk(ex) if isinstance(n, ast.If) and "macro_expansions" in norm(n.test) and any(isinstance(s, ast.Assign) and norm(s.value) in ("set()", "frozenset()") for s in n.orelse)]
    ctx.ob("C26.R5", site, "outside any expansion nothing is inherited", bool(empty), construct="empty-at-top")
    pe = [c for c in calls_in(ex, "push_expansion")]
    ok = len(pe) == 1 and isinstance(pe[0].args[0], ast.Call) and norm(pe[0].args[0].func) == "MacroExpansion" and len(pe[0].args[0].args) == 2 and norm(pe[0].args[0].args[1]) == "hideset" and "expansion" in norm(pe[0].args[0].args[0])
    ctx.ob("C26.R5", site, "the expansion is pushed together with that hideset", ok, construct="pushed-with-hideset")
    ih = ctx.fn(F, "CPreProcessor.in_hideset")
    ok = "macro_expansions[-1].hideset" in norm(ih) and any(isinstance(r, ast.Return) and norm(r.value) == "False" for r in ast.walk(ih))
    ctx.ob("C26.R5", F + ":CPreProcessor.in_hideset", "hidden = member of the hideset of the innermost active expansion; nothing is hidden outside expansions", ok, construct="in-hideset")
    _lazy(ctx)


def _lazy(ctx):
    """R6: && / || / ?: in #if evaluate their right operands only when needed (C11 6.5.13-15; `#if defined(N) && 100 / N`)"""
    from .. import sym
    from ..tables import eq_branches
    ctx.rule("C26.R6", "#if evaluation: `&&` evaluates its right operand only when the left is non-zero, `||` only when it is zero, `?:` only the selected arm; the result of && / || is 0 or 1", floor=3)
    ev = ctx.fn(F, "CPreProcessor._eval_tree")
    site = F + ":CPreProcessor._eval_tree"
    br = eq_branches(ev, "expr.op")
    for op, need_true in (("&&", True), ("||", False)):
        if op not in br:
            ctx.ob("C26.R6", site, "`%s` has its own (lazy) branch: it must not go through the generic path that evaluates both operands first" % op, False, construct="lazy:" + op)
            continue
        body = br[op][1]
        evb = [c for s in body for c in ast.walk(s) if isinstance(c, ast.Call) and norm(c.func) == "self._eval_tree" and norm(c.args[0]) == "expr.b"]
        eva = [c for s in body for c in ast.walk(s) if isinstance(c, ast.Call) and norm(c.func) == "self._eval_tree" and norm(c.args[0]) == "expr.a"]
        ok = len(evb) == 1 and len(eva) == 1
        if ok:
            cj = [(" ".join(norm(e).split()), pol) for e, pol in sym.conjuncts(evb[0], ev, {}) if " ".join(norm(e).split()) in ("value", "bool(value)", "value != 0", "value == 0")]
            want = [("value", need_true), ("bool(value)", need_true), ("value != 0", need_true), ("value == 0", not need_true)]
            ok = any(c in want for c in cj) and eva[0].lineno < evb[0].lineno
        ctx.ob("C26.R6", site, "`%s`: expr.b is evaluated only inside the branch taken when expr.a is %s" % (op, "non-zero" if need_true else "zero"), ok, construct="lazy:" + op)
        norm01 = any(isinstance(s, ast.Assign) and norm(s.value) in ("int(bool(value))", "1 if value else 0", "int(value != 0)") for s in body)
        ctx.ob("C26.R6", site, "`%s` yields 0 or 1" % op, norm01, construct="bool-result:" + op)
    tern = [n for n in walk_no_nested(ev) if isinstance(n, ast.If) and "TernaryOperator" in norm(n.test)]
    ok = False
    if tern:
        body = tern[0].body
        b_ = [c for s in body for c in ast.walk(s) if isinstance(c, ast.Call) and norm(c.func) == "self._eval_tree" and norm(c.args[0]) == "expr.b"]
        c_ = [c for s in body for c in ast.walk(s) if isinstance(c, ast.Call) and norm(c.func) == "self._eval_tree" and norm(c.args[0]) == "expr.c"]
        if len(b_) == 1 and len(c_) == 1:
            cb = [(norm(e), pol) for e, pol in sym.conjuncts(b_[0], ev, {})]
            cc = [(norm(e), pol) for e, pol in sym.conjuncts(c_[0], ev, {})]
            ok = ("value", True) in cb and ("value", False) in cc
    ctx.ob("C26.R6", site, "`?:` evaluates exactly the selected arm", ok, construct="lazy:?:")


def _grouping(ctx):
    """The expression parser is precedence climbing driven by OP_MAP (priority, right-associative).  Whether it
    groups like C is a finite question: for every pair of operators, does the parse of the right operand (started at
    the priority the code hands to parse_expression) take the second operator?  _binop_take and the priority
    expressions are evaluated with sa/minieval over the table, so any equivalent formulation gives the same verdict."""
    from .. import minieval, sym
    from ..core import try_const
    cls = ctx.cls(F, "CPreProcessor")
    opmap = None
    for st in cls.body:
        if isinstance(st, ast.Assign) and norm(st.targets[0]) == "OP_MAP" and isinstance(st.value, ast.Dict):
            opmap = {}
            for k, v in zip(st.value.keys, st.value.values):
                if isinstance(v, ast.Tuple) and len(v.elts) >= 2:
                    opmap[try_const(k)] = (try_const(v.elts[0]), try_const(v.elts[1])) + (None,) * (len(v.elts) - 2)
    ctx.need(opmap and len(opmap) >= 15 and all(isinstance(p[0], int) and isinstance(p[1], bool) for p in opmap.values()), "OP_MAP is not a literal table of (priority, right associative, ...)")
    bt = ctx.fn(F, "CPreProcessor._binop_take")
    pe = ctx.fn(F, "CPreProcessor.parse_expression")
    site = F + ":CPreProcessor.parse_expression"
    base_env = {"self.OP_MAP": opmap}

    def take(op, prio):
        return bool(minieval.call(bt, [op, prio], base_env))
    loops = [l for l in pe.body if isinstance(l, ast.While)]
    ctx.need(len(loops) == 1, "parse_expression: operator loop not found")
    loop = loops[0]
    rhs_calls = [n for n in ast.walk(loop) if isinstance(n, ast.Assign) and norm(n.targets[0]) == "rhs" and isinstance(n.value, ast.Call) and norm(n.value.func) == "self.parse_expression"]
    ctx.need(rhs_calls, "parse_expression: parse of the right operand not found")
    lenv = sym.single_assign_env(loop)

    def rhs_priority(op):
        env = dict(base_env)
        env.update({"op": op, "op_prio": opmap[op][0]})
        for n in rhs_calls:
            conds = sym.conjuncts(n, pe, {})
            holds = True
            for c, pol in conds:
                t = " ".join(norm(c).split())
                if "_binop_take" in t or t in ("True", "token", "not token"):
                    continue
                try:
                    if bool(minieval.ev(c, env)) != pol:
                        holds = False
                        break
                except minieval.Undecidable:
                    continue
            if holds:
                arg = n.value.args[0] if n.value.args else None
                if arg is None:
                    return pe_default
                return minieval.ev(arg, env)
        raise minieval.Undecidable("no right-operand parse applies to %s" % op)
    d = pe.args.defaults
    pe_default = try_const(d[0]) if d else None
    ctx.need(isinstance(pe_default, int), "parse_expression: default priority is not a literal")
    pre = [c for st in pe.body if st is not loop and st.lineno < loop.lineno for c in ast.walk(st) if isinstance(c, ast.Call) and norm(c.func) == "self.parse_expression"]
    unary = sorted({try_const(c.args[0]) for c in pre if c.args})
    ctx.need(unary and all(isinstance(u, int) for u in unary), "parse_expression: operand parses of the unary operators not found")
    try:
        n = 0
        for o1, (q1, ra1, *_r) in sorted(opmap.items()):
            r = rhs_priority(o1)
            for o2, (q2, ra2, *_r2) in sorted(opmap.items()):
                got = take(o2, r)
                want = q2 > q1 or (q2 == q1 and ra1)
                if o1 == "?" and o2 == "?":
                    want = True   # a ? b : c ? d : e  groups to the right
                n += 1
                ctx.ob("C26.R3", site, "in `a %s b %s c` the operand b %s `%s`" % (o1, o2, "takes" if want else "leaves", o2), got == want, construct="group:%s:%s" % (o1, o2),
                       detail="right operand of `%s` is parsed at priority %r; _binop_take(%r, %r) = %r" % (o1, r, o2, r, got))
        for u in unary:
            for o2 in sorted(opmap):
                ctx.ob("C26.R3", site, "the operand of a unary operator (parsed at priority %d) does not take `%s`: `~a %s b` is `(~a) %s b`" % (u, o2, o2, o2), take(o2, u) is False, construct="unary:%d:%s" % (u, o2))
        for o2 in sorted(opmap):
            ctx.ob("C26.R3", site, "a fresh expression (priority %d) takes `%s`" % (pe_default, o2), take(o2, pe_default) is True, construct="entry:" + o2)
        ctx.ob("C26.R3", F + ":CPreProcessor._binop_take", "a token that is not an operator ends the expression", take(")", pe_default) is False and take(":", pe_default) is False, construct="non-operator")
    except minieval.Undecidable as e:
        ctx.undecided("C26.R3", site, "operator grouping could not be evaluated: %s" % e)
    cont = [n for n in ast.walk(loop) if isinstance(n, ast.Call) and norm(n.func) == "self._binop_take"]
    ok = len(cont) == 1 and [norm(a) for a in cont[0].args] == ["op", "priority"]
    ctx.ob("C26.R3", site, "the loop asks _binop_take about the next operator with the priority this parse was started with", ok, construct="loop-uses-own-priority")


def _raw_arguments(ctx):
    """R7: C11 6.10.3.1 - a parameter that is an operand of # or ## is replaced by the argument's tokens AS WRITTEN;
    every other occurrence by the completely macro-expanded argument.  One map (parameter -> argument tokens) feeds
    both kinds of use, so it has to keep the raw tokens for the whole substitution."""
    from ..sym import conjuncts
    ctx.rule("C26.R7", "substitute_arguments: the parameter map keeps the raw argument tokens throughout (built once before the scan, never written inside it); # and ## operands read it directly, ordinary uses expand a copy", floor=4)
    fn = ctx.fn(F, "CPreProcessor.substitute_arguments")
    site = F + ":CPreProcessor.substitute_arguments"
    loops = [l for l in fn.body if isinstance(l, ast.While)]
    ctx.need(len(loops) == 1, "substitute_arguments: scan loop not found")
    loop = loops[0]
    maps = [n for n in fn.body if isinstance(n, ast.Assign) and isinstance(n.value, ast.Call) and norm(n.value.func) == "dict" and "zip(" in norm(n.value)]
    ctx.need(len(maps) == 1, "substitute_arguments: parameter map not found")
    mp = norm(maps[0].targets[0])
    writes = [n for n in ast.walk(loop) if (isinstance(n, (ast.Assign, ast.AugAssign)) and any(isinstance(t, ast.Subscript) and norm(t.value) == mp for t in (n.targets if isinstance(n, ast.Assign) else [n.target])))
              or (isinstance(n, ast.Call) and isinstance(n.func, ast.Attribute) and norm(n.func.value) == mp and n.func.attr in ("update", "setdefault", "pop", "clear", "__setitem__"))]
    ctx.ob("C26.R7", site, "the map is not written while the replacement list is scanned (an expanded argument stored back would later be stringified or pasted instead of the argument as written)", not writes, construct="map-stays-raw",
           node=writes[0] if writes else None, detail="; ".join(" ".join(norm(w).split())[:70] for w in writes))
    st = [c for c in ast.walk(loop) if isinstance(c, ast.Call) and norm(c.func) == "self.stringify"]
    ok = len(st) == 1 and any(norm(a).startswith(mp + "[") for a in st[0].args)
    ctx.ob("C26.R7", site, "# stringifies the map entry itself", ok, construct="stringify-raw", detail=norm(st[0])[:80] if st else "")
    ex = [c for c in ast.walk(loop) if isinstance(c, ast.Call) and norm(c.func) == "self.expand_token_sequence"]
    ok = len(ex) == 1
    if ok:
        conds = [(" ".join(norm(c).split()), pol) for c, pol in conjuncts(ex[0], fn, {})]
        ok = any(pol is False and "##" in c for c, pol in conds) or any(pol is True and c.startswith("not ") and "##" in c for c, pol in conds) or any(c == "used_in_concat" and pol is False for c, pol in conds)
        asg = ex[0]._parent
        ok = ok and isinstance(asg, ast.Assign) and isinstance(asg.targets[0], ast.Name) and norm(asg.targets[0]) != mp
    ctx.ob("C26.R7", site, "an ordinary use expands the argument into a local, only when the parameter is not next to ##", ok, construct="expand-unless-pasted")
    cat = [n for n in ast.walk(loop) if isinstance(n, ast.Assign) and isinstance(n.targets[0], ast.Name) and "##" in norm(n.value)]
    ok = len(cat) == 1 and "previous" in norm(cat[0].value) and "peak" in norm(cat[0].value)
    ctx.ob("C26.R7", site, "a parameter counts as a ## operand when ## precedes or follows it", ok, construct="paste-both-sides", detail=norm(cat[0].value) if cat else "")
