"""C26 - preprocessor #if arithmetic: precedence chain, operator semantics,
truncating division, associativity test, unsigned operands."""
import ast

from ..core import norm, walk_no_nested, calls_in, call_name, dict_items, try_const, assigned_values
from .. import intsem

F = "ppci/lang/c/preprocessor.py"
# C11 6.5.5 .. 6.5.15, loosest to tightest
LEVELS = [["?"], ["||"], ["&&"], ["|"], ["^"], ["&"], ["==", "!="], ["<", ">", "<=", ">="], ["<<", ">>"], ["+", "-"], ["*", "/", "%"]]
PYOP = {"*": "*", "+": "+", "-": "-", "<<": "<<", ">>": ">>", "<": "<", ">": ">", "<=": "<=", ">=": ">=", "==": "==", "!=": "!=", "&": "&", "^": "^", "|": "|", "&&": "and", "||": "or"}


def run(ctx):
    ctx.rule("C26.R1", "#if operator precedence follows the C11 chain; only ?: is right associative", floor=15)
    ctx.rule("C26.R2", "each #if operator is evaluated with the Python operator of the same meaning; / and % truncate", floor=15)
    ctx.rule("C26.R3", "take-operator test: left associative operators need strictly higher priority", floor=1)
    ctx.rule("C26.R4", "unsigned literals keep their unsignedness (type specifier of the literal is consulted)", floor=1)
    project = ctx.project
    mod = project.module(F)
    cls = ctx.cls(F, "CPreProcessor")
    table = None
    for n in cls.body:
        if isinstance(n, ast.Assign) and any(isinstance(t, ast.Name) and t.id == "OP_MAP" for t in n.targets) and isinstance(n.value, ast.Dict):
            table = n.value
    ctx.need(table is not None, "CPreProcessor.OP_MAP dict literal not found")
    ctx.saw("tables", "CPreProcessor.OP_MAP")
    site = F + ":CPreProcessor.OP_MAP"
    entries = {}
    for k, v in dict_items(table):
        key = try_const(k)
        if isinstance(key, str) and isinstance(v, ast.Tuple) and len(v.elts) == 3:
            entries[key] = (try_const(v.elts[0]), try_const(v.elts[1]), v.elts[2])
        else:
            ctx.undecided("C26.R1", site, "entry %s not a 3-tuple" % norm(k))
    level_of = {op: i for i, ops in enumerate(LEVELS) for op in ops}
    for op in level_of:
        ctx.ob("C26.R1", site, "operator `%s` is in the table" % op, op in entries, construct="present:" + op)
    ops = [o for o in entries if o in level_of and isinstance(entries[o][0], int)]
    for a in ops:
        for b in ops:
            if a < b:
                la, lb = level_of[a], level_of[b]
                pa, pb = entries[a][0], entries[b][0]
                rel = (la > lb) - (la < lb)
                got = (pa > pb) - (pa < pb)
                if rel != got or abs(la - lb) <= 1:
                    ctx.ob("C26.R1", site, "precedence of `%s` vs `%s` as in C11 6.5" % (a, b), rel == got, construct="prec:%s:%s" % (a, b), detail="ppci %s:%s, %s:%s" % (a, pa, b, pb))
    for o in ops:
        ctx.ob("C26.R1", site, "`%s` is %s associative" % (o, "right" if o == "?" else "left"), bool(entries[o][1]) == (o == "?"), construct="assoc:" + o)
    # R2
    for o, (_, _, fe) in entries.items():
        if o == "?":
            continue
        d = intsem.resolve_callable(project, mod, fe)
        if o in ("/", "%"):
            verdict, why = intsem.div_verdict(project, d, "div" if o == "/" else "rem")
            if verdict == "undecided":
                ctx.undecided("C26.R2", site, "`%s`: %s" % (o, why))
            else:
                ctx.ob("C26.R2", site, "`%s` truncates toward zero as C 6.5.5 requires" % o, verdict == "trunc", construct="sem:" + o, node=fe, detail="%s: %s" % (verdict, why))
        elif o in PYOP:
            used = intsem.python_ops_used(d)
            if d.kind == "unknown":
                ctx.undecided("C26.R2", site, "callable of `%s` not resolved" % o)
            else:
                ctx.ob("C26.R2", site, "`%s` is evaluated with Python `%s`" % (o, PYOP[o]), PYOP[o] in used and not (used - {PYOP[o]}), construct="sem:" + o, node=fe, detail="%r uses %s" % (d, sorted(used)))
    # R3
    bt = ctx.fn(F, "CPreProcessor._binop_take")
    ok = None
    for n in walk_no_nested(bt):
        if isinstance(n, ast.If) and "left_associative" in norm(n.test):
            r1 = [x.value for x in n.body if isinstance(x, ast.Return)]
            r2 = [x.value for x in n.orelse if isinstance(x, ast.Return)]
            if r1 and r2 and isinstance(r1[0], ast.Compare) and isinstance(r2[0], ast.Compare):
                pos = not norm(n.test).startswith("not ")
                l, r = (r1[0], r2[0]) if pos else (r2[0], r1[0])
                ok = isinstance(l.ops[0], ast.Gt) and isinstance(r.ops[0], ast.GtE) and norm(l.left) == "op_prio" and norm(r.left) == "op_prio"
    if ok is None:
        ctx.undecided("C26.R3", F + ":CPreProcessor._binop_take", "associativity test not recognised")
    else:
        ctx.ob("C26.R3", F + ":CPreProcessor._binop_take", "left associative: take iff op_prio > priority; right associative: op_prio >= priority", ok, construct="take")
    # R4
    pe = ctx.fn(F, "CPreProcessor.parse_expression")
    for c in calls_in(pe, "cnum"):
        st = c
        while not isinstance(st, ast.stmt):
            st = st._parent
        discarded = isinstance(st, ast.Assign) and isinstance(st.targets[0], ast.Tuple) and len(st.targets[0].elts) == 2 and norm(st.targets[0].elts[1]) == "_"
        ctx.ob("C26.R4", F + ":CPreProcessor.parse_expression", "the type specifiers returned by cnum() (u/l suffixes) are used, so unsigned operands get unsigned arithmetic",
               not discarded, construct="cnum-type-specifier", node=c, detail=norm(st))
