"""C35 - GDB remote serial protocol: escape alphabet and its inverse, ack
alphabet between decoder and handler, checksum span/modulus on both sides,
packet terminator, lock scope and bounded retransmission of sendpkt.
Interleavings of acks and notifications (schedules) are not decided."""
import ast

from ..core import norm, walk_no_nested, try_const, calls_in, last_name, consts_in

F = "ppci/binutils/dbg/gdb/rsp.py"
FRAMING = {"$", "#", "}"}   # start, end, escape: must never appear raw in a payload (GDB RSP, "Overview")


def _anc(n):
    out = []
    n = getattr(n, "_parent", None)
    while n is not None:
        out.append(n)
        n = getattr(n, "_parent", None)
    return out


def _xor_consts(fn):
    return {try_const(n.right) for n in ast.walk(fn) if isinstance(n, ast.BinOp) and isinstance(n.op, ast.BitXor) and isinstance(try_const(n.right), int)}


def run(ctx):
    ctx.rule("C35.R1", "the escape alphabet of rsp_pack covers the framing characters, `}` is escaped first, and rsp_unpack inverts the escape with the same constant", floor=5)
    ctx.rule("C35.R2", "every acknowledgement the handler waits for is a message the byte decoder can yield", floor=2)
    ctx.rule("C35.R3", "checksum: same span (payload as sent), same modulus, two hex digits; a mismatch is negatively acknowledged", floor=5)
    ctx.rule("C35.R4", "sendpkt holds the lock from send to acknowledgement, retransmits the same bytes, and the retry loop is bounded", floor=4)
    ctx.rule("C35.R5", "the decoder ends a packet at `#` unconditionally and takes exactly two checksum characters", floor=2)
    pack = ctx.fn(F, "RspHandler.rsp_pack")
    unpack = ctx.fn(F, "RspHandler.rsp_unpack")
    dec = ctx.fn(F, "decoder")
    ps, us = F + ":RspHandler.rsp_pack", F + ":RspHandler.rsp_unpack"
    # R1
    alpha = None
    for n in ast.walk(pack):
        if isinstance(n, ast.Tuple) and n.elts and all(isinstance(try_const(e), str) and len(try_const(e)) == 1 for e in n.elts):
            alpha = [try_const(e) for e in n.elts]
    ctx.need(alpha is not None, "rsp_pack: escape alphabet tuple not found")
    for ch in sorted(FRAMING):
        ctx.ob("C35.R1", ps, "framing character %r is escaped" % ch, ch in alpha, construct="escaped:" + ch)
    ctx.ob("C35.R1", ps, "`}` is escaped before the other characters (its escapes would otherwise be escaped again)", alpha[0] == "}", construct="escape-order", detail=str(alpha))
    kx = _xor_consts(pack)
    ctx.ob("C35.R1", ps, "escaped character is the original XOR 0x20", kx == {0x20}, construct="xor-pack", detail=str(kx))
    bad = [a for a in alpha if chr(ord(a) ^ 0x20) in FRAMING | set(alpha)]
    ctx.ob("C35.R1", ps, "no escaped form is itself a special character", not bad, construct="escape-closed", detail=str(bad))
    ux = _xor_consts(unpack)
    esc_test = [n for n in ast.walk(unpack) if isinstance(n, ast.Compare) and len(n.ops) == 1 and isinstance(n.ops[0], ast.Eq) and try_const(n.comparators[0]) == "}"]
    loops = [n for n in walk_no_nested(unpack) if isinstance(n, (ast.For, ast.While))]
    ctx.ob("C35.R1", us, "rsp_unpack scans the payload for `}` and restores the following character with XOR 0x20", bool(esc_test) and bool(loops) and ux == kx, construct="unescape", detail="xor constants %s" % sorted(ux))
    rets = [r.value for r in walk_no_nested(unpack) if isinstance(r, ast.Return) and r.value is not None]
    raw = [r for r in rets if isinstance(r, ast.Name) and r.id == "pkt" or isinstance(r, ast.Subscript)]
    ctx.ob("C35.R1", us, "the value returned is the unescaped data, not the raw slice of the packet", bool(rets) and not raw, construct="returns-unescaped")

    # R2
    pb = ctx.fn(F, "RspHandler._process_byte")
    acks = set()
    for n in ast.walk(pb):
        if isinstance(n, ast.Compare) and isinstance(n.ops[0], ast.In) and norm(n.left) == "msg":
            v = try_const(n.comparators[0])
            if isinstance(v, (list, tuple, set)):
                acks |= set(v)
    ctx.need(acks, "_process_byte: ack alphabet not found")
    yielded = set()
    for n in ast.walk(dec):
        if isinstance(n, ast.If):
            t = n.test
            if isinstance(t, ast.Compare) and norm(t.left) == "byte" and any(isinstance(y, ast.Yield) and y.value is not None and "decode" in norm(y.value) for s in n.body for y in ast.walk(s)):
                v = try_const(t.comparators[0])
                vs = v if isinstance(v, (list, tuple, set)) else [v]
                for b in vs:
                    if isinstance(b, bytes) and not (b == b"$"):
                        yielded.add(b.decode("ascii"))
    for a in sorted(acks):
        ctx.ob("C35.R2", F + ":decoder", "the decoder yields %r as a message of its own" % a, a in yielded, construct="ack:" + a, detail="decoder yields %s" % sorted(yielded))
    sp = ctx.fn(F, "RspHandler.sendpkt")
    cmp_ = [n for n in ast.walk(sp) if isinstance(n, ast.Compare) and norm(n.left) == "res"]
    ok = bool(cmp_) and all(try_const(c.comparators[0]) == "+" and isinstance(c.ops[0], ast.NotEq) for c in cmp_)
    ctx.ob("C35.R2", F + ":RspHandler.sendpkt", "anything but `+` counts as not acknowledged", ok, construct="ack-test")

    # R3
    def crc_parts(fn):
        for n in ast.walk(fn):
            if isinstance(n, ast.BinOp) and isinstance(n.op, ast.Mod) and isinstance(n.left, ast.Call) and norm(n.left.func) == "sum":
                gen = n.left.args[0]
                return try_const(n.right), norm(gen.generators[0].iter) if isinstance(gen, ast.GeneratorExp) else None, norm(gen.elt) if isinstance(gen, ast.GeneratorExp) else None, n
        return None
    cp, cu = crc_parts(pack), crc_parts(unpack)
    ctx.need(cp is not None and cu is not None, "checksum expressions not found")
    ctx.ob("C35.R3", ps, "checksum is the sum of the character codes modulo 256", cp[0] == 256 and cp[2] == "ord(c)", construct="crc-pack")
    ctx.ob("C35.R3", us, "receiver uses the same modulus and summand", cu[0] == cp[0] and cu[2] == cp[2], construct="crc-unpack")
    # span: sender sums the escaped data (after the escape loop); receiver sums between `$` and `#`
    esc_loop = [n for n in walk_no_nested(pack) if isinstance(n, ast.For)]
    crc_stmt = cp[3]
    while not isinstance(crc_stmt, ast.stmt):
        crc_stmt = crc_stmt._parent
    ok = bool(esc_loop) and cp[1] == "data" and esc_loop[0].lineno < crc_stmt.lineno
    ctx.ob("C35.R3", ps, "the sender sums the payload as transmitted (after escaping)", ok, construct="span-pack")
    ctx.ob("C35.R3", us, "the receiver sums exactly the characters between `$` and `#`", cu[1] == "pkt[1:-3]", construct="span-unpack", detail=str(cu[1]))
    fmt = [c for c in consts_in(pack, str)] if False else None
    ftxt = norm(pack)
    ctx.ob("C35.R3", ps, "checksum is sent as two hex digits", ":02X" in ftxt or ":02x" in ftxt or "%02X" in ftxt or "%02x" in ftxt, construct="two-digits")
    ctx.ob("C35.R3", us, "checksum is read from the last two characters in base 16", "int(pkt[-2:], 16)" in norm(unpack), construct="read-digits")
    raises = [n for n in ast.walk(unpack) if isinstance(n, ast.If) and "crc" in norm(n.test) and any(isinstance(x, ast.Raise) for x in n.body)]
    ctx.ob("C35.R3", us, "a checksum mismatch raises ValueError", bool(raises) and isinstance(raises[0].test, ast.Compare) and isinstance(raises[0].test.ops[0], ast.NotEq), construct="mismatch-raises")
    dp = ctx.fn(F, "RspHandler.decodepkt")
    tr = [n for n in ast.walk(dp) if isinstance(n, ast.Try)]
    ok = False
    if tr:
        t = tr[0]
        h = [x for x in t.handlers if x.type is not None and "ValueError" in norm(x.type)]
        nack = h and any(isinstance(c, ast.Call) and last_name(c) == "send" and try_const(c.args[0]) == "-" for s in h[0].body for c in ast.walk(s))
        ack_else = any(isinstance(c, ast.Call) and last_name(c) == "send" and try_const(c.args[0]) == "+" for s in t.orelse for c in ast.walk(s))
        deliver = any(isinstance(c, ast.Call) and last_name(c) == "on_message" for s in t.orelse for c in ast.walk(s))
        nodeliver = h and not any(isinstance(c, ast.Call) and last_name(c) == "on_message" for s in h[0].body for c in ast.walk(s))
        ok = bool(nack and ack_else and deliver and nodeliver)
    ctx.ob("C35.R3", F + ":RspHandler.decodepkt", "bad packet: `-` and no delivery; good packet: `+` and exactly one delivery", ok, construct="nack-on-bad")

    # R4
    ss = F + ":RspHandler.sendpkt"
    withs = [n for n in walk_no_nested(sp) if isinstance(n, ast.With) and "_lock" in norm(n.items[0].context_expr)]
    sends = [c for c in calls_in(sp, "send")]
    gets = [c for c in calls_in(sp, "get") if "_ack_queue" in norm(c.func)]
    inside = lambda c: any(a in withs for a in _anc(c))
    ctx.ob("C35.R4", ss, "every send and every wait for the acknowledgement happens under self._lock", bool(withs) and bool(sends) and bool(gets) and all(inside(c) for c in sends + gets), construct="lock-scope")
    args = {norm(c.args[0]) for c in sends}
    ctx.ob("C35.R4", ss, "a retransmission sends the same wire bytes as the first transmission", len(args) == 1, construct="same-bytes", detail=str(sorted(args)))
    loops = [n for n in walk_no_nested(sp) if isinstance(n, ast.While)]
    ok = False
    if loops:
        l = loops[0]
        dec_r = any(isinstance(s, ast.AugAssign) and isinstance(s.op, ast.Sub) and norm(s.target) == "retries" for s in ast.walk(l))
        rz = any(isinstance(s, ast.If) and "retries" in norm(s.test) and any(isinstance(x, ast.Raise) for x in s.body) for s in ast.walk(l))
        resend = any(isinstance(c, ast.Call) and last_name(c) == "send" for c in ast.walk(l))
        reget = any(isinstance(c, ast.Call) and last_name(c) == "get" for c in ast.walk(l))
        ok = dec_r and rz and resend and reget
    ctx.ob("C35.R4", ss, "the retransmission loop re-sends, waits again, counts down `retries` and raises when exhausted", ok, construct="bounded-retry")
    ctx.ob("C35.R4", ss, "waiting for the acknowledgement has a timeout", all(any(k.arg == "timeout" for k in c.keywords) for c in gets), construct="ack-timeout")

    # R5
    ds = F + ":decoder"
    term = [n for n in ast.walk(dec) if isinstance(n, ast.If) and 'ord("#")' in norm(n.test).replace("'", '"')]
    ctx.need(term, "decoder: terminator test not found")
    t = term[0]
    ctx.ob("C35.R5", ds, "`#` ends the payload whatever the previous byte was (a raw `#` never occurs inside a payload)", not isinstance(t.test, ast.BoolOp), construct="terminator-unconditional", node=t, detail=norm(t.test))
    ys = [y for s in t.body for y in ast.walk(s) if isinstance(y, ast.Yield)]
    plain = [y for y in ys if y.value is None]
    final = [y for y in ys if y.value is not None]
    ctx.ob("C35.R5", ds, "exactly two more bytes are consumed before the packet is yielded", len(plain) == 2 and len(final) == 1, construct="two-crc-bytes", node=t)
    _dispatch(ctx)

    _decoder_lifetime(ctx)
    _roundtrip_model(ctx)

def _dispatch(ctx):
    """R6: every byte that arrives outside a packet is looked at by the dispatch ($, +, -): the skip branch consumes
    exactly one byte per pass"""
    ctx.rule("C35.R6", "decoder: outside a packet every byte goes through the dispatch on `$`, `+`, `-`; skipping an unknown byte consumes that byte only, so an acknowledgement right after line noise still reaches the ack queue", floor=3)
    dec = ctx.fn(F, "decoder")
    site = F + ":decoder"
    outer = [n for n in dec.body if isinstance(n, ast.While)]
    ctx.need(len(outer) == 1 and len(outer[0].body) == 1 and isinstance(outer[0].body[0], ast.If), "decoder: top-level dispatch loop not found")
    chain = []
    cur = outer[0].body[0]
    while True:
        chain.append((cur.test, cur.body))
        if len(cur.orelse) == 1 and isinstance(cur.orelse[0], ast.If):
            cur = cur.orelse[0]
        else:
            chain.append((None, cur.orelse))
            break
    tests = [norm(t) if t is not None else "else" for t, _ in chain]
    ctx.ob("C35.R6", site, "the dispatch distinguishes packet start, acknowledgements and everything else", len(chain) == 3 and "b'$'" in tests[0] and "b'+'" in tests[1] and "b'-'" in tests[1] and tests[2] == "else", construct="dispatch-arms", detail=str(tests))
    if len(chain) == 3:
        skip = chain[2][1]
        loops = [x for s in skip for x in ast.walk(s) if isinstance(x, (ast.While, ast.For))]
        yields = [x for s in skip for x in ast.walk(s) if isinstance(x, ast.Yield)]
        ctx.ob("C35.R6", site, "the skip arm takes exactly one further byte and returns to the dispatch (no inner loop that reads on until `$`)", not loops and len(yields) == 1, construct="skip-one-byte", node=loops[0] if loops else None,
               detail="%d loop(s), %d yield(s) in the skip arm" % (len(loops), len(yields)))
        ack = chain[1][1]
        ay = [x for s in ack for x in ast.walk(s) if isinstance(x, ast.Yield)]
        ok = len(ay) == 1 and ay[0].value is not None and "decode" in norm(ay[0].value) and not [x for s in ack for x in ast.walk(s) if isinstance(x, (ast.While, ast.For))]
        ctx.ob("C35.R6", site, "an acknowledgement byte is yielded as its own message and the next byte is dispatched again", ok, construct="ack-one-byte")


def _decoder_lifetime(ctx):
    """R7: the receive side is one generator that holds the bytes of a half-received packet.  It belongs to the
    connection: it is created once with the handler and is fed every byte.  Replacing it (e.g. to "resynchronise" when
    OUR packet was nacked) throws away the start of an incoming packet whose tail is still on the wire."""
    ctx.rule("C35.R7", "the byte decoder lives as long as the handler: it is created (and primed) in __init__ only, nothing in the send / ack / retransmit path replaces it, and _process_byte feeds every received byte to it", floor=3)
    cls = ctx.cls(F, "RspHandler")
    makers = []
    for m in [m for m in cls.body if isinstance(m, ast.FunctionDef)]:
        for n in ast.walk(m):
            if isinstance(n, ast.Assign) and norm(n.targets[0]) == "self._packet_decoder":
                makers.append(m.name)
    ctx.need(makers, "RspHandler: creation of the packet decoder not found")
    # methods that (re)create the decoder, and who calls them
    creators = set(makers)
    callers = {}
    for m in [m for m in cls.body if isinstance(m, ast.FunctionDef)]:
        for c in ast.walk(m):
            if isinstance(c, ast.Call) and isinstance(c.func, ast.Attribute) and norm(c.func.value) == "self" and c.func.attr in creators and m.name not in creators:
                callers.setdefault(c.func.attr, set()).add(m.name)
    ok = all(c == "__init__" or (callers.get(c) and callers[c] <= {"__init__"}) for c in creators)
    ctx.ob("C35.R7", F + ":RspHandler", "the decoder is created from __init__ only (a half-received packet survives nacks and retransmissions of our own packets)", ok, construct="decoder-created-once",
           detail="created in %s; called from %s" % (sorted(creators), {k: sorted(v) for k, v in callers.items()}))
    ini = ctx.fn(F, "RspHandler.__init__")
    prim = any(isinstance(c, ast.Call) and norm(c.func) == "next" and "_packet_decoder" in norm(c) for m in cls.body if isinstance(m, ast.FunctionDef) and m.name in creators for c in ast.walk(m))
    ctx.ob("C35.R7", F + ":RspHandler", "and primed to its first yield before the first byte is sent to it", prim, construct="decoder-primed")
    pb = ctx.fn(F, "RspHandler._process_byte")
    first = pb.body[0]
    ok = isinstance(first, ast.Assign) and isinstance(first.value, ast.Call) and norm(first.value.func) == "self._packet_decoder.send" and norm(first.value.args[0]) == pb.args.args[1].arg
    ctx.ob("C35.R7", F + ":RspHandler._process_byte", "every received byte is sent to that decoder, unconditionally and first", ok, construct="every-byte-fed")


def _roundtrip_model(ctx):
    """R8: rsp_pack and rsp_unpack are pure string functions.  Their ASTs are evaluated by sa/minieval on every payload of
    length 0..3 over an alphabet that contains each framing / escape character, one character that an escape produces and
    two plain ones: the packet has the frame `$ body # hh`, no framing character appears raw in the body, unpack gives
    the payload back (the empty payload `$#00` - gdb's "unsupported" reply - included), and a packet whose checksum or
    frame is damaged is rejected."""
    from .. import minieval
    import itertools
    ctx.rule("C35.R8", "rsp_pack / rsp_unpack evaluated on every payload of length 0..3 over {a, ], space, $, #, }, *}: framed as `$body#hh` with no raw framing character in the body, unpack(pack(p)) == p (empty payload included), damaged checksum or frame rejected", floor=4)
    pk = ctx.fn(F, "RspHandler.rsp_pack")
    un = ctx.fn(F, "RspHandler.rsp_unpack")
    site = F + ":RspHandler.rsp_pack/rsp_unpack"
    alpha = ["a", "]", " ", "$", "#", "}", "*"]
    menv = minieval.module_env(ctx.project.module(F).tree)
    for c in ctx.cls(F, "RspHandler").body:
        if isinstance(c, ast.FunctionDef) and any(norm(d) == "staticmethod" for d in c.decorator_list):
            menv["__funcs__"].setdefault(c.name, c)
    bad_frame, bad_rt, bad_rej, n = [], [], [], 0
    try:
        for k in range(0, 4):
            for tup in itertools.product(alpha, repeat=k):
                p = "".join(tup)
                n += 1
                packet = minieval.call(pk, [p], menv)
                body = packet[1:-3] if isinstance(packet, str) else ""
                cs = "%02x" % (sum(ord(c) for c in body) % 256)
                if not (isinstance(packet, str) and len(packet) >= 4 and packet[0] == "$" and packet[-3] == "#" and "$" not in body and "#" not in body and packet[-2:].lower() == cs):
                    bad_frame.append((p, packet))
                    continue
                try:
                    back = minieval.call(un, [packet], menv)
                except minieval.Rejected as e:
                    back = "<rejected: %s>" % e
                if back != p:
                    bad_rt.append((p, packet, back))
                if k <= 2:
                    wrong = packet[:-2] + ("%02X" % ((int(packet[-2:], 16) + 1) % 256))
                    for dmg in (wrong, "x" + packet[1:], packet[:-3] + "x" + packet[-2:]):
                        try:
                            minieval.call(un, [dmg], menv)
                            bad_rej.append(dmg)
                        except minieval.Rejected:
                            pass
    except minieval.Undecidable as e:
        ctx.undecided("C35.R8", site, "evaluation: %s" % e)
        return
    ctx.ob("C35.R8", F + ":RspHandler.rsp_pack", "every packet is `$` body `#` two checksum digits of the body as sent, and the body contains no raw `$` or `#` (%d payloads)" % n, not bad_frame, construct="frame", detail=str(bad_frame[:3]))
    ctx.ob("C35.R8", F + ":RspHandler.rsp_unpack", "unpack(pack(p)) == p for every payload (%d payloads, the empty one included)" % n, not bad_rt, construct="roundtrip", detail="(payload, packet, unpacked): %s" % bad_rt[:3])
    ctx.ob("C35.R8", F + ":RspHandler.rsp_unpack", "a packet with a wrong checksum, a wrong start or a wrong end marker is rejected", not bad_rej, construct="damage-rejected", detail=str(bad_rej[:3]))
    dp = ctx.fn(F, "RspHandler.decodepkt")
    tr = [t for t in ast.walk(dp) if isinstance(t, ast.Try) and any(isinstance(c, ast.Call) and norm(c.func) == "self.rsp_unpack" for st in t.body for c in ast.walk(st))]
    ok = len(tr) == 1 and any("ValueError" in norm(h.type) for h in tr[0].handlers if h.type is not None) and any(isinstance(c, ast.Call) and norm(c.func) == "self.on_message" for st in tr[0].orelse + tr[0].body for c in ast.walk(st))
    ctx.ob("C35.R8", F + ":RspHandler.decodepkt", "a packet that unpacks is delivered to on_message; only a rejected one is negatively acknowledged", ok, construct="delivered")
