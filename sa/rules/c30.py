"""C30 - determinism: no order-sensitive consumption of builtin sets on the
compile -> object path.  A builtin set of registers, blocks or graph nodes
iterates in an order derived from object addresses, so an arbitrary pick or
a loop that creates ordered things (nodes, edges, registers, instructions)
from such a set makes the output differ from run to run."""
import ast

from ..core import norm
from .. import determinism as det

PREFIXES = ("ppci/codegen/", "ppci/opt/", "ppci/graph/", "ppci/irutils/", "ppci/binutils/linker.py", "ppci/binutils/layout.py",
            "ppci/binutils/objectfile.py", "ppci/binutils/outstream.py", "ppci/binutils/archive.py", "ppci/lang/c/codegenerator.py",
            "ppci/lang/c3/codegenerator.py", "ppci/arch/")
# reviewed sites: (module, function, kind) -> reason the iteration order cannot reach the output
REVIEWED = {
    ("ppci/arch/mcs6500/arch.py", "determine_arg_locations", "sequence"): "live_in is created empty and never added to: tuple() of an empty set",
    ("ppci/arch/mcs6500/arch.py", "determine_rv_location", "sequence"): "live_out holds exactly one register",
    ("ppci/arch/stm8/arch.py", "determine_arg_locations", "sequence"): "the tuple is only handed to RegisterUseDef, which stores it as a use set",
    ("ppci/arch/stm8/arch.py", "determine_rv_location", "sequence"): "live_out holds exactly one register",
    ("ppci/codegen/flowgraph.py", "calculate_liveness", "loop"): "appends to the list keyed by the loop variable itself; lists of different registers do not interact (and live_ranges() has no caller)",
    ("ppci/graph/graph.py", "topological_sort", "pick"): "ppci.graph.graph.topological_sort has no caller in ppci/",
    ("ppci/graph/relooper.py", "follows_loop", "sequence"): "guarded by len(...) != 1 -> raise: the set has exactly one element",
}
# sites where the order can reach an output in principle but no diverging compilation was found
HAZARD = {}
CONTROL = """
class G:
    def __init__(self):
        self.live = set()
        self.by_block = {}
    def f(self, out):
        for r in self.live:
            out.append(r)
        work = set(out)
        first = work.pop()
        self.by_block[first] = set()
        for b in self.by_block[first]:
            out.append(b)
        return [x for x in work | {first}]
"""


STATEFUL_CTORS = ("itertools.count", "count", "itertools.cycle", "cycle", "iter", "itertools.chain")
CONTROL_STATE = """
import itertools
_serial = 0
class Gen:
    numbers = itertools.count(1)
    made = 0
    def name(self):
        global _serial
        _serial += 1
        Gen.made += 1
        type(self).made += 1
        return "b%d" % next(self.numbers)
_seen = []
def remember(x):
    _seen.append(x)
    return len(_seen)
class Fr:
    calls = []
    own = []
    def __init__(self):
        self.own = []
    def add(self, n):
        self.calls.append(n)
        self.own.append(n)
"""
# reviewed: (module, kind, normalised construct prefix) -> why what was compiled before cannot change an output
REVIEWED_STATE = {
    ("ppci/ir.py", "shared-container", "cls._instances[key] = obj"): "interning of IR types keyed by their value: a lookup returns an equal object whatever was interned before",
    ("ppci/ir.py", "shared-container", "cls._cache[key] = obj"): "interning of IR types keyed by their value",
}


def process_state_sites(tree):
    """constructs that keep state for the lifetime of the process (not of one compilation):
    class- or module-level stateful iterators, counters kept in globals or class attributes"""
    out = []
    def shared_level(body, where):
        for st in body:
            if isinstance(st, (ast.Assign, ast.AnnAssign)) and getattr(st, "value", None) is not None:
                v = st.value
                if isinstance(v, ast.Call) and (norm(v.func) in STATEFUL_CTORS or (isinstance(v.func, ast.Attribute) and v.func.attr in ("count", "cycle") and "itertools" in norm(v.func))):
                    out.append(("shared-iterator", st, "%s-level `%s`" % (where, norm(st))))
                elif isinstance(v, ast.GeneratorExp):
                    out.append(("shared-iterator", st, "%s-level generator `%s`" % (where, norm(st)[:60])))
            elif isinstance(st, ast.ClassDef):
                shared_level(st.body, "class")
            elif isinstance(st, (ast.If, ast.Try)):
                shared_level(getattr(st, "body", []), where)
    shared_level(tree.body, "module")
    classes = {c.name for c in ast.walk(tree) if isinstance(c, ast.ClassDef)}
    shared = {}

    def containers(body, where):
        for st in body:
            if isinstance(st, ast.Assign) and len(st.targets) == 1 and isinstance(st.targets[0], ast.Name):
                v = st.value
                empty_lit = isinstance(v, (ast.List, ast.Dict, ast.Set)) and not (getattr(v, "elts", None) or getattr(v, "keys", None))
                if empty_lit or (isinstance(v, ast.Call) and norm(v.func) in ("set", "dict", "list", "defaultdict", "OrderedDict", "collections.defaultdict", "collections.OrderedDict", "OrderedSet")):
                    shared[(where, st.targets[0].id)] = st
            elif isinstance(st, ast.ClassDef):
                containers(st.body, st.name)
    containers(tree.body, None)

    def is_shared(b):
        if isinstance(b, ast.Name):
            return (None, b.id) in shared
        if isinstance(b, ast.Attribute):
            return any(w is not None and n == b.attr and norm(b.value) in ("cls", "type(self)", "self.__class__", w) for (w, n) in shared)
        return False
    # a class-level container reached through an INSTANCE (self.x.append(..)) is the same shared object unless some method rebinds self.x
    cdefs = {c.name: c for c in ast.walk(tree) if isinstance(c, ast.ClassDef)}
    def lineage(name, seen=()):
        c = cdefs.get(name)
        if c is None or name in seen:
            return []
        out_ = [c]
        for b in c.bases:
            if isinstance(b, ast.Name):
                out_ += lineage(b.id, seen + (name,))
        return out_
    def rebinds(c):
        return {t.attr for m in c.body if isinstance(m, (ast.FunctionDef, ast.AsyncFunctionDef)) for n in ast.walk(m) if isinstance(n, (ast.Assign, ast.AnnAssign))
                for t in (n.targets if isinstance(n, ast.Assign) else [n.target]) if isinstance(t, ast.Attribute) and isinstance(t.value, ast.Name) and t.value.id == "self"}
    for cname, c in cdefs.items():
        line = lineage(cname)
        rebound = set().union(*[rebinds(x) for x in line]) if line else set()
        # subclasses in this module may rebind too, but an instance of THIS class is not helped by that
        attrs = {n for x in line for (w, n) in shared if w == x.name}
        for m in c.body:
            if not isinstance(m, (ast.FunctionDef, ast.AsyncFunctionDef)):
                continue
            for n in ast.walk(m):
                tgt = None
                if isinstance(n, ast.Call) and isinstance(n.func, ast.Attribute) and n.func.attr in ("append", "add", "update", "setdefault", "extend", "insert", "pop", "remove", "clear"):
                    tgt = n.func.value
                elif isinstance(n, (ast.Assign, ast.AugAssign)):
                    for t in (n.targets if isinstance(n, ast.Assign) else [n.target]):
                        if isinstance(t, ast.Subscript):
                            tgt = t.value
                if isinstance(tgt, ast.Attribute) and isinstance(tgt.value, ast.Name) and tgt.value.id == "self" and tgt.attr in attrs and tgt.attr not in rebound:
                    out.append(("shared-container", n, "`%s` grows the class-level container %s.%s through an instance: every instance shares it (in %s)" % (" ".join(norm(n).split())[:60], cname, tgt.attr, m.name)))
    for fn in [n for n in ast.walk(tree) if isinstance(n, (ast.FunctionDef, ast.AsyncFunctionDef))]:
        locs = {a.arg for a in fn.args.args} | {t.id for n in ast.walk(fn) if isinstance(n, ast.Assign) for t in n.targets if isinstance(t, ast.Name)}
        for n in ast.walk(fn):
            hit = None
            if isinstance(n, ast.Call) and isinstance(n.func, ast.Attribute) and n.func.attr in ("append", "add", "update", "setdefault", "extend", "insert", "pop", "remove", "clear") and is_shared(n.func.value):
                hit = n.func.value
            elif isinstance(n, (ast.Assign, ast.AugAssign)):
                for t in (n.targets if isinstance(n, ast.Assign) else [n.target]):
                    if isinstance(t, ast.Subscript) and is_shared(t.value):
                        hit = t.value
            if hit is not None and not (isinstance(hit, ast.Name) and hit.id in locs):
                out.append(("shared-container", n, "`%s` grows a container that lives as long as the process (in %s)" % (" ".join(norm(n).split())[:60], fn.name)))
    for fn in [n for n in ast.walk(tree) if isinstance(n, (ast.FunctionDef, ast.AsyncFunctionDef))]:
        globs = {n for g in ast.walk(fn) if isinstance(g, ast.Global) for n in g.names}
        for n in ast.walk(fn):
            if isinstance(n, ast.AugAssign):
                t = n.target
                if isinstance(t, ast.Name) and t.id in globs:
                    out.append(("global-counter", n, "`%s` on a module global" % norm(n)))
                elif isinstance(t, ast.Attribute):
                    b = norm(t.value)
                    if b in classes or b in ("cls", "type(self)", "self.__class__"):
                        out.append(("class-counter", n, "`%s` on a class attribute" % norm(n)))
    return out


def run(ctx):
    ctx.rule("C30.R4", "no state that outlives one compilation feeds the compile path: no class- or module-level stateful iterator, no counter kept in a module global or class attribute (names and numbers derived from it depend on what the process compiled before)", floor=1)
    tree = ast.parse(CONTROL_STATE)
    ctx.need(sorted(k for k, _, _ in process_state_sites(tree)) == ["class-counter", "class-counter", "global-counter", "shared-container", "shared-container", "shared-iterator"], "C30.R4 positive control lost")
    n_mod = 0
    for rel in sorted(ctx.project.modules):
        if not rel.startswith(PREFIXES + ("ppci/ir.py", "ppci/api.py", "ppci/lang/c/", "ppci/lang/c3/", "ppci/utils/", "ppci/binutils/")):
            continue
        n_mod += 1
        for kind, node, txt in process_state_sites(ctx.project.module(rel).tree):
            why = REVIEWED_STATE.get((rel, kind, " ".join(norm(node).split())[:70]))
            if why:
                ctx.ob("C30.R4", rel, "reviewed: %s" % why, True, construct="reviewed-state:" + " ".join(norm(node).split())[:40])
                continue
            ctx.ob("C30.R4", rel, "no process-lifetime state on the compile path", False, construct="%s:%s" % (kind, " ".join(norm(node).split())[:70]), node=node, detail=txt)
    ctx.need(n_mod > 150, "compile-path modules not enumerated (%d)" % n_mod)
    ctx.ob("C30.R4", "ppci/*", "compile-path modules scanned for process-lifetime counters and iterators: %d" % n_mod, True, construct="scan-state")
    _cached_instances(ctx)
    ctx.rule("C30.R1", "no arbitrary pick (set.pop(), next(iter(set))) from a builtin set on the compile path", floor=1)
    ctx.rule("C30.R2", "no loop or sequence built from a builtin set whose body creates ordered things (append/insert/add_node/add_edge/get_node/new_reg/emit/yield)", floor=1)
    ctx.rule("C30.R3", "the interference graph, the DAG splitter and mem2reg consume their sets through an explicit order", floor=4)
    project = ctx.project
    per_class, by_attr = det.class_set_attrs(project)
    # positive control
    tree = ast.parse(CONTROL)
    for n in ast.walk(tree):
        for ch in ast.iter_child_nodes(n):
            ch._parent = n
    pc2 = {"G": {"live": "set", "by_block": "dictofset"}}
    fn = [n for n in ast.walk(tree) if isinstance(n, ast.FunctionDef) and n.name == "f"][0]

    class _P:
        def mro(self, c):
            return [c]
    kinds = sorted(k for k, _, _ in det.sinks(_P(), fn, pc2, {}))
    ctx.need(kinds == ["loop", "loop", "pick", "sequence"], "C30 positive control lost: %s" % kinds)
    n_fn = 0
    picks, loops = [], []
    for rel in sorted(project.modules):
        if not rel.startswith(PREFIXES) or "/instructions" in rel:
            continue
        mod = project.module(rel)
        for f in [n for n in ast.walk(mod.tree) if isinstance(n, ast.FunctionDef)]:
            n_fn += 1
            for kind, node, txt in det.sinks(project, f, per_class, by_attr):
                key = (rel, f.name, kind)
                rid = "C30.R1" if kind == "pick" else "C30.R2"
                site = "%s:%s" % (rel, f.name)
                if key in REVIEWED:
                    ctx.ob(rid, site, "reviewed: %s" % REVIEWED[key], True, construct="reviewed:" + kind)
                elif key in HAZARD:
                    ctx.undecided(rid, site, "`%s` - %s" % (txt, HAZARD[key]))
                else:
                    ctx.ob(rid, site, "the iteration order of a builtin set does not decide the order of created nodes, registers or instructions", False,
                           construct="%s:%s" % (kind, txt[:70]), node=node, detail=txt)
    ctx.need(n_fn > 1500, "compile-path functions not enumerated (%d)" % n_fn)
    ctx.extra["functions_scanned"] = n_fn
    ctx.ob("C30.R1", "ppci/*", "compile-path functions scanned for arbitrary picks: %d" % n_fn, True, construct="scan")
    ctx.ob("C30.R2", "ppci/*", "compile-path functions scanned for order-creating loops over sets: %d" % n_fn, True, construct="scan")

    # R3: explicit obligations at the three repaired sites
    ci = ctx.fn("ppci/codegen/interferencegraph.py", "InterferenceGraph.calculate_interference")
    fors = [n for n in ast.walk(ci) if isinstance(n, ast.For) and any(isinstance(c, ast.Call) and norm(c.func) in ("self.get_node", "self.add_edge") for b in n.body for c in ast.walk(b))]
    ctx.need(len(fors) >= 3, "calculate_interference loops not found")
    names = det.function_set_names(project, ci, per_class, by_attr)
    for i, f in enumerate(fors):
        it = f.iter
        # resolve a local to its single assignment
        if isinstance(it, ast.Name):
            asg = [n for n in ast.walk(ci) if isinstance(n, ast.Assign) and norm(n.targets[0]) == it.id]
            it = asg[0].value if len(asg) == 1 else it
        ordered = (isinstance(it, ast.Call) and ((norm(it.func) == "sorted" and any(k.arg == "key" for k in it.keywords)) or norm(it.func) in ("_ordered", "OrderedSet")))
        lst = isinstance(it, ast.Attribute) and it.attr in ("clobbers", "instructions") or isinstance(f.iter, ast.Name) and f.iter.id == "flowgraph"
        ctx.ob("C30.R3", "ppci/codegen/interferencegraph.py:InterferenceGraph.calculate_interference", "loop %d that creates nodes/edges iterates an explicitly ordered sequence" % i,
               (ordered or lst) and not det.is_set_expr(f.iter, names), construct="ordered-loop:%s" % norm(f.target), node=f, detail=norm(f.iter))
    od = [n for n in ast.walk(ctx.project.module("ppci/codegen/interferencegraph.py").tree) if isinstance(n, ast.FunctionDef) and n.name == "_ordered"]
    if od:
        key_ok = any(isinstance(c, ast.Call) and norm(c.func) == "sorted" and any(k.arg == "key" and ".name" in norm(k.value) for k in c.keywords) for c in ast.walk(od[0]))
        ctx.ob("C30.R3", "ppci/codegen/interferencegraph.py:_ordered", "registers are ordered by a value key (class name, register name), not by hash or id()", key_ok and "id(" not in norm(od[0]) and "hash(" not in norm(od[0]), construct="value-key")
    ts = ctx.fn("ppci/codegen/dagsplit.py", "topological_sort_modified")
    un = [n for n in ast.walk(ts) if isinstance(n, ast.Assign) and norm(n.targets[0]) == "unmarked"]
    ctx.ob("C30.R3", "ppci/codegen/dagsplit.py:topological_sort_modified", "the work set the next root is picked from keeps insertion order", len(un) == 1 and isinstance(un[0].value, ast.Call) and norm(un[0].value.func) == "OrderedSet", construct="ordered-worklist")
    sg = ctx.fn("ppci/codegen/dagsplit.py", "DagSplitter.split_group_into_trees")
    ns = [n for n in ast.walk(sg) if isinstance(n, ast.Assign) and norm(n.targets[0]) == "nodes" and isinstance(n.value, ast.Call) and norm(n.value.func) in ("set", "OrderedSet", "list")]
    ctx.ob("C30.R3", "ppci/codegen/dagsplit.py:DagSplitter.split_group_into_trees", "the nodes of a block are kept in selection-graph order", bool(ns) and all(norm(n.value.func) != "set" for n in ns), construct="ordered-nodes")
    pp = ctx.fn("ppci/opt/mem2reg.py", "Mem2RegPromotor.place_phi_nodes")
    pnames = det.function_set_names(project, pp, per_class, by_attr)
    bad = [k for k, _, _ in det.sinks(project, pp, per_class, by_attr)]
    fr = [n for n in ast.walk(pp) if isinstance(n, ast.For) and any(isinstance(c, ast.Call) and norm(c.func) == "ir.Phi" for b in n.body for c in ast.walk(b))]
    ctx.ob("C30.R3", "ppci/opt/mem2reg.py:Mem2RegPromotor.place_phi_nodes", "phi nodes are created and numbered in an order independent of set iteration", not bad and bool(fr) and not any(det.is_set_expr(f.iter, pnames) for f in fr), construct="phi-order")


# counters of cached objects that cannot influence an output; (class, attribute) -> why
REVIEWED_INSTANCE_STATE = {
    ("RiscvAssembler", "lit_counter"): "RiscvAssembler.add_literal has no caller: the riscv assembler defines no `=symbol` pseudo load",
}


def _cached_instances(ctx):
    """R5: api.get_arch hands out architecture objects from a process-wide cache (functools.lru_cache on
    create_arch).  The architecture, and the assembler it creates for itself, therefore live as long as the process: a
    counter kept on them keeps counting across compilations, and a name derived from it depends on what was
    assembled before."""
    from ..core import last_name
    ctx.rule("C30.R5", "objects handed out by a process-wide cache (the architecture from create_arch and the assembler it owns) keep no counter across runs: every `self.x += ..` of such a class restarts from a constant in the same run (same method, before the counting loop, or prepare())", floor=3)
    project = ctx.project
    TL = "ppci/arch/target_list.py"
    ca = ctx.fn(TL, "create_arch")
    cached = any("lru_cache" in norm(d) or norm(d) in ("cache", "functools.cache") for d in ca.decorator_list)
    ctx.ob("C30.R5", TL + ":create_arch", "architecture objects are cached for the lifetime of the process (this is what makes their state process-lifetime state)", True, construct="arch-cache:" + ("lru_cache" if cached else "none"))
    if not cached:
        return
    # classes whose instances are cached: Architecture subclasses, and classes they instantiate into their own attributes
    arch_classes, owned = [], {}
    for rel, m in sorted(project.modules.items()):
        if not rel.startswith(("ppci/arch/", "ppci/binutils/assembler.py")):
            continue
        for q, c in m.defs.items():
            if not isinstance(c, ast.ClassDef):
                continue
            try:
                names = [b.name for b in project.mro(c)]
            except Exception:
                continue
            if "Architecture" in names:
                arch_classes.append((rel, c))
    for rel, c in arch_classes:
        for n in ast.walk(c):
            if isinstance(n, ast.Assign) and isinstance(n.value, ast.Call) and any(isinstance(t, ast.Attribute) and norm(t.value) == "self" for t in n.targets):
                cn = last_name(n.value)
                if cn and cn[:1].isupper():
                    owned.setdefault(cn, (rel, c.name))
    classes = {}
    for rel, m in sorted(project.modules.items()):
        if not rel.startswith(("ppci/arch/", "ppci/binutils/assembler.py")):
            continue
        for q, c in m.defs.items():
            if isinstance(c, ast.ClassDef) and (c.name in owned or any(c is a for _, a in arch_classes)):
                try:
                    for b in project.mro(c):
                        classes.setdefault(b.name, (getattr(b, "_module", m).rel if hasattr(getattr(b, "_module", m), "rel") else rel, b))
                except Exception:
                    classes.setdefault(c.name, (rel, c))
    ctx.need(len(arch_classes) >= 10 and "BaseAssembler" in classes, "cached classes not enumerated (%d architectures, BaseAssembler %s)" % (len(arch_classes), "BaseAssembler" in classes))
    n = 0
    for cname, (rel, c) in sorted(classes.items()):
        prep = [m for m in c.body if isinstance(m, ast.FunctionDef) and m.name == "prepare"]
        for m in c.body:
            if not isinstance(m, ast.FunctionDef):
                continue
            for a in ast.walk(m):
                if not (isinstance(a, ast.AugAssign) and isinstance(a.target, ast.Attribute) and norm(a.target.value) == "self"):
                    continue
                attr = a.target.attr
                n += 1
                def resets(f, before=None):
                    for x in ast.walk(f):
                        if isinstance(x, ast.Assign) and any(norm(t) == "self." + attr for t in x.targets) and isinstance(x.value, ast.Constant) and (before is None or x.lineno < before):
                            return True
                    return False
                loop = None
                p_ = getattr(a, "_parent", None)
                while p_ is not None and p_ is not m:
                    if isinstance(p_, (ast.For, ast.While)):
                        loop = p_
                    p_ = getattr(p_, "_parent", None)
                ok = (m.name != "__init__" and resets(m, before=(loop or a).lineno)) or any(resets(pm) for pm in prep)
                why = REVIEWED_INSTANCE_STATE.get((cname, attr))
                if not ok and why:
                    ctx.ob("C30.R5", "%s:%s.%s" % (rel, cname, m.name), "reviewed: %s" % why, True, construct="reviewed-counter:%s.%s" % (cname, attr))
                    continue
                ctx.ob("C30.R5", "%s:%s.%s" % (rel, cname, m.name), "the counter self.%s restarts from a constant in every run" % attr, ok, construct="cached-instance-counter:%s.%s" % (cname, attr), node=a,
                       detail="`%s`; the only other assignment is in __init__, which runs once per process for a cached object" % norm(a))
    ctx.need(n >= 3, "no instance counters found in the cached classes (%d)" % n)
