"""C12 - section placement: alignment padding dominates data/offset,
duplicate/undefined symbol errors, memory overflow check on the image
extent, overlap detection, symbol value composition."""
import ast

from ..core import (norm, walk_no_nested, calls_in, call_name, last_name, derives, attrs_in,
                    names_in, assigned_values, raises_in, compare_ops)
from ..cfg import CFG, EXIT, node_calls
from .. import sym, flow

L = "ppci/binutils/linker.py"
O = "ppci/binutils/objectfile.py"


def run(ctx):
    ctx.rule("C12.R1", "inject_object: alignment raised, padding dominates add_data and the recorded offset; symbol/reloc offsets = section offset + own offset", floor=7)
    ctx.rule("C12.R2", "merge_global_symbol: defined global meeting a defined global raises; undefined is completed", floor=3)
    ctx.rule("C12.R3", "layout_sections: address aligned before assignment, cursor advances by section size, image extent checked against memory size before add_image", floor=7)
    ctx.rule("C12.R4", "link: undefined-symbol check precedes relocation on the non-partial path and raises", floor=3)
    ctx.rule("C12.R5", "Image.data: overlap raises, gaps are filled up to the section address, size is the image extent", floor=4)
    ctx.rule("C12.R6", "get_symbol_id_value: undefined raises; section-relative symbols add the section address", floor=3)
    project = ctx.project

    # ---------------- R1 ----------------
    fn = ctx.fn(L, "Linker.inject_object")
    site = L + ":Linker.inject_object"
    cfg = CFG(fn)
    adds = [c for c in calls_in(fn, "add_data") if c.args and "data" in attrs_in(c.args[0]) and "input_section" in names_in(c.args[0])]
    ctx.need(len(adds) == 1, "inject_object: add_data(input_section.data) call not found")
    add_st = cfg.stmt_of(adds[0])
    aligns = [a for a in flow.alignment_sites(fn) if a[2] == "input_section.alignment" and a[1] in ("output_section.size", "<self>")]
    pads = [a for a in aligns if a[3] != "loop" or flow.loop_pad_advances(a[0], a[1])]
    ok = bool(pads) and cfg.must_pass(add_st, lambda n: any(n is p[0] for p in pads))
    ctx.ob("C12.R1", site, "output section is padded to input_section.alignment on every path before the input data is appended", ok, construct="pad-before-add", node=adds[0])
    # pad loop body appends exactly one byte per iteration
    for p in pads:
        if p[3] == "loop":
            one = [c for c in calls_in(p[0], "add_data")]
            ok1 = len(one) == 1 and norm(one[0].args[0]) in ("bytes([0])", "bytes(1)", "b'\\x00'")
            ctx.ob("C12.R1", site, "each padding step appends exactly one byte", ok1, construct="pad-one-byte", node=p[0], detail=norm(one[0]) if one else "")
    # offset recorded
    stores = [n for n in walk_no_nested(fn) if isinstance(n, ast.Assign) and isinstance(n.targets[0], ast.Subscript) and norm(n.targets[0].value) == "section_offsets"]
    ctx.need(len(stores) >= 1, "inject_object: section_offsets[...] store not found")
    for s in stores:
        atoms = derives(fn, s.value)
        src_ok = "attr:size" in atoms
        # the statement that reads output_section.size
        readers = [n for n in walk_no_nested(fn) if isinstance(n, ast.Assign) and "size" in attrs_in(n.value) and "output_section" in names_in(n.value)]
        reader = readers[0] if readers else s
        between = bool(pads) and cfg.must_pass(reader, lambda n: any(n is p[0] for p in pads)) and cfg.must_pass(add_st, lambda n: n is reader)
        ctx.ob("C12.R1", site, "recorded section offset is output_section.size read after padding and before the data is appended", src_ok and between,
               construct="offset-after-pad", node=s, detail=norm(s))
        ctx.ob("C12.R1", site, "offsets are recorded under the input section's name", norm(s.targets[0].slice) == "input_section.name", construct="offset-key", node=s)
    # alignment raised
    al = [n for n in walk_no_nested(fn) if isinstance(n, ast.Assign) and norm(n.targets[0]) == "output_section.alignment"]
    ok = False
    for a in al:
        if isinstance(a.value, ast.Call) and call_name(a.value) == "max" and {norm(x) for x in a.value.args} == {"input_section.alignment", "output_section.alignment"}:
            ok = True
        elif norm(a.value) == "input_section.alignment":
            for t, pol, node in flow.controlling(a):
                for l, op, r in compare_ops(t):
                    pair = (norm(l), op, norm(r))
                    if pol and pair in (("input_section.alignment", "Gt", "output_section.alignment"), ("output_section.alignment", "Lt", "input_section.alignment"),
                                        ("input_section.alignment", "GtE", "output_section.alignment"), ("output_section.alignment", "LtE", "input_section.alignment")):
                        ok = True
    ctx.ob("C12.R1", site, "output alignment becomes the maximum of the merged input alignments", ok, construct="max-alignment")
    # symbol value / reloc offset composition
    for var, sect, off, what in (("value", "symbol.section", "symbol.value", "symbol value"), ("offset", "reloc.section", "reloc.offset", "relocation offset")):
        ok = False
        for v in assigned_values(fn, var):
            if isinstance(v, ast.BinOp) and isinstance(v.op, ast.Add):
                parts = {norm(v.left), norm(v.right)}
                if parts == {"section_offsets[%s]" % sect, off}:
                    ok = True
        ctx.ob("C12.R1", site, "%s in the output = offset of its input section in the output section + its own offset" % what, ok, construct="compose:" + var)
    rel = [c for c in calls_in(fn, "RelocationEntry")]
    ok = len(rel) == 1 and [norm(a) for a in rel[0].args] == ["reloc.reloc_type", "symbol_id", "reloc.section", "offset", "reloc.addend"]
    ctx.ob("C12.R1", site, "relocations are copied with type, mapped symbol, section, shifted offset and addend", ok, construct="reloc-copy", detail=norm(rel[0]) if rel else "")
    sid = assigned_values(fn, "symbol_id")
    ctx.ob("C12.R1", site, "relocation symbol ids are mapped through symbol_id_mapping", any(norm(v) == "symbol_id_mapping[reloc.symbol_id]" for v in sid), construct="symbol-map")

    # ---------------- R2 ----------------
    fn = ctx.fn(L, "Linker.merge_global_symbol")
    site = L + ":Linker.merge_global_symbol"
    rs = list(raises_in(fn, {"CompilerError"}))
    ok = False
    for r in rs:
        conds = flow.controlling(r)
        und = any(("undefined" in attrs_in(t) and pol is False) or ("defined" in attrs_in(t) and "undefined" not in attrs_in(t) and pol is True) for t, pol, _ in conds)
        val = any((norm(t) == "value is not None" and pol is True) or (norm(t) == "value is None" and pol is False) for t, pol, _ in conds)
        has = any("has_symbol" in norm(t) and pol is True for t, pol, _ in conds)
        if und and val and has:
            ok = True
    ctx.ob("C12.R2", site, "a second definition of an already defined global raises CompilerError", ok, construct="dup-raise")
    comp = [n for n in walk_no_nested(fn) if isinstance(n, ast.Assign) and norm(n.targets[0]) in ("new_symbol.value", "new_symbol.section")]
    okc = {norm(n.targets[0]): norm(n.value) for n in comp} == {"new_symbol.value": "value", "new_symbol.section": "section"} and \
        all(any("undefined" in attrs_in(t) and pol is True for t, pol, _ in flow.controlling(n)) for n in comp)
    ctx.ob("C12.R2", site, "an undefined global is completed with the new value and section", okc, construct="complete-undefined")
    inj = [c for c in calls_in(fn, "inject_symbol")]
    ok = bool(inj) and [norm(a) for a in inj[0].args] == ["name", "'global'", "section", "value", "typ", "size"]
    ctx.ob("C12.R2", site, "an unknown global is injected with its section and value", ok, construct="inject-new")

    # ---------------- R3 ----------------
    fn = ctx.fn(L, "Linker.layout_sections")
    site = L + ":Linker.layout_sections"
    cfg = CFG(fn)
    aligns = flow.alignment_sites(fn)
    # Section branch
    sec_assigns = [n for n in walk_no_nested(fn) if isinstance(n, ast.Assign) and norm(n.targets[0]) == "section.address"]
    ctx.need(len(sec_assigns) >= 1, "layout_sections: section.address assignments not found")
    for a in sec_assigns:
        conds = flow.controlling(a, fn)
        kind = None
        for t, pol, _ in conds:
            if isinstance(t, ast.Call) and call_name(t) == "isinstance" and pol:
                kind = norm(t.args[1])
        ctx.ob("C12.R3", site, "section address is the layout cursor (current_address)", norm(a.value) == "current_address", construct="addr=%s" % kind, node=a)
        if kind == "Section":
            al = [x for x in aligns if x[1] == "current_address" and x[2] == "section.alignment" and (x[3] != "loop" or flow.loop_pad_advances(x[0], "current_address"))]
            # the alignment must lie between the branch test and the assignment
            branch = [n for t, pol, n in conds if isinstance(t, ast.Call) and call_name(t) == "isinstance"][0]
            ok = bool(al) and cfg.must_pass(a, lambda n: any(n is x[0] for x in al), start=branch)
            ctx.ob("C12.R3", site, "cursor is aligned to section.alignment before the address is assigned", ok, construct="align-before-assign", node=a)
        if kind in ("Section", "SectionData"):
            adv = lambda n: isinstance(n, ast.AugAssign) and norm(n.target) == "current_address" and isinstance(n.op, ast.Add) and norm(n.value) == "section.size"
            # from the assignment, every path back to the loop header passes the advance
            loop = [n for t, pol, n in []]
            inner_for = a
            while not isinstance(inner_for, ast.For):
                inner_for = inner_for._parent
            ok = not cfg.reachable(a, inner_for, [n for n in cfg.nodes if not isinstance(n, str) and adv(n)])
            ctx.ob("C12.R3", site, "cursor advances by section.size after a %s is placed" % kind, ok, construct="advance:%s" % kind, node=a)
        addsec = lambda n: any(last_name(c) == "add_section" and c.args and norm(c.args[0]) == "section" for c in node_calls(n))
        inner_for = a
        while not isinstance(inner_for, ast.For):
            inner_for = inner_for._parent
        ok = not cfg.reachable(a, inner_for, [n for n in cfg.nodes if not isinstance(n, str) and addsec(n)])
        ctx.ob("C12.R3", site, "every placed section (%s) is added to the memory image" % kind, ok, construct="add_section:%s" % kind, node=a)
    al = [x for x in aligns if x[1] == "current_address" and x[2] == "memory_input.alignment" and (x[3] != "loop" or flow.loop_pad_advances(x[0], "current_address"))]
    ok = bool(al) and any(any(isinstance(t, ast.Call) and call_name(t) == "isinstance" and norm(t.args[1]) == "Align" and pol for t, pol, _ in flow.controlling(x[0], fn)) for x in al)
    ctx.ob("C12.R3", site, "ALIGN directive aligns the cursor to its alignment", ok, construct="align-directive")
    # cursor starts at mem.location, image created at mem.location
    ok = any(norm(v) == "mem.location" for v in assigned_values(fn, "current_address"))
    ctx.ob("C12.R3", site, "cursor starts at the memory's location", ok, construct="cursor-start")
    img = [c for c in calls_in(fn, "Image")]
    ok = bool(img) and len(img[0].args) == 2 and norm(img[0].args[1]) == "mem.location"
    ctx.ob("C12.R3", site, "image is created at the memory's location", ok, construct="image-location")
    # overflow guard
    addimg = [c for c in calls_in(fn, "add_image")]
    ctx.need(len(addimg) == 1, "layout_sections: add_image call not found")

    def size_guard(test, pol):
        for l, op, r in compare_ops(test):
            for lhs, o, rhs in ((l, op, r), (r, {"Gt": "Lt", "Lt": "Gt", "GtE": "LtE", "LtE": "GtE"}.get(op, op), l)):
                if norm(rhs) == "mem.size" and ((pol and o in ("Gt", "GtE")) or (not pol and o in ("LtE", "Lt"))):
                    size_guard.lhs = lhs
                    size_guard.op = o
                    return True
        return False
    size_guard.lhs = None
    guards = flow.raising_guards(fn, size_guard)
    guards = [g for g in guards if isinstance(g[0], ast.If)]
    ok = flow.dominated_by_guard(cfg, cfg.stmt_of(addimg[0]), guards)
    ctx.ob("C12.R3", site, "`extent > mem.size: raise CompilerError` dominates add_image", ok, construct="overflow-guard", node=addimg[0])
    if size_guard.lhs is not None:
        atoms = derives(fn, size_guard.lhs, project, depth=3, follow_objects=False)
        addr = {"attr:address", "name:current_address", "attr:location"} & atoms or ("current_address" in names_in(size_guard.lhs))
        ctx.ob("C12.R3", site, "the extent compared with mem.size is address based (image.size / cursor - location), so alignment padding and gaps count",
               bool(addr), construct="extent-includes-padding", node=size_guard.lhs, detail="%s derives from %s" % (norm(size_guard.lhs), sorted(a for a in atoms if not a.startswith("const"))[:12]))
        g = guards[0][0] if guards else None
        if g is not None:
            exc = [r for r in raises_in(g, {"CompilerError"})]
            ctx.ob("C12.R3", site, "overflow is reported as CompilerError", bool(exc), construct="overflow-exc")

    # ---------------- R4 ----------------
    fn = ctx.fn(L, "Linker.link")
    site = L + ":Linker.link"
    cfg = CFG(fn)
    rel = [c for c in calls_in(fn, "do_relocations")]
    chk = [c for c in calls_in(fn, "check_undefined_symbols")]
    ctx.need(len(rel) == 1, "link: do_relocations call not found")
    chk_st = [cfg.stmt_of(c) for c in chk]
    ok = bool(chk) and cfg.must_pass(cfg.stmt_of(rel[0]), lambda n: any(n is s for s in chk_st))
    ctx.ob("C12.R4", site, "check_undefined_symbols() is passed on every path to do_relocations()", ok, construct="undef-before-reloc", node=rel[0])
    lay = [c for c in calls_in(fn, "layout_sections")]
    ok = bool(lay) and cfg.must_pass(cfg.stmt_of(rel[0]), lambda n: isinstance(n, ast.If) and norm(n.test) == "layout") and \
        not any(pol is not True for t, pol, _ in flow.controlling(lay[0], fn) if norm(t) == "layout")
    ctx.ob("C12.R4", site, "when a layout is given it is applied before relocation", ok and cfg.reachable(cfg.stmt_of(lay[0]), cfg.stmt_of(rel[0])), construct="layout-before-reloc")
    # every step of link() that can DEFINE a symbol (it reaches inject_symbol / merge_global_symbol through Linker methods) lies before the check
    lk = ctx.project.modules[L].defs
    meths = {q.split(".", 1)[1]: n for q, n in lk.items() if q.startswith("Linker.") and q.count(".") == 1 and isinstance(n, ast.FunctionDef)}
    def self_calls(f):
        return {c.func.attr for c in ast.walk(f) if isinstance(c, ast.Call) and isinstance(c.func, ast.Attribute) and isinstance(c.func.value, ast.Name) and c.func.value.id == "self" and c.func.attr in meths}
    definers = {"inject_symbol", "merge_global_symbol"} & set(meths)
    ctx.need(len(definers) == 2, "Linker.inject_symbol / merge_global_symbol not found")
    grew = True
    while grew:
        grew = False
        for m, f in meths.items():
            if m not in definers and m != "link" and self_calls(f) & definers:
                definers.add(m); grew = True
    dcalls = [c for c in ast.walk(fn) if isinstance(c, ast.Call) and isinstance(c.func, ast.Attribute) and norm(c.func.value) == "self" and c.func.attr in definers]
    ctx.need(len(dcalls) >= 4, "link: fewer than 4 symbol-defining steps recognised (%d)" % len(dcalls))
    late = sorted({c.func.attr for c in dcalls for k in chk_st if k is not None and cfg.stmt_of(c) is not None and cfg.reachable(k, cfg.stmt_of(c))})
    ctx.ob("C12.R4", site, "no step that can define a symbol (entry / extra symbols, merged objects, library members, DEFINESYMBOL of the layout) runs after the undefined-symbol check: a name the layout defines is not undefined", bool(chk) and not late, construct="definers-before-undef-check",
           detail="after the check: %s; defining steps: %s" % (late, sorted({c.func.attr for c in dcalls})))
    fn = ctx.fn(L, "Linker.check_undefined_symbols")
    site = L + ":Linker.check_undefined_symbols"
    ok = False
    for r in raises_in(fn, {"CompilerError"}):
        conds = flow.controlling(r, fn)
        ok = len(conds) == 1 and conds[0][1] is True and norm(conds[0][0]) in ("undefined_symbols", "len(undefined_symbols) > 0", "undefined_symbols != []")
    src = assigned_values(fn, "undefined_symbols")
    ctx.ob("C12.R4", site, "raises CompilerError iff the list of undefined symbols is non-empty", ok and bool(src) and "get_undefined_symbols" in norm(src[0]), construct="undef-raise")
    fn = ctx.fn(O, "ObjectFile.get_undefined_symbols")
    txt = norm(fn)
    comp = [n for n in ast.walk(fn) if isinstance(n, (ast.ListComp, ast.GeneratorExp))]
    ok = bool(comp) and "self.symbols" in norm(comp[0].generators[0].iter) and any("undefined" in attrs_in(i) for i in comp[0].generators[0].ifs)
    ctx.ob("C12.R4", O + ":ObjectFile.get_undefined_symbols", "undefined symbols are selected from all symbols by their `undefined` flag", ok, construct="undef-select")

    # ---------------- R5 ----------------
    fn = ctx.fn(O, "Image.data")
    site = O + ":Image.data"
    cfg = CFG(fn)

    def overlap(test, pol):
        for l, op, r in compare_ops(test):
            pair = (norm(l), op, norm(r))
            if pol and pair in (("section.address", "Lt", "current_address"), ("current_address", "Gt", "section.address")):
                return True
        return False
    guards = flow.raising_guards(fn, overlap)
    app = [n for n in walk_no_nested(fn) if isinstance(n, ast.AugAssign) and norm(n.target) == "data" and norm(n.value) == "section.data"]
    ctx.need(len(app) == 1, "Image.data: `data += section.data` not found")
    ctx.ob("C12.R5", site, "`section.address < current_address: raise` dominates appending the section's data", flow.dominated_by_guard(cfg, app[0], guards), construct="overlap-raise")
    # gap fill
    gap = [n for n in walk_no_nested(fn) if isinstance(n, ast.If) and any((norm(l), op, norm(r)) in (("section.address", "Gt", "current_address"), ("current_address", "Lt", "section.address")) for l, op, r in compare_ops(n.test))]
    ok = False
    if gap:
        env = sym.single_assign_env(fn)
        fills = [n for n in gap[0].body if isinstance(n, ast.AugAssign) and norm(n.target) == "data"]
        advs = [n for n in gap[0].body if (isinstance(n, ast.AugAssign) and norm(n.target) == "current_address") or (isinstance(n, ast.Assign) and norm(n.targets[0]) == "current_address")]
        delta = None
        for n in gap[0].body:
            if isinstance(n, ast.Assign) and norm(n.targets[0]) == "delta":
                delta = sym.affine(n.value, {})
        want = sym.atom("section.address") - sym.atom("current_address")
        ok = bool(fills) and bool(advs) and delta == want and "delta" in names_in(fills[0].value) and \
            (norm(advs[0]) in ("current_address += delta", "current_address = section.address"))
        ok = ok and cfg.must_pass(app[0], lambda n: n is gap[0])
    ctx.ob("C12.R5", site, "a gap before a section is filled with (section.address - current_address) bytes and the cursor moved to the section address", ok, construct="gap-fill")
    adv = [n for n in walk_no_nested(fn) if isinstance(n, ast.AugAssign) and norm(n.target) == "current_address" and norm(n.value) == "section.size"]
    ok = bool(adv) and cfg.reachable(app[0], adv[0])
    ctx.ob("C12.R5", site, "cursor advances by section.size after the data", ok, construct="advance")
    ok = any(norm(v) == "self.address" for v in assigned_values(fn, "current_address"))
    ctx.ob("C12.R5", site, "image data starts at the image address", ok, construct="start")
    fn = ctx.fn(O, "Image.size")
    atoms = derives(fn, [n for n in walk_no_nested(fn) if isinstance(n, ast.Return)][0].value, project, depth=2)
    ctx.ob("C12.R5", O + ":Image.size", "image size is the extent of its data (gaps included)", "attr:address" in atoms or "attr:data" in atoms, construct="size-extent", detail=str(sorted(atoms)[:8]))

    # ---------------- R6 ----------------
    fn = ctx.fn(O, "ObjectFile.get_symbol_id_value")
    site = O + ":ObjectFile.get_symbol_id_value"
    cfg = CFG(fn)
    rets = [n for n in walk_no_nested(fn) if isinstance(n, ast.Return)]
    guards = flow.raising_guards(fn, lambda t, pol: ("undefined" in attrs_in(t) and pol) or ("defined" in attrs_in(t) and "undefined" not in attrs_in(t) and not pol))
    ctx.ob("C12.R6", site, "an undefined symbol raises instead of yielding a value", bool(rets) and all(flow.dominated_by_guard(cfg, r, guards) for r in rets), construct="undef-raise")
    ok_abs = ok_rel = False
    for r in rets:
        conds = flow.controlling(r, fn)
        none_branch = any((norm(t) == "symbol.section is None" and pol) or (norm(t) == "symbol.section is not None" and not pol) for t, pol, _ in conds)
        a = sym.affine(r.value, sym.single_assign_env(fn))
        if none_branch:
            ok_abs = a == sym.atom("symbol.value")
        else:
            ok_rel = a == sym.atom("symbol.value") + sym.atom("section.address")
    ctx.ob("C12.R6", site, "absolute symbol: value; section symbol: value + section.address", ok_abs and ok_rel, construct="value-composition")
    sec = assigned_values(fn, "section")
    ctx.ob("C12.R6", site, "the section looked up is the symbol's own section", any(norm(v) == "self.get_section(symbol.section)" for v in sec), construct="own-section")
    _name_index(ctx)
    _owned_buffers(ctx)


def _name_index(ctx):
    """R7: ObjectFile.symbol_map is the index behind has_symbol / get_symbol, which the linker reads as "is there a GLOBAL
    with this name" (merge_global_symbol) and users as "address of the global called X" (get_symbol_value).  Local
    symbols of different objects may share a name with a global; they must stay out of the index."""
    from ..sym import conjuncts
    ctx.rule("C12.R7", "the by-name index of an object file (symbol_map) holds global symbols only: every store into it lies under a test that the binding is global; local symbols are only reachable through their id", floor=3)
    mod = ctx.project.module(O)
    stores = []
    for q, f in mod.defs.items():
        if isinstance(f, ast.FunctionDef):
            for n in walk_no_nested(f):
                if isinstance(n, ast.Assign) and isinstance(n.targets[0], ast.Subscript) and norm(n.targets[0].value).endswith(".symbol_map"):
                    stores.append((q, f, n))
    ctx.need(stores, "objectfile.py: no store into symbol_map found")
    for q, f, n in stores:
        conds = [(" ".join(norm(c).split()), pol) for c, pol in conjuncts(n, f, {})]
        ok = any(pol is True and c in ("binding == 'global'", "symbol.binding == 'global'", "symbol.is_global", "binding == \"global\"") for c, pol in conds)
        ctx.ob("C12.R7", "%s:%s" % (O, q), "a symbol enters the by-name index only when its binding is global", ok, construct="index-globals-only:" + q, node=n, detail="; ".join("%s%s" % ("" if p else "not ", c) for c, p in conds) or "unconditional")
    for meth in ("has_symbol", "get_symbol"):
        f = ctx.fn(O, "ObjectFile." + meth)
        ctx.ob("C12.R7", "%s:ObjectFile.%s" % (O, meth), "%s answers from that index" % meth, "self.symbol_map" in norm(f), construct="reads-index:" + meth)
    mg = ctx.fn(L, "Linker.merge_global_symbol")
    ctx.ob("C12.R7", L + ":Linker.merge_global_symbol", "(context) the linker decides define / complete / duplicate by has_symbol(name) and get_symbol(name)", "has_symbol(" in norm(mg) and "get_symbol(" in norm(mg), construct="linker-uses-index")


FRESH_BUFFER = {"bytearray", "bytes", "asc2bin", "bytes.fromhex", "bytearray.fromhex"}


def _owned_buffers(ctx):
    """R8: the linker fills its output sections with Section.add_data(input_section.data) and then pads them and patches
    relocations IN PLACE (section.data[a:b] = ...).  "Each input section's bytes unchanged" therefore needs every section
    to own its buffer: `data` is only ever bound to a buffer created on the spot, and add_data grows that buffer - it
    never adopts its argument (a second link of the same in-memory object would otherwise start from bytes that already
    contain the first link's other inputs and patches)."""
    ctx.rule("C12.R8", "every section owns its buffer: `.data` of a section is only bound to a freshly created buffer (bytearray()/bytes()/asc2bin() result or a concatenation), add_data grows the section's own buffer in place and never adopts its argument; in-place patching by the linker can then not reach an input object", floor=4)
    n_assign = 0
    for rel in ("ppci/binutils/objectfile.py", "ppci/binutils/linker.py", "ppci/binutils/outstream.py", "ppci/binutils/layout.py", "ppci/binutils/archive.py"):
        mod = ctx.project.modules.get(rel)
        if mod is None:
            continue
        for q, f in mod.defs.items():
            if not isinstance(f, ast.FunctionDef):
                continue
            for n in walk_no_nested(f):
                tgts = n.targets if isinstance(n, ast.Assign) else [n.target] if isinstance(n, (ast.AnnAssign, ast.AugAssign)) else []
                for t in tgts:
                    if not (isinstance(t, ast.Attribute) and t.attr == "data"):
                        continue
                    if isinstance(n, ast.AugAssign):
                        ok, how = isinstance(n.op, ast.Add), "grown in place"
                    else:
                        v = n.value
                        ok = (isinstance(v, ast.Call) and norm(v.func).split(".")[-1] in {x.split(".")[-1] for x in FRESH_BUFFER} and norm(v.func) in FRESH_BUFFER | {"self." + x for x in FRESH_BUFFER}) or (isinstance(v, ast.BinOp) and isinstance(v.op, ast.Add))
                        how = norm(v)[:60]
                    n_assign += 1
                    ctx.ob("C12.R8", "%s:%s" % (rel, q), "`%s` is bound to a freshly created buffer (or grown in place)" % norm(t), ok, construct="owned:%s:%s" % (q, norm(t)), node=n, detail=how)
    ctx.need(n_assign >= 2, "assignments to a section's data: %d found, 3 confirmed by reading (floor 2)" % n_assign)
    ad = ctx.fn(O, "Section.add_data")
    par = [a.arg for a in ad.args.args if a.arg != "self"][0]
    body = [st for st in ad.body if not (isinstance(st, ast.Expr) and isinstance(st.value, ast.Constant))]
    grows = [st for st in walk_no_nested(ad) if (isinstance(st, ast.AugAssign) and norm(st.target) == "self.data" and isinstance(st.op, ast.Add) and norm(st.value) == par)
             or (isinstance(st, ast.Expr) and isinstance(st.value, ast.Call) and norm(st.value.func) == "self.data.extend" and norm(st.value.args[0]) == par)
             or (isinstance(st, ast.Assign) and norm(st.targets[0]) == "self.data" and isinstance(st.value, ast.BinOp) and norm(st.value) == "self.data + " + par)]
    harmless = {par, "len(%s)" % par, "len(%s) > 0" % par, "len(%s) != 0" % par}   # skipping the append of nothing changes nothing
    cond = [a for g in grows for a in _anc12(g, ad) if isinstance(a, (ast.If, ast.Try, ast.For, ast.While)) and not (isinstance(a, ast.If) and norm(a.test) in harmless and g in a.body)]
    ctx.ob("C12.R8", O + ":Section.add_data", "add_data appends the bytes to the section's own buffer on every path", len(grows) == 1 and not cond, construct="add-data-appends", detail="%d appending statement(s), %d of them conditional" % (len(grows), len(cond)))
    # callers hand sections' buffers to add_data: that is only safe because of the copy above
    lk = ctx.project.module("ppci/binutils/linker.py")
    handed = [c for c in ast.walk(lk.tree) if isinstance(c, ast.Call) and isinstance(c.func, ast.Attribute) and c.func.attr == "add_data" and c.args and norm(c.args[0]).endswith(".data")]
    ctx.ob("C12.R8", "ppci/binutils/linker.py", "the linker copies input contents through add_data (sites: %d)" % len(handed), len(handed) >= 2, construct="linker-uses-add-data")


def _anc12(n, stop):
    out = []
    n = getattr(n, "_parent", None)
    while n is not None and n is not stop:
        out.append(n)
        n = getattr(n, "_parent", None)
    return out
