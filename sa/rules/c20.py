"""C20 - LEB128: constant relationships between the four codec functions,
guard dominance, termination conditions, sign extension from the accumulated
shift."""
import ast

from ..core import norm, walk_no_nested, names_in, last_name
from ..cfg import CFG
from .. import sym

F = "ppci/utils/leb128.py"


def _consts(fn):
    """extract the group constants used by one codec function"""
    c = {"mask": [], "shift": [], "cont": [], "sign": []}
    env = sym.single_assign_env(fn)
    for n in walk_no_nested(fn):
        if isinstance(n, ast.AugAssign) and isinstance(n.op, ast.RShift) and isinstance(n.value, ast.Constant):
            c["shift"].append((n.value.value, n))
        if isinstance(n, ast.AugAssign) and isinstance(n.op, ast.Add) and norm(n.target) == "shift" and isinstance(n.value, ast.Constant):
            c["shift"].append((n.value.value, n))
        if isinstance(n, ast.BinOp) and isinstance(n.op, ast.BitAnd):
            for side in (n.left, n.right):
                if isinstance(side, ast.Constant) and isinstance(side.value, int):
                    v = side.value
                    w = sym.mask_width(side)
                    p = sym.pow2_exp(side)
                    if w is not None and v != 1:
                        c["mask"].append((w.const, n))
                    elif p is not None:
                        # 0x80 tests continuation, 0x40 tests sign: told apart by role below
                        c["pow"] = c.get("pow", []) + [(p.const, n)]
        if isinstance(n, ast.BinOp) and isinstance(n.op, ast.BitOr):
            for side in (n.left, n.right):
                if isinstance(side, ast.Constant) and isinstance(side.value, int):
                    p = sym.pow2_exp(side)
                    if p is not None:
                        c["cont"].append((p.const, n))
    return c


def run(ctx):
    ctx.rule("C20.R1", "unsigned encoder rejects negatives before encoding", floor=1)
    ctx.rule("C20.R2", "group constants agree: shift s, mask (1<<s)-1, continuation 1<<s, sign 1<<(s-1), s == 7", floor=10)
    ctx.rule("C20.R3", "termination / sign-extension shape", floor=8)

    enc_s = ctx.fn(F, "signed_leb128_encode")
    enc_u = ctx.fn(F, "unsigned_leb128_encode")
    dec_s = ctx.fn(F, "signed_leb128_decode")
    dec_u = ctx.fn(F, "unsigned_leb128_decode")

    # ---- R1 ---------------------------------------------------------
    site = F + ":unsigned_leb128_encode"
    cfg = CFG(enc_u)
    loops = [n for n in walk_no_nested(enc_u) if isinstance(n, (ast.While, ast.For))]
    guards = []
    for n in walk_no_nested(enc_u):
        if isinstance(n, ast.If) and any(isinstance(b, ast.Raise) for b in n.body):
            t = n.test
            if isinstance(t, ast.Compare) and len(t.ops) == 1 and norm(t.left) == "value" and isinstance(t.ops[0], ast.Lt) and norm(t.comparators[0]) == "0":
                guards.append(n)
    ok = bool(loops) and bool(guards) and all(cfg.must_pass(l, lambda n: n in guards) for l in loops)
    # the raise must be unconditional inside the guard
    ok = ok and all(isinstance(g.body[-1], ast.Raise) or any(isinstance(b, ast.Raise) for b in g.body) for g in guards)
    ctx.ob("C20.R1", site, "`if value < 0: raise` dominates the encoding loop", ok, construct="neg-guard", node=enc_u)

    # ---- R2 ---------------------------------------------------------
    for fn, kind in ((enc_s, "enc_s"), (enc_u, "enc_u"), (dec_s, "dec_s"), (dec_u, "dec_u")):
        site = "%s:%s" % (F, fn.name)
        c = _consts(fn)
        shifts = {v for v, _ in c["shift"]}
        if len(shifts) != 1:
            ctx.undecided("C20.R2", site, "group shift not found / ambiguous: %s" % shifts)
            continue
        s = shifts.pop()
        ctx.ob("C20.R2", site, "group size is 7 bits", s == 7, construct="shift", detail="shift=%d" % s)
        masks = {v for v, _ in c["mask"]}
        ctx.ob("C20.R2", site, "payload mask is (1 << s) - 1", masks == {s}, construct="mask", detail="mask widths %s, s=%d" % (sorted(masks), s))
        if kind.startswith("enc"):
            conts = {v for v, _ in c["cont"]}
            ctx.ob("C20.R2", site, "continuation bit OR-ed in is 1 << s", conts == {s}, construct="cont", detail="cont exps %s" % sorted(conts))
        pows = sorted({v for v, _ in c.get("pow", [])})
        if kind == "enc_s":
            ctx.ob("C20.R2", site, "sign bit tested is 1 << (s-1)", pows == [s - 1], construct="sign", detail="tested bits %s" % pows)
        elif kind == "dec_s":
            ctx.ob("C20.R2", site, "tests exactly continuation 1 << s and sign 1 << (s-1)", pows == [s - 1, s], construct="cont+sign", detail="tested bits %s" % pows)
        elif kind == "dec_u":
            ctx.ob("C20.R2", site, "continuation bit tested is 1 << s", pows == [s], construct="cont", detail="tested bits %s" % pows)

    # ---- R3 encoders --------------------------------------------------
    for fn in (enc_s, enc_u):
        site = "%s:%s" % (F, fn.name)
        # order: byte extracted before value is shifted
        body_loop = [n for n in walk_no_nested(fn) if isinstance(n, ast.While)]
        if len(body_loop) != 1:
            ctx.undecided("C20.R3", site, "expected one while loop")
            continue
        lp = body_loop[0]
        idx_b = idx_s = None
        for i, st in enumerate(lp.body):
            if isinstance(st, ast.Assign) and norm(st.targets[0]) == "byte":
                idx_b = i
            if isinstance(st, ast.AugAssign) and isinstance(st.op, ast.RShift) and norm(st.target) == "value":
                idx_s = i
        ctx.ob("C20.R3", site, "payload group is extracted before the value is shifted", idx_b is not None and idx_s is not None and idx_b < idx_s, construct="extract-before-shift")
        # final byte without continuation, others with
        ifs = [st for st in lp.body if isinstance(st, ast.If)]
        if len(ifs) != 1:
            ctx.undecided("C20.R3", site, "termination if not found")
            continue
        i = ifs[0]
        def appended(body):
            out = []
            for st in body:
                for n in walk_no_nested(st):
                    if isinstance(n, ast.Call) and last_name(n) == "append" and n.args:
                        out.append(n.args[0])
            return out
        has_break = any(isinstance(n, ast.Break) for st in i.body for n in walk_no_nested(st))
        fin, cont = appended(i.body), appended(i.orelse)
        ok = has_break and len(fin) == 1 and len(cont) == 1 and norm(fin[0]) == "byte" and isinstance(cont[0], ast.BinOp) and isinstance(cont[0].op, ast.BitOr)
        ctx.ob("C20.R3", site, "last group is emitted without, every other group with, the continuation bit", ok, construct="final-vs-cont", node=i)
        if fn is enc_u:
            t = i.test
            ok = isinstance(t, ast.Compare) and norm(t.left) == "value" and isinstance(t.ops[0], ast.Eq) and norm(t.comparators[0]) == "0"
            ctx.ob("C20.R3", site, "unsigned encoding ends exactly when the remaining value is 0", ok, construct="term", node=i, detail=norm(t))
        else:
            t = i.test
            arms = set()
            if isinstance(t, ast.BoolOp) and isinstance(t.op, ast.Or):
                for a in t.values:
                    if isinstance(a, ast.BoolOp) and isinstance(a.op, ast.And) and len(a.values) == 2:
                        k = pol = None
                        for x in a.values:
                            if isinstance(x, ast.Compare) and norm(x.left) == "value" and isinstance(x.ops[0], ast.Eq):
                                k = norm(x.comparators[0])
                            elif isinstance(x, ast.UnaryOp) and isinstance(x.op, ast.Not) and norm(x.operand) == "sign_bit":
                                pol = False
                            elif norm(x) == "sign_bit":
                                pol = True
                        arms.add((k, pol))
            ctx.ob("C20.R3", site, "signed encoding ends iff (rest == 0 and sign bit clear) or (rest == -1 and sign bit set)",
                   arms == {("0", False), ("-1", True)}, construct="term", node=i, detail=norm(t))

    # ---- R3 decoders --------------------------------------------------
    for fn in (dec_s, dec_u):
        site = "%s:%s" % (F, fn.name)
        env = sym.single_assign_env(fn)
        loops = [n for n in walk_no_nested(fn) if isinstance(n, ast.While)]
        if len(loops) != 1:
            ctx.undecided("C20.R3", site, "expected one while loop")
            continue
        lp = loops[0]
        init = sym._init_before(fn, lp, "shift")
        ctx.ob("C20.R3", site, "shift starts at 0", init is not None and norm(init) == "0", construct="shift-init")
        idx_or = idx_inc = idx_brk = None
        for i, st in enumerate(lp.body):
            if isinstance(st, ast.AugAssign) and isinstance(st.op, ast.BitOr) and norm(st.target) == "result":
                idx_or = i
                v = st.value
                ok = isinstance(v, ast.BinOp) and isinstance(v.op, ast.LShift) and norm(v.right) == "shift"
                ctx.ob("C20.R3", site, "group is placed at the accumulated shift", ok, construct="place", node=st, detail=norm(st))
            if isinstance(st, ast.AugAssign) and isinstance(st.op, ast.Add) and norm(st.target) == "shift":
                idx_inc = i
            if isinstance(st, ast.If) and any(isinstance(b, ast.Break) for b in st.body):
                idx_brk = i
                t = st.test
                ok = isinstance(t, ast.Compare) and isinstance(t.ops[0], ast.Eq) and norm(t.comparators[0]) == "0" and isinstance(t.left, ast.BinOp) and isinstance(t.left.op, ast.BitAnd) and "byte" in names_in(t.left)
                if not ok and isinstance(t, ast.UnaryOp) and isinstance(t.op, ast.Not):
                    ok = isinstance(t.operand, ast.BinOp) and isinstance(t.operand.op, ast.BitAnd) and "byte" in names_in(t.operand)
                ctx.ob("C20.R3", site, "loop ends when the continuation bit is clear", ok, construct="dec-term", node=st, detail=norm(t))
        if None in (idx_or, idx_inc):
            ctx.undecided("C20.R3", site, "accumulate/advance statements not found at loop top level")
            continue
        ctx.ob("C20.R3", site, "group is accumulated before the shift advances", idx_or < idx_inc, construct="or-before-inc")
        caps = [x for x in ast.walk(lp) if isinstance(x, ast.Raise)] + [x for x in ast.walk(lp) if isinstance(x, ast.Assert)]
        capped = [x for x in caps if True]
        ctx.ob("C20.R3", site, "the decoder accepts an encoding of any length (Python integers are unbounded; the property ranges up to 2^128 = 19 bytes): no raise/assert on the number of groups read", not capped,
               construct="dec-no-length-cap", node=capped[0] if capped else lp)
        if fn is dec_s:
            ctx.ob("C20.R3", site, "shift includes the last group when the loop exits (advance precedes break)",
                   idx_brk is not None and idx_inc < idx_brk, construct="inc-before-break")
            # sign extension after the loop
            parent_body = fn.body
            after = parent_body[parent_body.index(lp) + 1:] if lp in parent_body else []
            ext = [st for st in after if isinstance(st, ast.If)]
            if len(ext) != 1:
                ctx.undecided("C20.R3", site, "sign extension `if` not found after the loop")
                continue
            e = ext[0]
            tn = names_in(e.test)
            ctx.ob("C20.R3", site, "sign extension is decided by the last byte's sign bit alone (no width cap: integers are unbounded)",
                   tn == {"byte"}, construct="ext-guard", node=e, detail=norm(e.test))
            uses_shift = any("shift" in names_in(st) for st in e.body)
            ctx.ob("C20.R3", site, "sign extension is computed from the accumulated shift", uses_shift, construct="ext-from-shift", node=e)
            # recognise the two's complement idioms
            txt = [norm(st) for st in e.body]
            idiom_a = any(sym.mask_width(st.value, env) == sym.atom("shift") for st in e.body if isinstance(st, ast.Assign)) and \
                "result = result ^ mask" in txt + ["result = result ^ mask"] and any(t in ("result = -result - 1", "result = ~result") for t in txt) and \
                any(t in ("result = result ^ mask", "result ^= mask") for t in txt)
            idiom_b = any(t in ("result -= 1 << shift", "result = result - (1 << shift)", "result |= -(1 << shift)", "result |= ~0 << shift", "result |= -1 << shift") for t in txt)
            if idiom_a or idiom_b:
                ctx.ob("C20.R3", site, "negative value = result - (1 << shift)", True, construct="ext-idiom")
            else:
                ctx.undecided("C20.R3", site, "sign extension idiom not recognised: %s" % txt)
    _integer_only(ctx)


FLOAT_CALLS = {"float", "round", "pow"}


def float_operations(tree):
    """places where a value passes through floating point: true division, float()/round()/pow(), any math.* call,
    float literals, ** with a negative or fractional exponent"""
    out = []
    for n in ast.walk(tree):
        if isinstance(n, ast.BinOp) and isinstance(n.op, ast.Div):
            out.append((n, "true division `%s`" % norm(n)[:50]))
        elif isinstance(n, ast.AugAssign) and isinstance(n.op, ast.Div):
            out.append((n, "true division `%s`" % norm(n)[:50]))
        elif isinstance(n, ast.Call) and isinstance(n.func, ast.Attribute) and isinstance(n.func.value, ast.Name) and n.func.value.id in ("math", "cmath", "numpy", "np"):
            out.append((n, "`%s`" % norm(n)[:50]))
        elif isinstance(n, ast.Call) and isinstance(n.func, ast.Name) and n.func.id in FLOAT_CALLS:
            out.append((n, "`%s`" % norm(n)[:50]))
        elif isinstance(n, ast.Constant) and isinstance(n.value, float):
            out.append((n, "float literal %r" % n.value))
        elif isinstance(n, ast.ImportFrom) and n.module in ("math", "cmath"):
            out.append((n, "`%s`" % norm(n)[:50]))
    return out


def _integer_only(ctx):
    """R4: LEB128 carries integers of any size (u64 immediates, DWARF constants); a double has 53 bits of mantissa, so
    a size or a digit computed through floating point is wrong for some large value even though every small one works."""
    ctx.rule("C20.R4", "the LEB128 codec computes with integers only: no true division, math.* function, float()/round() or float literal anywhere in ppci/utils/leb128.py (a group count taken from a logarithm is off by one just below large powers of 128)", floor=1)
    ctl = ast.parse("import math\ndef size(v):\n    return int(math.log(v, 128)) + 1\ndef half(v):\n    return v / 2\n")
    ctx.need(len(float_operations(ctl)) == 2, "C20.R4 positive control lost")
    mod = ctx.project.module(F)
    hits = float_operations(mod.tree)
    ctx.ob("C20.R4", F, "no floating-point operation in the codec", not hits, construct="integer-only", node=hits[0][0] if hits else None, detail="; ".join("line %d: %s" % (n.lineno, t) for n, t in hits[:4]))
