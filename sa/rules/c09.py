"""C09 - print/assemble round trip (narrow): no two instructions of one ISA
share an assembler key with the same priority; label operands come with a
registered relocation."""
import ast

from ..core import norm, walk_no_nested, calls_in, call_name
from .. import relocs

ARCHS = ["arm", "arm:thumb", "riscv", "riscv:rvc", "x86_64", "msp430", "avr", "m68k", "mips", "or1k", "xtensa", "microblaze", "mcs6500", "stm8"]
# pairs that are distinguished by the concrete operand value (register class subsets etc.): (arch, key text) -> reason
AMBIGUITY_OK = {
    ("riscv", "dcd = <str>"): "riscv re-declares the shared data directive Dcd2 with the same encoding and relocation",
    ("riscv:rvc", "dcd = <str>"): "same as riscv",
    ("riscv:rvc", "jal <RiscvRegister> , <str>"): "with rvc the relaxable CBl deliberately shadows Bl: same bytes, shrinkable relocation (by design; the unrelaxed bytes agree)",
    ("riscv:rvc", "j <str>"): "with rvc the relaxable CB deliberately shadows B (by design)",
}


def key_of(ins):
    opcls = {o["name"]: o for o in ins["operands"]}
    out = []
    for e in ins["syntax"]:
        if isinstance(e, str):
            if not e.isspace():
                out.append(e)
        else:
            o = opcls.get(e["op"])
            c = o["cls"] if o else "?"
            out.append("<%s>" % (c if isinstance(c, str) else "|".join(sorted(map(str, c)))))
    return tuple(out)


def run(ctx):
    ctx.rule("C09.R1", "no two instructions of one ISA have the same assembler key (literal elements + operand classes) at the same priority", floor=600)
    ctx.rule("C09.R2", "an instruction with a label (str) operand defines relocations, and every relocation class it returns is registered with an isa", floor=60)
    dump = ctx.isa()
    ctx.need(not dump["errors"], "ISA dump reported errors: %s" % dump["errors"][:2])
    reg = relocs.registered_names(ctx.project)
    for arch in ARCHS:
        a = dump["archs"][arch]
        keys = {}
        for ins in a["instructions"]:
            if not ins["syntax"]:
                continue
            k = (key_of(ins), ins["priority"])
            site = "ppci/%s:%s" % (ins["file"], ins["name"])
            if k in keys and keys[k]["uid"] != ins["uid"]:
                other = keys[k]
                ctx.ob("C09.R1", site, "`%s` (priority %s) is the only instruction with this assembler key" % (" ".join(k[0]), k[1]), (arch, " ".join(k[0])) in AMBIGUITY_OK,
                       construct="ambiguous:%s:%s" % (arch.split(":")[0], " ".join(k[0])), detail="also %s" % other["name"])
            else:
                keys[k] = ins
                ctx.ob("C09.R1", site, "`%s` has a unique assembler key in %s" % (" ".join(k[0])[:60], arch), True, construct="key:%s:%s" % (arch, ins["uid"]))
    # R2 (ast): classes with a str-typed Operand
    project = ctx.project
    seen = set()
    for arch in ARCHS:
        for ins in dump["archs"][arch]["instructions"] + dump["archs"][arch]["constructors"]:
            if ins["uid"] in seen:
                continue
            seen.add(ins["uid"])
            labels = [o for o in ins["operands"] if o["cls"] == "str" and o["name"] not in ("sec", "section", "name") and any(isinstance(e, dict) and e["op"] == o["name"] for e in ins["syntax"])]
            if not labels:
                continue
            site = "ppci/%s:%s" % (ins["file"], ins["name"])
            ctx.ob("C09.R2", site, "label operand `%s` is turned into a relocation (relocations/gen_relocations defined)" % labels[0]["name"], ins["has_relocations"] or ins["has_render"], construct="has-relocations:%s" % ins["name"])
    # every relocation class constructed inside a relocations()/gen_relocations() method is registered
    for m in project.modules.values():
        if not m.rel.startswith("ppci/arch/"):
            continue
        for fn in ast.walk(m.tree):
            if isinstance(fn, ast.FunctionDef) and fn.name in ("relocations", "gen_relocations"):
                for c in calls_in(fn):
                    cn = (call_name(c) or "").split(".")[-1]
                    if cn.endswith("Relocation"):
                        ctx.ob("C09.R2", "%s:%s" % (m.rel, cn), "relocation class %s returned by an instruction is registered with an isa (the linker looks it up by name)" % cn, cn in reg, construct="registered:" + cn)
    _grammar_generator(ctx)
    _register_text(ctx)


def _grammar_generator(ctx):
    """R3: the grammar generator consumes the same syntax declaration that Syntax.render prints"""
    from ..core import last_name
    from .. import sym
    A = "ppci/binutils/assembler.py"
    E = "ppci/arch/encoding.py"
    ctx.rule("C09.R3", "the assembler grammar is generated from the same syntax elements that are printed: every printed literal becomes a keyword that may still be used as a label, operands map to constructor arguments in syntax order, the declared priority is handed to the parser, registers parse under their printed name", floor=12)
    mod = ctx.project.module(A)
    # the identifier regex shared by the lexer and the keyword-as-identifier escape
    idre = mod.assignments("id_regex")
    idm = mod.assignments("id_matcher")
    ctx.need(idre and idm, "assembler.py: id_regex / id_matcher not found")
    ctx.ob("C09.R3", A + ":id_matcher", "id_matcher is compiled from id_regex (the pattern of the lexer's ID token)", isinstance(idm[0], ast.Call) and norm(idm[0].func) == "re.compile" and norm(idm[0].args[0]) == "id_regex", construct="matcher-from-id-regex", detail=norm(idm[0]))
    lex = ctx.fn(A, "AsmLexer.__init__")
    idtok = [t for t in ast.walk(lex) if isinstance(t, ast.Tuple) and t.elts and isinstance(t.elts[0], ast.Constant) and t.elts[0].value == "ID"]
    ctx.ob("C09.R3", A + ":AsmLexer.__init__", "the lexer's ID token uses id_regex and is classified by handle_id", len(idtok) == 1 and norm(idtok[0].elts[1]) == "id_regex" and norm(idtok[0].elts[2]) == "self.handle_id", construct="lexer-id")
    hid = ctx.fn(A, "AsmLexer.handle_id")
    ifs = [n for n in walk_no_nested(hid) if isinstance(n, ast.If)]
    ok = len(ifs) == 1 and norm(ifs[0].test) in ("val.lower() in self.kws",) and any(isinstance(s, ast.Assign) and norm(s.targets[0]) == "typ" and norm(s.value) == "val.lower()" for s in ifs[0].body)
    ctx.ob("C09.R3", A + ":AsmLexer.handle_id", "an identifier whose lower-case spelling is a keyword becomes that keyword token (syntax literals are lower case), otherwise it stays an ID", ok, construct="keyword-lookup-lower")
    ak = ctx.fn(A, "BaseAssembler.add_keyword")
    site = A + ":BaseAssembler.add_keyword"
    esc = [c for c in calls_in(ak, "add_rule") if c.args and norm(c.args[0]) == "self.str_id"]
    ctx.need(len(esc) == 1, "add_keyword: keyword-as-identifier rule not found")
    cj = [(norm(e), pol) for e, pol in sym.conjuncts(esc[0], ak, {})]
    guard = [t for t, pol in cj if pol and t.startswith("id_matcher.")]
    ctx.ob("C09.R3", site, "every keyword the lexer would otherwise tokenise as ID (tested with id_matcher, i.e. letters, digits and underscore) also gets a `str_id -> keyword` rule, so a label spelled like a register or mnemonic (r12, l32i) still parses",
           bool(guard) and all(t in ("id_matcher.match(keyword)", "id_matcher.fullmatch(keyword)") for t in guard) and all(t.startswith("id_matcher.") or t == "keyword not in self.lexer.kws" for t, pol in cj),
           construct="keyword-as-label", node=esc[0], detail=str(cj))
    ok = len(esc[0].args) >= 2 and norm(esc[0].args[1]) == "[keyword]"
    ctx.ob("C09.R3", site, "the rule's right-hand side is the keyword itself", ok, construct="keyword-rule-rhs")
    reg = [c for c in calls_in(ak) if norm(c.func) in ("self.parser.g.add_terminal", "self.lexer.add_keyword")]
    ctx.ob("C09.R3", site, "a new keyword is registered with the grammar and with the lexer", len(reg) == 2 and all(norm(c.args[0]) == "keyword" for c in reg), construct="keyword-registered")
    # generate_syntax_rule
    gs = ctx.fn(A, "BaseAssembler.generate_syntax_rule")
    site = A + ":BaseAssembler.generate_syntax_rule"
    loops = [l for l in walk_no_nested(gs) if isinstance(l, ast.For) and "enumerate" in norm(l.iter)]
    ok = False
    if loops:
        l = loops[0]
        src = norm(l.iter)
        tests = [n for n in ast.walk(l) if isinstance(n, ast.If)]
        apps = [c for c in ast.walk(l) if isinstance(c, ast.Call) and last_name(c) == "append"]
        idx = norm(l.target.elts[0]) if isinstance(l.target, ast.Tuple) else None
        ok = src == "enumerate(stx.get_args())" and len(tests) == 1 and "Operand" in norm(tests[0].test) and len(apps) == 1 and norm(apps[0].args[0]) == idx
    ctx.ob("C09.R3", site, "the positions of the Operand elements among the non-blank syntax elements are recorded, in order", ok, construct="operand-positions")
    rh = [n for n in walk_no_nested(gs) if isinstance(n, ast.Assign) and norm(n.targets[0]) == "rhs"]
    ctx.ob("C09.R3", site, "the rule's right-hand side is resolved from the same element sequence (stx.get_args())", len(rh) == 1 and norm(rh[0].value) == "self.resolve_rhs(stx.get_args())", construct="rhs-same-sequence")
    inner = [f for f in ast.walk(gs) if isinstance(f, ast.FunctionDef) and f is not gs]
    ok = False
    if inner:
        r = [n for n in ast.walk(inner[0]) if isinstance(n, ast.Return)]
        env = sym.single_assign_env(inner[0])
        ok = len(r) == 1 and norm(sym.deep_inline(r[0].value, env)) == "cls(*[args[idx] for idx in prop_list])"
    ctx.ob("C09.R3", site, "the reduction constructs cls(*operands) with the parsed operands in syntax order", ok, construct="construct-in-order")
    ar = [c for c in calls_in(gs, "add_rule")]
    ok = len(ar) == 1 and len(ar[0].args) == 4 and norm(ar[0].args[0]) == "nt" and norm(ar[0].args[1]) == "rhs" and norm(ar[0].args[3]) == "stx.priority"
    ctx.ob("C09.R3", site, "the rule is added under the requested non-terminal with the syntax's declared priority", ok, construct="priority-passed", detail=norm(ar[0]) if ar else "")
    adr = ctx.fn(A, "BaseAssembler.add_rule")
    ap = [c for c in calls_in(adr, "add_production")]
    ok = len(ap) == 1 and any(k.arg == "priority" and norm(k.value) == "priority" for k in ap[0].keywords) and norm(ap[0].args[0]) == "lhs" and norm(ap[0].args[1]) == "rhs"
    ctx.ob("C09.R3", A + ":BaseAssembler.add_rule", "add_rule forwards lhs, rhs and priority to the grammar", ok, construct="add-rule-forwards")
    # resolve_rhs
    rr = ctx.fn(A, "BaseAssembler.resolve_rhs")
    site = A + ":BaseAssembler.resolve_rhs"
    from ..tables import isinstance_branches
    br = isinstance_branches(rr, "rhs_part")
    ok = "str" in br and any(k.split(".")[-1] == "Operand" for k in br)
    ctx.ob("C09.R3", site, "literal elements and Operand elements are both resolved; anything else is an error", ok and any(isinstance(n, ast.Raise) for n in ast.walk(rr)), construct="element-kinds", detail=str(sorted(br)))
    if "str" in br:
        body = br["str"][1]
        apps = [c for s in body for c in ast.walk(s) if isinstance(c, ast.Call) and last_name(c) == "append"]
        kws = [c for s in body for c in ast.walk(s) if isinstance(c, ast.Call) and last_name(c) == "add_keyword"]
        ok = len(apps) == 1 and norm(apps[0].args[0]) == "rhs_part" and not sym.conjuncts(apps[0], rr, {})[:-1] and len(kws) == 1 and norm(kws[0].args[0]) == "rhs_part"
        kcj = [(norm(e), pol) for e, pol in sym.conjuncts(kws[0], rr, {})] if kws else []
        ok = ok and all(t in ("isinstance(rhs_part, str)", "rhs_part not in self.parser.g.nonterminals") for t, pol in kcj if pol)
        ctx.ob("C09.R3", site, "a literal element is kept verbatim and registered as keyword unless it names a non-terminal", ok, construct="literal-keyword", detail=str(kcj))
    opk = [k for k in br if k.split(".")[-1] == "Operand"]
    if opk:
        body = br[opk[0]][1]
        apps = [c for s in body for c in ast.walk(s) if isinstance(c, ast.Call) and last_name(c) == "append"]
        ok = len(apps) == 1 and norm(apps[0].args[0]) == "self.get_parameter_nt(rhs_part._cls)"
        ctx.ob("C09.R3", site, "an operand element becomes the non-terminal of its declared class", ok, construct="operand-nonterminal")
    # registers
    gp = ctx.fn(A, "BaseAssembler.get_parameter_nt")
    loops = [l for l in ast.walk(gp) if isinstance(l, ast.For) and norm(l.iter).endswith(".all_registers()")]
    ok = len(loops) == 1 and any(isinstance(c, ast.Call) and last_name(c) == "make_register_rule_function" and norm(c.args[1]) == norm(loops[0].target) for c in ast.walk(loops[0]))
    ctx.ob("C09.R3", A + ":BaseAssembler.get_parameter_nt", "a register-class operand gets one rule per register of the class", ok, construct="all-registers")
    tl = [l for l in ast.walk(gp) if isinstance(l, ast.For) and norm(l.iter) == "arg_cls"]
    ok = len(tl) == 1 and any(isinstance(c, ast.Call) and last_name(c) == "generate_syntax_rule" and norm(c.args[0]) == norm(tl[0].target) and norm(c.args[2]) == norm(tl[0].target) + ".syntax" for c in ast.walk(tl[0]))
    ctx.ob("C09.R3", A + ":BaseAssembler.get_parameter_nt", "a constructor-tuple operand gets one rule per constructor, built from that constructor's syntax", ok, construct="all-constructors")
    mr = ctx.fn(A, "BaseAssembler.make_register_rule_function")
    site = A + ":BaseAssembler.make_register_rule_function"
    ars = [c for c in calls_in(mr, "add_rule")]
    spl = [norm(c.args[0]) for c in calls_in(mr, "split_text")]
    inner = [f for f in ast.walk(mr) if isinstance(f, ast.FunctionDef) and f is not mr]
    ok = len(ars) == 2 and "register.name" in spl and any(isinstance(l, ast.For) and norm(l.iter) == "register.aka" for l in ast.walk(mr)) and bool(inner) and \
        any(isinstance(r, ast.Return) and norm(r.value) == "register" for r in ast.walk(inner[0])) and all(norm(c.args[0]) == "nt" and norm(c.args[2]) == inner[0].name for c in ars)
    ctx.ob("C09.R3", site, "the printed name of a register (and each alias) parses to that very register", ok, construct="register-name-rule", detail=str(spl))
    stt = ctx.fn(A, "BaseAssembler.split_text")
    ctx.ob("C09.R3", A + ":BaseAssembler.split_text", "register names are split with the assembler's own lexer, in lower case (as keywords are matched)", "self.lexer.tokenize(txt.lower())" in norm(stt), construct="split-with-lexer")
    ga = ctx.fn(A, "BaseAssembler.gen_asm_parser")
    loops = [l for l in walk_no_nested(ga) if isinstance(l, ast.For) and norm(l.iter) == "isa.instructions"]
    ok = len(loops) == 1 and any(isinstance(c, ast.Call) and last_name(c) == "generate_syntax_rule" and [norm(a) for a in c.args] == [norm(loops[0].target), "'instruction'", norm(loops[0].target) + ".syntax"] for c in ast.walk(loops[0]))
    ctx.ob("C09.R3", A + ":BaseAssembler.gen_asm_parser", "every instruction of the isa that has a syntax gets an `instruction` rule built from that syntax", ok, construct="all-instructions")
    # the printer
    rn = ctx.fn(E, "Syntax.render")
    gr = ctx.fn(E, "Syntax._get_repr")
    ok = "for e in self.syntax" in norm(rn) and "''.join(" in norm(rn)
    ctx.ob("C09.R3", E + ":Syntax.render", "render concatenates the representation of every element of the syntax, in order", ok, construct="render-all-elements")
    br = isinstance_branches(gr, "syntax_element")
    ok = "str" in br and any(isinstance(r, ast.Return) and norm(r.value) == "syntax_element" for s in br["str"][1] for r in ast.walk(s))
    ctx.ob("C09.R3", E + ":Syntax._get_repr", "a literal element is printed verbatim", ok, construct="render-literal")
    opk = [k for k in br if k.split(".")[-1] == "Operand"]
    ok = bool(opk) and any(isinstance(r, ast.Return) and norm(r.value) == "str(syntax_element.__get__(obj))" for s in br[opk[0]][1] for r in ast.walk(s))
    ctx.ob("C09.R3", E + ":Syntax._get_repr", "an operand element is printed as str() of the operand's value on the instruction", ok, construct="render-operand")
    ga_ = ctx.fn(E, "Syntax.get_args")
    ok = "isspace()" in norm(ga_) and any(isinstance(n, ast.Yield) for n in ast.walk(ga_)) and "for element in self.syntax" in norm(ga_)
    ctx.ob("C09.R3", E + ":Syntax.get_args", "only blank literals are dropped from the element sequence the grammar is built from", ok, construct="get-args-drops-blank-only")


REG = "ppci/arch/registers.py"
OPT_INT_ATTRS = {"_num", "_color", "num", "color"}


def truthiness_tests(tree):
    """(node, text) for every place where an expression ending in one of the optional register-number attributes is
    used as a truth value (if / while / assert / and / or / not / conditional expression)"""
    out = []
    def operand(e):
        while isinstance(e, ast.UnaryOp) and isinstance(e.op, ast.Not):
            e = e.operand
        if isinstance(e, ast.BoolOp):
            for v in e.values:
                operand(v)
            return
        if isinstance(e, ast.Attribute) and e.attr in OPT_INT_ATTRS:
            out.append((e, norm(e)))
        elif isinstance(e, ast.Name) and e.id in OPT_INT_ATTRS:
            out.append((e, norm(e)))
    for n in ast.walk(tree):
        if isinstance(n, (ast.If, ast.While, ast.IfExp)):
            operand(n.test)
        elif isinstance(n, ast.Assert):
            operand(n.test)
        elif isinstance(n, ast.BoolOp):
            for v in n.values:
                operand(v)
        elif isinstance(n, ast.UnaryOp) and isinstance(n.op, ast.Not):
            operand(n.operand)
    seen, uniq = set(), []
    for n, t in out:
        if id(n) not in seen:
            seen.add(id(n))
            uniq.append((n, t))
    return uniq


def _register_text(ctx):
    """R4: operands are printed with str(); a register-SET operand (thumb push/pop) is a plain set, whose str() shows
    the repr() of its members.  Both texts of a hardware register have to be the name the assembler knows, for every
    register number including 0."""
    ctx.rule("C09.R4", "the printed text of a hardware register is its name, through str() and through repr() (members of a set operand), for every register number including 0: number/colour are tested with `is None`, never by truthiness", floor=5)
    ctl = ast.parse("def f(self):\n    if self._num:\n        return self.name\n    x = 1 if not self.color else 2\n    if self._num is None:\n        pass\n")
    ctx.need(len(truthiness_tests(ctl)) == 2, "C09.R4 positive control lost")
    mod = ctx.project.module(REG)
    hits = truthiness_tests(mod.tree)
    ctx.ob("C09.R4", REG, "no truth-value test of a register number or colour (0 is a register number)", not hits, construct="no-truthiness-of-number", node=hits[0][0] if hits else None,
           detail="; ".join("line %d: %s" % (n.lineno, t) for n, t in hits))
    for meth in ("__repr__", "__str__"):
        f = ctx.fn(REG, "Register." + meth)
        site = "%s:Register.%s" % (REG, meth)
        rets = [r for r in walk_no_nested(f) if isinstance(r, ast.Return)]
        from ..sym import conjuncts
        hw = []
        for r in rets:
            conds = [(" ".join(norm(c).split()), pol) for c, pol in conjuncts(r, f, {})]
            virt = any((c == "self._num is None" and pol is True) or (c == "self._num is not None" and pol is False) for c, pol in conds)
            hard = any((c == "self._num is not None" and pol is True) or (c == "self._num is None" and pol is False) for c, pol in conds)
            if hard and not virt:
                hw.append(r)
            elif not virt:
                hw.append(r)     # a return that is not confined to virtual registers is also taken by hardware registers
        ok = bool(hw) and all(r.value is not None and norm(r.value) == "self.name" for r in hw)
        ctx.ob("C09.R4", site, "every return a hardware register (self._num is not None) can reach yields self.name", ok, construct="hardware-text:" + meth, node=next((r for r in hw if r.value is None or norm(r.value) != "self.name"), None),
               detail="%d return(s) reachable by a hardware register" % len(hw))
    f = ctx.fn(REG, "Register.is_colored")
    ok = any(isinstance(r, ast.Return) and " ".join(norm(r.value).split()) == "self._color is not None" for r in ast.walk(f))
    ctx.ob("C09.R4", REG + ":Register.is_colored", "a register is coloured iff its colour is not None (colour 0 counts)", ok, construct="is-colored")
    g = ctx.fn("ppci/arch/encoding.py", "Syntax._get_repr")
    ok = any(isinstance(r, ast.Return) and isinstance(r.value, ast.Call) and norm(r.value.func) == "str" for r in ast.walk(g))
    ctx.ob("C09.R4", "ppci/arch/encoding.py:Syntax._get_repr", "an operand is printed with str() of its value", ok, construct="operand-str")
