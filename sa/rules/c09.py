"""C09 - print/assemble round trip (narrow): no two instructions of one ISA
share an assembler key with the same priority; label operands come with a
registered relocation."""
import ast

from ..core import norm, walk_no_nested, calls_in, call_name
from .. import relocs

ARCHS = ["arm", "arm:thumb", "riscv", "riscv:rvc", "x86_64", "msp430", "avr", "m68k", "mips", "or1k", "xtensa", "microblaze", "mcs6500", "stm8"]
# pairs that are distinguished by the concrete operand value (register class subsets etc.): (arch, key text) -> reason
AMBIGUITY_OK = {
    ("riscv", "dcd = <str>"): "riscv re-declares the shared data directive Dcd2 with the same encoding and relocation",
    ("riscv:rvc", "dcd = <str>"): "same as riscv",
    ("riscv:rvc", "jal <RiscvRegister> , <str>"): "with rvc the relaxable CBl deliberately shadows Bl: same bytes, shrinkable relocation (by design; the unrelaxed bytes agree)",
    ("riscv:rvc", "j <str>"): "with rvc the relaxable CB deliberately shadows B (by design)",
}


def key_of(ins):
    opcls = {o["name"]: o for o in ins["operands"]}
    out = []
    for e in ins["syntax"]:
        if isinstance(e, str):
            if not e.isspace():
                out.append(e)
        else:
            o = opcls.get(e["op"])
            c = o["cls"] if o else "?"
            out.append("<%s>" % (c if isinstance(c, str) else "|".join(sorted(map(str, c)))))
    return tuple(out)


def run(ctx):
    ctx.rule("C09.R1", "no two instructions of one ISA have the same assembler key (literal elements + operand classes) at the same priority", floor=600)
    ctx.rule("C09.R2", "an instruction with a label (str) operand defines relocations, and every relocation class it returns is registered with an isa", floor=60)
    dump = ctx.isa()
    ctx.need(not dump["errors"], "ISA dump reported errors: %s" % dump["errors"][:2])
    reg = relocs.registered_names(ctx.project)
    for arch in ARCHS:
        a = dump["archs"][arch]
        keys = {}
        for ins in a["instructions"]:
            if not ins["syntax"]:
                continue
            k = (key_of(ins), ins["priority"])
            site = "ppci/%s:%s" % (ins["file"], ins["name"])
            if k in keys and keys[k]["uid"] != ins["uid"]:
                other = keys[k]
                ctx.ob("C09.R1", site, "`%s` (priority %s) is the only instruction with this assembler key" % (" ".join(k[0]), k[1]), (arch, " ".join(k[0])) in AMBIGUITY_OK,
                       construct="ambiguous:%s:%s" % (arch.split(":")[0], " ".join(k[0])), detail="also %s" % other["name"])
            else:
                keys[k] = ins
                ctx.ob("C09.R1", site, "`%s` has a unique assembler key in %s" % (" ".join(k[0])[:60], arch), True, construct="key:%s:%s" % (arch, ins["uid"]))
    # R2 (ast): classes with a str-typed Operand
    project = ctx.project
    seen = set()
    for arch in ARCHS:
        for ins in dump["archs"][arch]["instructions"] + dump["archs"][arch]["constructors"]:
            if ins["uid"] in seen:
                continue
            seen.add(ins["uid"])
            labels = [o for o in ins["operands"] if o["cls"] == "str" and o["name"] not in ("sec", "section", "name") and any(isinstance(e, dict) and e["op"] == o["name"] for e in ins["syntax"])]
            if not labels:
                continue
            site = "ppci/%s:%s" % (ins["file"], ins["name"])
            ctx.ob("C09.R2", site, "label operand `%s` is turned into a relocation (relocations/gen_relocations defined)" % labels[0]["name"], ins["has_relocations"] or ins["has_render"], construct="has-relocations:%s" % ins["name"])
    # every relocation class constructed inside a relocations()/gen_relocations() method is registered
    for m in project.modules.values():
        if not m.rel.startswith("ppci/arch/"):
            continue
        for fn in ast.walk(m.tree):
            if isinstance(fn, ast.FunctionDef) and fn.name in ("relocations", "gen_relocations"):
                for c in calls_in(fn):
                    cn = (call_name(c) or "").split(".")[-1]
                    if cn.endswith("Relocation"):
                        ctx.ob("C09.R2", "%s:%s" % (m.rel, cn), "relocation class %s returned by an instruction is registered with an isa (the linker looks it up by name)" % cn, cn in reg, construct="registered:" + cn)
