"""C24 - IR -> Python backend: dispatcher coverage, the emitted runtime
helper templates (reassembled from the emit() string constants and analysed
as source), float->int truncation, phi assignment on the edge taken."""
import ast

from ..core import norm, walk_no_nested, try_const, calls_in, last_name, dict_items, AnalysisError
from ..tables import isinstance_branches
from ..shapes import check_wrap_function
from .. import intsem

F = "ppci/lang/python/ir2py.py"
IR = "ppci/ir.py"
PY_SAME = {"+", "-", "*", "|", "&", "^"}   # IR operators whose Python spelling has the same meaning (before wrapping)
ABSTRACT = {"Instruction", "LocalValue", "FinalInstruction", "JumpBase"}
# classes that need no branch (reason per line)
NO_BRANCH = {
    "Parameter": "function parameters are never inside a block; they become the Python parameters",
    "InlineAsm": "target assembly text cannot be given a Python meaning; NotImplementedError is the honest answer",
}


def reassemble(fn):
    """Python source emitted by a generator method built from
    self.emit("..."), `with self.func_def("..."):` and `with self.indented():`"""
    lines = []

    def walk(stmts, ind):
        for st in stmts:
            if isinstance(st, ast.Expr) and isinstance(st.value, ast.Call) and norm(st.value.func) == "self.emit":
                txt = try_const(st.value.args[0])
                if not isinstance(txt, str):
                    raise AnalysisError("emit() argument is not a literal: %s" % norm(st))
                lines.append("    " * ind + txt)
            elif isinstance(st, ast.With):
                c = st.items[0].context_expr
                if isinstance(c, ast.Call) and norm(c.func) == "self.func_def":
                    lines.append("    " * ind + "def " + try_const(c.args[0]))
                    walk(st.body, ind + 1)
                elif isinstance(c, ast.Call) and norm(c.func) == "self.indented":
                    walk(st.body, ind + 1)
                else:
                    raise AnalysisError("unknown with-context %s" % norm(c))
            elif isinstance(st, ast.Expr) and isinstance(st.value, ast.Constant):
                continue
            else:
                raise AnalysisError("unexpected statement in template method: %s" % norm(st)[:60])
    walk(fn.body, 0)
    return "\n".join(lines) + "\n"


def _fstr_text(node):
    """constant text of an f-string / concatenation"""
    out = []
    for n in ast.walk(node):
        if isinstance(n, ast.Constant) and isinstance(n.value, str):
            out.append(n.value)
    return "".join(out)


def run(ctx):
    ctx.rule("C24.R1", "generate_instruction has a branch for every concrete IR instruction class; every Binop operator is lowered to Python of the same meaning", floor=25)
    ctx.rule("C24.R2", "emitted runtime helpers: idiv/irem truncate toward zero, shifts reduce the amount modulo the width and shift the right way, correct() is the two's complement wrap", floor=8)
    ctx.rule("C24.R3", "float to integer casts truncate toward zero (no round) and every integer result is wrapped to its type", floor=4)
    ctx.rule("C24.R5", "phi values are assigned on the edge taken: per target block, inside the branch that jumps there", floor=5)
    project = ctx.project
    gi = ctx.fn(F, "IrToPythonCompiler.generate_instruction")
    br = isinstance_branches(gi, "ins")
    inst = ctx.cls(IR, "Instruction")
    site = F + ":IrToPythonCompiler.generate_instruction"
    n = 0
    for c in project.subclasses(inst, strict=False):
        if c._module.rel != IR or c.name in ABSTRACT or c.name in NO_BRANCH:
            continue
        n += 1
        names = {b.name for b in project.mro(c)} - ABSTRACT - {"Value", "object"}
        ctx.ob("C24.R1", site, "instruction class %s is translated" % c.name, any(("ir." + x) in br for x in names), construct="class:" + c.name)
    ctx.need(n >= 18, "IR instruction classes not enumerated")
    gb = ctx.fn(F, "IrToPythonCompiler.gen_binop")
    binop_ops = try_const(project.class_attr(ctx.cls(IR, "Binop"), "ops"))
    ctx.need(isinstance(binop_ops, list), "ir.Binop.ops not a literal list")
    helper_of = {}
    for nd in walk_no_nested(gb):
        if isinstance(nd, ast.Assign) and isinstance(nd.value, ast.Dict):
            for k, v in dict_items(nd.value):
                helper_of[try_const(k)] = try_const(v)
    bsite = F + ":IrToPythonCompiler.gen_binop"
    want_helper = {"/": "rt.idiv", "%": "rt.irem", "<<": "rt.ishl", ">>": "rt.ishr", "rol": "rt.irol", "ror": "rt.iror"}
    for op in binop_ops:
        if op in want_helper:
            ctx.ob("C24.R1", bsite, "integer `%s` goes through %s" % (op, want_helper[op]), helper_of.get(op) == want_helper[op], construct="binop:" + op, detail=str(helper_of.get(op)))
        else:
            ctx.ob("C24.R1", bsite, "`%s` is a Python operator of the same meaning or has a helper" % op, op in PY_SAME or op in helper_of, construct="binop:" + op,
                   detail="falls into the generic `{a} {op} {b}` template")

    # R2
    gbi = ctx.fn(F, "IrToPythonCompiler.generate_builtins")
    try:
        src = reassemble(gbi)
        tree = ast.parse(src)
    except SyntaxError as e:
        raise AnalysisError("reassembled helper templates do not parse: %s" % e)
    for nd in ast.walk(tree):
        for ch in ast.iter_child_nodes(nd):
            ch._parent = nd
    helpers = {f.name: f for f in tree.body if isinstance(f, ast.FunctionDef)}
    ctx.saw("tables", "emitted helpers: " + ",".join(sorted(helpers)))
    hsite = F + ":IrToPythonCompiler.generate_builtins"
    for name, kind in (("idiv", "div"), ("irem", "rem")):
        if name not in helpers:
            ctx.ob("C24.R2", hsite, "helper %s is emitted" % name, False, construct="helper:" + name)
            continue
        d = intsem.Desc("func", node=helpers[name], module=None, text=name)
        verdict, why = intsem.div_verdict(project, d, kind)
        if verdict == "undecided":
            ctx.undecided("C24.R2", hsite, "%s: %s" % (name, why))
        else:
            ctx.ob("C24.R2", hsite, "%s truncates toward zero%s" % (name, "" if kind == "div" else " (sign of the dividend)"), verdict == "trunc", construct="sem:" + name, detail="%s: %s" % (verdict, why))
        # the magnitude operation is the right one
        ops = {type(x.op).__name__ for x in ast.walk(helpers[name]) if isinstance(x, ast.BinOp)}
        ctx.ob("C24.R2", hsite, "%s computes with %s on magnitudes" % (name, "//" if kind == "div" else "%"), ops == ({"FloorDiv"} if kind == "div" else {"Mod"}), construct="op:" + name, detail=str(sorted(ops)))
        # which operands decide the sign of the result
        deciders = set()
        for a in ast.walk(helpers[name]):
            if isinstance(a, ast.Assign) and norm(a.targets[0]) == "sign":
                for anc in _anc(a):
                    if isinstance(anc, ast.If) and a in ast.walk(anc) and not any(a in ast.walk(o) for o in anc.orelse):
                        deciders |= {x.id for x in ast.walk(anc.test) if isinstance(x, ast.Name)}
        want = {"x", "y"} if kind == "div" else {"x"}
        ctx.ob("C24.R2", hsite, "the sign of %s's result is decided by %s" % (name, " and ".join(sorted(want))), deciders == want, construct="sign:" + name, detail=str(sorted(deciders)))
        # both operands are made non-negative before the floored operation
        flips = {norm(a.targets[0]) for a in ast.walk(helpers[name]) if isinstance(a, ast.Assign) and isinstance(a.value, ast.UnaryOp) and isinstance(a.value.op, ast.USub) and norm(a.value.operand) == norm(a.targets[0])}
        ctx.ob("C24.R2", hsite, "%s negates both negative operands before the floored operation" % name, flips == {"x", "y"}, construct="abs:" + name, detail=str(sorted(flips)))
    for name, pyop in (("ishl", ast.LShift), ("ishr", ast.RShift)):
        if name not in helpers:
            ctx.ob("C24.R2", hsite, "helper %s is emitted" % name, False, construct="helper:" + name)
            continue
        fn = helpers[name]
        rets = [r.value for r in ast.walk(fn) if isinstance(r, ast.Return)]
        ok = len(rets) == 1 and isinstance(rets[0], ast.BinOp) and isinstance(rets[0].op, pyop) and norm(rets[0].left) == "x" and norm(rets[0].right) == "amount"
        ctx.ob("C24.R2", hsite, "%s shifts x by amount with %s" % (name, "<<" if pyop is ast.LShift else ">>"), ok, construct="dir:" + name)
        red = [a for a in ast.walk(fn) if isinstance(a, ast.Assign) and norm(a.targets[0]) == "amount" and isinstance(a.value, ast.BinOp) and isinstance(a.value.op, ast.Mod) and norm(a.value.right) == "bits"]
        ctx.ob("C24.R2", hsite, "%s reduces the amount modulo the width" % name, bool(red), construct="mod:" + name)
    for name, first, second in (("irol", ast.LShift, ast.RShift), ("iror", ast.RShift, ast.LShift)):
        if name not in helpers:
            ctx.ob("C24.R2", hsite, "helper %s is emitted" % name, False, construct="helper:" + name)
            continue
        fn = helpers[name]
        rets = [r.value for r in ast.walk(fn) if isinstance(r, ast.Return)]
        ok = False
        if len(rets) == 1 and isinstance(rets[0], ast.BinOp) and isinstance(rets[0].op, ast.BitOr):
            l, r = rets[0].left, rets[0].right
            ok = (isinstance(l, ast.BinOp) and isinstance(r, ast.BinOp) and isinstance(l.op, first) and isinstance(r.op, second)
                  and norm(l.left) == norm(r.left) == "x" and norm(l.right) == "amount" and norm(r.right) in ("bits - amount",))
        ctx.ob("C24.R2", hsite, "%s combines x %s amount with x %s (bits - amount)" % (name, "<<" if first is ast.LShift else ">>", ">>" if first is ast.LShift else "<<"), ok, construct="rot:" + name)
        red = [a for a in ast.walk(fn) if isinstance(a, ast.Assign) and norm(a.targets[0]) == "amount" and norm(a.value) == "amount % bits"]
        uns = [a for a in ast.walk(fn) if isinstance(a, ast.Assign) and norm(a.targets[0]) == "x" and norm(a.value) in ("x % (1 << bits)", "x & (1 << bits) - 1")]
        ctx.ob("C24.R2", hsite, "%s reduces the amount modulo the width and rotates the unsigned bit pattern" % name, bool(red) and bool(uns), construct="rot-norm:" + name)
    if "correct" in helpers:
        check_wrap_function(ctx, "C24.R2", helpers["correct"], hsite + "/correct")
    else:
        ctx.ob("C24.R2", hsite, "helper correct is emitted", False, construct="helper:correct")

    # R3
    gc = ctx.fn(F, "IrToPythonCompiler.gen_cast")
    csite = F + ":IrToPythonCompiler.gen_cast"
    for nd in walk_no_nested(gc):
        if isinstance(nd, ast.If):
            chain = []
            cur = nd
            while True:
                chain.append((norm(cur.test), cur.body))
                if len(cur.orelse) == 1 and isinstance(cur.orelse[0], ast.If):
                    cur = cur.orelse[0]
                else:
                    break
            for test, body in chain:
                txt = "".join(_fstr_text(s) for s in body)
                if "is_integer" in test or "ir.ptr" in test:
                    ctx.ob("C24.R3", csite, "cast when `%s`: converts with int() (truncation), not round()" % test, "int(" in txt and "round" not in txt, construct="cast-trunc:" + test, detail=txt[:80])
                if "is_integer" in test:
                    ctx.ob("C24.R3", csite, "cast to an integer type is wrapped by rt.correct", "rt.correct(" in txt, construct="cast-wrap")
            break
    txt = "".join(_fstr_text(s) for s in gb.body)
    wraps = [nd for nd in walk_no_nested(gb) if isinstance(nd, ast.If) and norm(nd.test).endswith(".is_integer") and "rt.correct(" in "".join(_fstr_text(s) for s in nd.body)]
    last_is_wrap = bool(wraps) and gb.body[-1] is wraps[-1]
    ctx.ob("C24.R3", bsite, "every integer binop result is wrapped by rt.correct(…, bits, signed) after the operation", last_is_wrap, construct="binop-wrap")
    un = br.get("ir.Unop")
    utxt = "".join(_fstr_text(s) for s in un[1]) if un else ""
    ctx.ob("C24.R3", site, "integer unary results are wrapped by rt.correct", "rt.correct(" in utxt, construct="unop-wrap")

    # R5
    cls = ctx.cls(F, "IrToPythonCompiler")
    fp = ctx.fn(F, "IrToPythonCompiler.fill_phis")
    psite = F + ":IrToPythonCompiler.fill_phis"
    over_succ = [x for x in ast.walk(fp) if isinstance(x, ast.Attribute) and x.attr == "successors"]
    ctx.ob("C24.R5", psite, "phi filling handles one target block (it does not collect the phis of all successors)", not over_succ, construct="per-target", node=over_succ[0] if over_succ else fp)
    ej = ctx.fn(F, "IrToPythonCompiler.emit_jump")
    fc = [c for c in calls_in(ej, "fill_phis")]
    setcur = [s for s in walk_no_nested(ej) if isinstance(s, ast.Expr) and "_irpy_current_block =" in _fstr_text(s)]
    ok = bool(fc) and bool(setcur) and fc[0].lineno < setcur[0].lineno
    ctx.ob("C24.R5", F + ":IrToPythonCompiler.emit_jump", "the jump to a target assigns that target's phis first", ok, construct="fill-in-jump")
    if fc:
        ps = [a.arg for a in ej.args.args]
        ok = len(fc[0].args) == 2 and all(isinstance(a, ast.Name) and a.id in ps for a in fc[0].args) and norm(fc[0].args[1]) == "target"
        ctx.ob("C24.R5", F + ":IrToPythonCompiler.emit_jump", "phis are filled for the jump's own (source, target) pair", ok, construct="fill-args")
    srcs = {norm(x) for x in ast.walk(fp) if isinstance(x, ast.Subscript) and norm(x.value).endswith(".inputs")}
    ctx.ob("C24.R5", psite, "the value assigned is the phi input for the source block of the edge", srcs == {"p.inputs[block]"}, construct="input-of-source", detail=str(sorted(srcs)))
    gcj = ctx.fn(F, "IrToPythonCompiler.gen_cjump")
    jumps = [c for c in calls_in(gcj, "emit_jump")]
    tg = [norm(c.args[-1]) for c in jumps]
    inside = all(any(isinstance(a, ast.With) and "indented" in norm(a.items[0].context_expr) for a in _anc(c)) for c in jumps)
    ctx.ob("C24.R5", F + ":IrToPythonCompiler.gen_cjump", "each arm of the conditional performs its own jump (with its phi assignment) inside the emitted if/else", tg == ["ins.lab_yes", "ins.lab_no"] and inside, construct="cjump-arms", detail=str(tg))
    gen_blk = ctx.fn(F, "IrToPythonCompiler.generate_block")
    ctx.ob("C24.R5", F + ":IrToPythonCompiler.generate_block", "no phi assignment is emitted after the terminator for all successors at once", not list(calls_in(gen_blk, "fill_phis")), construct="no-eager-fill")
    # all jump sites pass the block of the jump instruction
    for c in [c for m in cls.body if isinstance(m, ast.FunctionDef) for c in calls_in(m, "emit_jump")]:
        ctx.ob("C24.R5", F + ":IrToPythonCompiler", "emit_jump is given the block that ends in this jump", len(c.args) == 2 and norm(c.args[0]) in ("ins.block", "block"), construct="jump-src:" + norm(c.args[-1]), node=c)

    _runtime_stack(ctx, helpers)


def _anc(n):
    out = []
    n = getattr(n, "_parent", None)
    while n is not None:
        out.append(n)
        n = getattr(n, "_parent", None)
    return out


def negated_name_slices(tree):
    """slices whose bound is `-name` without a guard that name is non-zero: x[-n:] is the WHOLE sequence for n == 0"""
    from ..sym import conjuncts
    out = []
    for fn in [f for f in ast.walk(tree) if isinstance(f, ast.FunctionDef)]:
        for n in ast.walk(fn):
            if not (isinstance(n, ast.Subscript) and isinstance(n.slice, ast.Slice)):
                continue
            for bound in (n.slice.lower, n.slice.upper):
                if isinstance(bound, ast.UnaryOp) and isinstance(bound.op, ast.USub) and isinstance(bound.operand, ast.Name):
                    v = bound.operand.id
                    guards = [(" ".join(norm(c).split()), pol) for c, pol in conjuncts(n, fn, {})]
                    if not any((c == v and pol is True) or (c in ("%s > 0" % v, "%s != 0" % v, "%s >= 1" % v, "0 < %s" % v) and pol is True) or (c in ("%s == 0" % v, "not %s" % v) and pol is False) for c, pol in guards):
                        out.append((n, v))
    return out


def _runtime_stack(ctx, helpers):
    """R6: the emitted runtime keeps all allocas of all active calls in one bytearray; alloca(n) hands out the old
    length and grows by n, free(n) - emitted before every return with the function's total - removes exactly n bytes."""
    ctx.rule("C24.R6", "runtime stack: alloca(n) returns (old length, n) and extends the stack by n zero bytes; free(n) removes exactly the last n bytes for every n >= 0 - n == 0 (a function without allocas) removes nothing", floor=4)
    site = F + ":IrToPythonCompiler.generate_builtins"
    ctl = ast.parse("class R:\n    def free(self, amount):\n        del self.stack[-amount:]\n    def ok(self, amount):\n        if amount:\n            del self.stack[-amount:]\n")
    for nd in ast.walk(ctl):
        for ch in ast.iter_child_nodes(nd):
            ch._parent = nd
    ctx.need(len(negated_name_slices(ctl)) == 1, "C24.R6 positive control lost")
    al, fr = helpers.get("alloca"), helpers.get("free")
    ctx.need(al is not None and fr is not None, "emitted helpers alloca / free not found")
    a = al.args.args[1].arg
    txt = [" ".join(norm(s_).split()) for s_ in al.body]
    ok = txt == ["ptr = len(self.stack)", "self.stack.extend(bytes(%s))" % a, "return (ptr, %s)" % a]
    ctx.ob("C24.R6", site, "alloca: pointer = current length, then the stack grows by `amount` zero bytes, the (pointer, size) pair is returned", ok, construct="alloca", detail="; ".join(txt))
    f = fr.args.args[1].arg
    body = [" ".join(norm(s_).split()) for s_ in fr.body]
    loop_form = len(fr.body) == 1 and isinstance(fr.body[0], ast.For) and " ".join(norm(fr.body[0].iter).split()) == "range(%s)" % f and [" ".join(norm(x).split()) for x in fr.body[0].body] == ["self.stack.pop()"]
    slice_len = body == ["del self.stack[len(self.stack) - %s:]" % f]
    guarded = len(fr.body) == 1 and isinstance(fr.body[0], ast.If) and " ".join(norm(fr.body[0].test).split()) in (f, "%s > 0" % f, "%s != 0" % f) and not fr.body[0].orelse and \
        [" ".join(norm(x).split()) for x in fr.body[0].body] == ["del self.stack[-%s:]" % f]
    ctx.ob("C24.R6", site, "free(amount) removes exactly `amount` bytes from the end, nothing for amount == 0 (pop loop, length-based slice, or a guarded negative slice)", loop_form or slice_len or guarded, construct="free-exact", detail="; ".join(body)[:120])
    tree = helpers["free"]
    root = tree
    while getattr(root, "_parent", None) is not None:
        root = root._parent
    bad = negated_name_slices(root)
    ctx.ob("C24.R6", site, "no emitted helper slices with an unguarded negated variable (`x[-n:]` is everything when n is 0)", not bad, construct="no-negative-zero-slice", node=None, detail="; ".join("%s in line %d" % (norm(n)[:40], n.lineno) for n, _ in bad[:3]))
    rs = ctx.fn(F, "IrToPythonCompiler.reset_stack")
    em = [s_ for s_ in rs.body if isinstance(s_, ast.Expr) and isinstance(s_.value, ast.Call) and norm(s_.value.func) == "self.emit"]
    ok = len(em) == 1 and "rt.free(" in _fstr_text(em[0]) and "self.stack_size" in norm(em[0])
    ctx.ob("C24.R6", F + ":IrToPythonCompiler.reset_stack", "every return frees the function's accumulated alloca total (possibly 0)", ok, construct="free-on-return")
    z = [n for n in rs.body if isinstance(n, ast.Assign) and norm(n.targets[0]) == "self.stack_size" and norm(n.value) == "0"]
    ok = len(z) == 1 and em and z[0].lineno > em[0].lineno
    ctx.ob("C24.R6", F + ":IrToPythonCompiler.reset_stack", "after the free the running total restarts at 0: the total is a sum over the Allocs in TEXT order, so a later return must not free them again (on its path they may never have been allocated: it would pop the caller's slots)", bool(ok), construct="total-reset-after-free")
    gi = ctx.fn(F, "IrToPythonCompiler.generate_instruction")
    acc = [n for n in ast.walk(gi) if isinstance(n, ast.AugAssign) and norm(n.target) == "self.stack_size" and isinstance(n.op, ast.Add) and norm(n.value) == "ins.amount"]
    ctx.ob("C24.R6", F + ":IrToPythonCompiler.generate_instruction", "each Alloc adds its size to that total", len(acc) == 1, construct="alloc-accumulates")
