"""C13 - linker relaxation: every kind of position is adjusted from one hole
map with one counting function, holes sorted, data removed back to front,
shrinkable relocations pair can_shrink/do_shrink, the shrink range equals the
gate of the relocation it turns into, old relocation replaced in place."""
import ast

from ..core import (norm, walk_no_nested, calls_in, call_name, last_name, try_const, assigned_values,
                    names_in, attrs_in, params_of, compare_ops, attr_chain)
from ..cfg import CFG
from .. import sym, relocs, ranges, flow

L = "ppci/binutils/linker.py"
RVC = "ppci/arch/riscv/rvc_relocations.py"


def run(ctx):
    ctx.rule("C13.R1", "_apply_relaxation_holes adjusts symbols, relocations, section data and image section addresses, all from the same hole map", floor=6)
    ctx.rule("C13.R2", "holes before a position are counted the same way for symbols and relocations; holes are sorted; data is removed back to front", floor=5)
    ctx.rule("C13.R3", "can_shrink/do_shrink come in pairs; the shrink range equals the gate of the new relocation; the new relocation is registered", floor=8)
    ctx.rule("C13.R4", "do_relaxations replaces the old relocation by the new one at the same symbol/section/offset/addend and records the hole after the shortened instruction", floor=6)
    project = ctx.project
    ah = ctx.fn(L, "Linker._apply_relaxation_holes")
    site = L + ":Linker._apply_relaxation_holes"
    hm = params_of(ah)[1]
    # ---- R1 ----
    loops = [n for n in ah.body if isinstance(n, ast.For)]
    def loop_over(attr):
        return [l for l in loops if attr in attrs_in(l.iter)]
    for what, attr, field, keyexpr in (("symbols", "symbols", "symbol.value", "symbol.section"), ("relocations", "relocations", "relocation.offset", "relocation.section")):
        ls = loop_over(attr)
        ok = False
        detail = ""
        if ls:
            l = ls[0]
            holes = [v for v in assigned_values(l, "holes")]
            delta = [v for v in assigned_values(l, "delta")]
            sub = [n for n in walk_no_nested(l) if isinstance(n, ast.AugAssign) and norm(n.target) == field and isinstance(n.op, ast.Sub)]
            ok = bool(holes) and norm(holes[0]) == "%s[%s]" % (hm, keyexpr) and bool(delta) and isinstance(delta[0], ast.Call) and last_name(delta[0]) == "count_holes" and \
                [norm(a) for a in delta[0].args] == [field, "holes"] and bool(sub) and norm(sub[0].value) == "delta"
            detail = "%s / %s / %s" % ([norm(h) for h in holes], [norm(d) for d in delta], [norm(s) for s in sub])
        ctx.ob("C13.R1", site, "every %s position is lowered by the holes of its own section that lie before it" % what[:-1], ok, construct="adjust:" + what, detail=detail)
    # section data: for every section with holes, hole_size bytes are cut at hole_offset, last hole first
    cuts = []
    for l in loops:
        if "images" in attrs_in(l.iter):
            continue
        for n in ast.walk(l):
            if isinstance(n, ast.Call) and last_name(n) == "pop" and norm(n.func.value).endswith(".data"):
                cuts.append((l, n, "pop"))
            elif isinstance(n, ast.Delete) and isinstance(n.targets[0], ast.Subscript) and norm(n.targets[0].value).endswith(".data"):
                cuts.append((l, n, "del"))
    ok = rev = False
    detail = ""
    if len(cuts) == 1:
        l, n, kind = cuts[0]
        env = sym.single_assign_env(l)
        inner = [x for x in ast.walk(l) if isinstance(x, ast.For) and x is not l and any(y is n for y in ast.walk(x))]
        # the loop that walks the holes of the section
        hl = [x for x in inner if isinstance(x.target, ast.Tuple) and len(x.target.elts) == 2]
        if hl:
            off, size = (norm(e) for e in hl[0].target.elts)
            it = hl[0].iter
            rev = isinstance(it, ast.Call) and call_name(it) == "reversed"
            src = it.args[0] if rev and it.args else it
            # holes come from the hole map, keyed by the name of the very section whose data is cut
            secvar = norm(n.func.value)[: -len(".data")] if kind == "pop" else norm(n.targets[0].value)[: -len(".data")]
            holes_src = norm(sym.deep_inline(src, env))
            if isinstance(l.target, ast.Tuple) and norm(l.iter) == hm + ".items()":
                namevar, holesvar = (norm(e) for e in l.target.elts)
                sec_src = norm(sym.deep_inline(ast.parse(secvar, mode="eval").body, env))
                keyed = holes_src == holesvar and sec_src in ("self.dst.get_section(%s)" % namevar, "self.dst.section_map[%s]" % namevar)
            else:
                keyed = holes_src == "%s[%s.name]" % (hm, secvar) and norm(l.target) == secvar and "sections" in attrs_in(l.iter)
            if kind == "pop":
                cnt = [x for x in inner if isinstance(x.iter, ast.Call) and call_name(x.iter) == "range" and len(x.iter.args) == 1 and norm(x.iter.args[0]) == size]
                amount = bool(cnt) and norm(n.args[0]) == off
            else:
                sl = n.targets[0].slice
                amount = isinstance(sl, ast.Slice) and sl.lower is not None and sl.upper is not None and norm(sl.lower) == off and norm(sl.upper) in ("%s + %s" % (off, size), "%s + %s" % (size, off))
            ok = keyed and amount
            detail = "holes from %s; cut %s" % (holes_src, " ".join(norm(n).split()))
    ctx.ob("C13.R2", site, "holes are cut out of the data from the last to the first (earlier offsets stay valid)", rev, construct="reverse-removal")
    ctx.ob("C13.R1", site, "hole_size bytes are removed from the data of the section the holes belong to, at every hole offset", ok, construct="adjust:data", detail=detail)
    ls = loop_over("images")
    ok = every = False
    if ls:
        l = ls[0]
        inner = [n for n in walk_no_nested(l) if isinstance(n, ast.For) and n is not l]
        if inner:
            body = inner[0].body
            sv = norm(inner[0].target)
            subs = [i for i, st in enumerate(body) if isinstance(st, ast.AugAssign) and norm(st.target) == sv + ".address" and isinstance(st.op, ast.Sub) and norm(st.value) == "delta"]
            adds = [i for i, st in enumerate(body) if isinstance(st, ast.AugAssign) and norm(st.target) == "delta" and isinstance(st.op, ast.Add)
                    and norm(st.value) in ("section_changes[%s.name]" % sv, "section_changes.get(%s.name, 0)" % sv)]
            init = any(isinstance(st, ast.Assign) and norm(st) == "delta = 0" for st in l.body)
            ok = bool(subs) and bool(adds) and subs[0] < adds[0] and init and norm(inner[0].iter) == "image.sections"
            every = ok and not any(isinstance(x, (ast.Continue, ast.Break, ast.Return)) for x in ast.walk(inner[0]))
    ctx.ob("C13.R1", site, "within an image each section moves down by the bytes removed from the sections before it (address lowered first, then its own shrinkage accumulated)", ok, construct="adjust:addresses")
    ctx.ob("C13.R1", site, "no section of the image is skipped: a section without holes of its own still moves with the sections before it", every, construct="adjust:every-section")
    sc = [v for v in assigned_values(ah, "section_changes")]
    ok = bool(sc) and isinstance(sc[0], ast.DictComp) and norm(sc[0].value) in ("sum((h[1] for h in holes))", "sum(h[1] for h in holes)") and norm(sc[0].generators[0].iter) == hm + ".items()"
    ctx.ob("C13.R1", site, "the shrinkage of a section is the sum of its hole sizes, from the same hole map", ok, construct="section-changes", detail=norm(sc[0]) if sc else "")
    # ---- R2 ----
    ch = [n for n in ah.body if isinstance(n, ast.FunctionDef) and n.name == "count_holes"]
    ok = False
    if ch:
        f = ch[0]
        lp = [n for n in walk_no_nested(f) if isinstance(n, ast.For)]
        if lp:
            ifs = [n for n in lp[0].body if isinstance(n, ast.If)]
            if ifs:
                cmpok = any((norm(l), op, norm(r)) in (("hole_offset", "Lt", "offset"), ("offset", "Gt", "hole_offset")) for l, op, r in compare_ops(ifs[0].test))
                acc = any(norm(b) == "diff += hole_size" for b in ifs[0].body)
                brk = any(isinstance(b, ast.Break) for b in ifs[0].orelse)
                ok = cmpok and acc
                ctx.ob("C13.R2", site, "count_holes stops at the first hole that is not before the offset - which requires the holes to be sorted", (not brk) or _sorted_before_apply(ctx), construct="sorted-holes")
    ctx.ob("C13.R2", site, "a hole counts for a position iff it starts strictly before it (hole_offset < offset), adding its size", ok, construct="count-holes")
    calls = [c for c in calls_in(ah, "count_holes")]
    ctx.ob("C13.R2", site, "symbols and relocations use the same counting function", len(calls) == 2, construct="same-counter")
    skip = [n for n in walk_no_nested(ah) if isinstance(n, ast.If) and norm(n.test) == "symbol.section is None" and any(isinstance(b, ast.Continue) for b in n.body)]
    ctx.ob("C13.R2", site, "section-less (absolute) symbols are not moved", bool(skip), construct="absolute-symbols")

    # ---- R3 ----
    rs = relocs.all_relocations(project)
    reg = relocs.registered_names(project)
    by_name = {r.name: r for r in rs}
    shrinkers = [r for r in rs if "can_shrink" in r.methods or "do_shrink" in r.methods]
    ctx.need(len(shrinkers) >= 2, "no shrinkable relocations found")
    for r in shrinkers:
        ctx.ob("C13.R3", r.site, "a relocation that can shrink defines both can_shrink and do_shrink", "can_shrink" in r.methods and "do_shrink" in r.methods, construct="pair")
        if "can_shrink" not in r.methods or "do_shrink" not in r.methods:
            continue
        cs, ds = r.methods["can_shrink"], r.methods["do_shrink"]
        news = [c for c in calls_in(ds) if (call_name(c) or "").endswith("Relocation")]
        if not news:
            ctx.undecided("C13.R3", r.site + ".do_shrink", "new relocation construction not found")
            continue
        nn = call_name(news[0]).split(".")[-1]
        ctx.ob("C13.R3", r.site + ".do_shrink", "the relocation it shrinks into (%s) is registered with the isa" % nn, nn in reg, construct="registered:" + nn)
        ctx.ob("C13.R3", r.site + ".do_shrink", "the new relocation refers to the same symbol", [norm(a) for a in news[0].args] == ["self.symbol_name"], construct="same-symbol")
        new = by_name.get(nn)
        # range test of can_shrink
        rng = [c for c in calls_in(cs, "isinsrange")]
        off = [v for v in assigned_values(cs, "offset")]
        ctx.ob("C13.R3", r.site + ".can_shrink", "the distance tested is sym_value - reloc_value", bool(off) and sym.affine(off[0], {}) == sym.atom("sym_value") - sym.atom("reloc_value"), construct="distance")
        if rng and new is not None and new.own is not None:
            Bits = try_const(rng[0].args[0])
            wn = [c for c in calls_in(new.own, "wrap_negative")]
            if wn and isinstance(Bits, int):
                N = try_const(wn[0].args[1])
                e = wn[0].args[0]
                s = try_const(e.right) if isinstance(e, ast.BinOp) and isinstance(e.op, ast.RShift) else 0
                ctx.ob("C13.R3", r.site + ".can_shrink", "shrink range (%d bits of byte offset) equals what %s can encode (%d bits << %d)" % (Bits, nn, N, s), Bits == N + s and norm(rng[0].args[1]) == "offset", construct="range-agreement", detail="isinsrange(%d) vs wrap_negative(.. >> %d, %d)" % (Bits, s, N))
            else:
                ctx.undecided("C13.R3", r.site + ".can_shrink", "gate of %s not recognised" % nn)
            # new data length = token size of new relocation
            sl = [v for v in assigned_values(ds, "data") if isinstance(v, ast.Subscript)]
            if sl and new.token is not None and new.token.size:
                ctx.ob("C13.R3", r.site + ".do_shrink", "the shortened instruction has the size of the new relocation's token (%d bytes)" % (new.token.size // 8), norm(sl[0]) == "data[:%d]" % (new.token.size // 8), construct="new-size", detail=norm(sl[0]))
        else:
            ctx.undecided("C13.R3", r.site + ".can_shrink", "range test not recognised")
    fn = ctx.fn(RVC, "isinsrange")
    iv = ranges.accept_interval(fn, "val")
    bits = sym.atom("bits")
    slo, shi = ranges.signed_interval(bits)
    if iv is None:
        ctx.undecided("C13.R3", RVC + ":isinsrange", "interval not recognised")
    else:
        ctx.ob("C13.R3", RVC + ":isinsrange", "isinsrange(bits, v) accepts exactly [-2^(bits-1), 2^(bits-1)-1]", iv[0] == slo and iv[1] == shi, construct="interval", detail="[%r, %r]" % (iv[0], iv[1]))
    # ---- R4 ----
    dr = ctx.fn(L, "Linker.do_relaxations")
    site = L + ":Linker.do_relaxations"
    rm = [c for c in calls_in(dr, "remove") if norm(c) == "self.dst.relocations.remove(relocation)"]
    ne = [c for c in calls_in(dr, "RelocationEntry")]
    ok = bool(rm) and bool(ne) and [norm(a) for a in ne[0].args] == ["new_reloc.name", "relocation.symbol_id", "relocation.section", "relocation.offset", "relocation.addend"]
    ctx.ob("C13.R4", site, "the superseded relocation is removed and the new one added at the same symbol, section, offset and addend", ok and any(norm(c) == "self.dst.add_relocation(new_relocation)" for c in calls_in(dr, "add_relocation")), construct="replace")
    hole = [v for v in assigned_values(dr, "hole")]
    diff = [v for v in assigned_values(dr, "diff")]
    newend = [v for v in assigned_values(dr, "new_end")]
    ok = bool(hole) and norm(hole[0]) == "(new_end, diff)" and bool(diff) and sym.affine(diff[0], {}) == sym.atom("size") - sym.atom("new_size") and bool(newend) and sym.affine(newend[0], {}) == sym.atom("begin") + sym.atom("new_size")
    ctx.ob("C13.R4", site, "the hole starts right after the shortened instruction and has the size difference", ok, construct="hole")
    patch = [n for n in walk_no_nested(dr) if isinstance(n, ast.Assign) and norm(n.targets[0]) == "reloc_section.data[begin:new_end]" and norm(n.value) == "data"]
    ctx.ob("C13.R4", site, "the patched bytes replace the start of the old instruction", bool(patch), construct="patch")
    ok = any(norm(n) == "holes_map[relocation.section].append(hole)" for n in ast.walk(dr) if isinstance(n, ast.Call))
    ctx.ob("C13.R4", site, "the hole is registered under the relocation's section", ok, construct="register-hole")
    cs = [c for c in calls_in(dr, "can_shrink")]
    ok = bool(cs) and [norm(a) for a in cs[0].args] == ["sym_value", "reloc_value"] and any(sym.affine(v, {}) == sym.atom("reloc_section.address") + sym.atom("relocation.offset") for v in assigned_values(dr, "reloc_value"))
    ctx.ob("C13.R4", site, "shrinkability is decided on the symbol value and the relocation's address (section address + offset)", ok, construct="decide")
    ap = [c for c in calls_in(dr, "_apply_relaxation_holes")]
    ctx.ob("C13.R4", site, "all positions are adjusted after the patches (single call with the hole map)", bool(ap) and norm(ap[0].args[0]) == "holes_map", construct="apply")
    lk = ctx.fn(L, "Linker.link")
    cfg = CFG(lk)
    a = [c for c in calls_in(lk, "do_relaxations")]
    b = [c for c in calls_in(lk, "do_relocations")]
    ok = bool(a) and bool(b) and cfg.must_pass(cfg.stmt_of(b[0]), lambda n: n is cfg.stmt_of(a[0]))
    ctx.ob("C13.R4", L + ":Linker.link", "relaxation runs before relocations are applied", ok, construct="relax-before-reloc")
    _cj_layout(ctx)
    layout_markers(ctx, "C13.R6")


def _sorted_before_apply(ctx):
    dr = ctx.fn(L, "Linker.do_relaxations")
    srt = [c for c in calls_in(dr, "sort") if norm(c.func.value) == "holes"]
    ap = [c for c in calls_in(dr, "_apply_relaxation_holes")]
    return bool(srt) and bool(ap) and srt[0].lineno < ap[0].lineno and "x[0]" in norm(srt[0])


# RISC-V C extension, CJ format (c.j / c.jal): instruction bit <- byte-offset bit.  imm[11|4|9:8|10|6|7|3:1|5] in inst[12:2]
CJ_REFERENCE = {12: 11, 11: 4, 10: 9, 9: 8, 8: 10, 7: 6, 6: 7, 5: 3, 4: 2, 3: 1, 2: 5}


def _cj_layout(ctx):
    """the compressed jump produced by relaxation scatters its offset as the RISC-V spec prescribes"""
    from ..core import try_const
    ctx.rule("C13.R5", "c.j / c.jal immediate scatter (apply_cool_mapping) places every offset bit in the instruction bit the RISC-V C specification assigns to it (reference table in sa/rules/c13.py)", floor=11)
    fn = ctx.fn(RVC, "apply_cool_mapping")
    site = RVC + ":apply_cool_mapping"
    ps = [a.arg for a in fn.args.args]
    ctx.need(len(ps) == 2, "apply_cool_mapping(bv, rel11) signature changed")
    bv, rel = ps
    got = {}
    for st in fn.body:
        if not (isinstance(st, ast.Assign) and isinstance(st.targets[0], ast.Subscript) and norm(st.targets[0].value) == bv and isinstance(st.targets[0].slice, ast.Slice)):
            continue
        lo, hi = try_const(st.targets[0].slice.lower), try_const(st.targets[0].slice.upper)
        v = st.value
        mask = None
        if isinstance(v, ast.BinOp) and isinstance(v.op, ast.BitAnd):
            mask, v = try_const(v.right), v.left
        shift = 0
        if isinstance(v, ast.BinOp) and isinstance(v.op, ast.RShift):
            shift, v = try_const(v.right), v.left
        if not (isinstance(lo, int) and isinstance(hi, int) and isinstance(shift, int) and norm(v) == rel and isinstance(mask, int) and mask == (1 << (hi - lo)) - 1):
            ctx.undecided("C13.R5", site, "statement `%s` not interpreted" % norm(st))
            continue
        for k in range(hi - lo):
            got[lo + k] = shift + k + 1      # rel11 is the halfword offset: bit k of rel11 is offset bit k+1
    for ib, ob in sorted(CJ_REFERENCE.items()):
        ctx.ob("C13.R5", site, "instruction bit %d carries offset bit %d" % (ib, ob), got.get(ib) == ob, construct="cj-bit:%d" % ib, detail="carries offset bit %s" % got.get(ib))


def layout_markers(ctx, rid):
    """Relaxation moves what is tied to a section: _apply_relaxation_holes shifts symbols through their section's
    holes (a symbol without section is skipped) and addresses through image.sections.  A layout marker
    (DEFINESYMBOL(x)) placed behind relaxed code therefore has to be a symbol OF a section that sits in the image."""
    ctx.rule(rid, "a symbol defined by the layout (DEFINESYMBOL) is section-relative - offset 0 of a section placed at the current address and added to the image - so that it shifts with everything else when bytes before it are removed; the relaxation pass skips section-less symbols", floor=4)
    ls = ctx.fn(L, "Linker.layout_sections")
    site = L + ":Linker.layout_sections"
    br = [n for n in ast.walk(ls) if isinstance(n, ast.If) and "SymbolDefinition" in norm(n.test) and norm(n.test).startswith("isinstance(")]
    ctx.need(len(br) == 1, "layout_sections: SymbolDefinition branch not found")
    body = ast.Module(body=br[0].body, type_ignores=[])
    env = sym.single_assign_env(body)
    defs = [c for c in ast.walk(body) if isinstance(c, ast.Call) and last_name(c) in ("merge_global_symbol", "inject_symbol", "add_symbol")]
    ok = len(defs) == 1 and len(defs[0].args) >= 3
    sec = defs[0].args[1] if ok else None
    ctx.ob(rid, site, "the marker is defined with a section (not None: a section-less symbol keeps its pre-relaxation value)", ok and not (isinstance(sec, ast.Constant) and sec.value is None), construct="marker-has-section", node=defs[0] if defs else br[0],
           detail=norm(defs[0])[:100] if defs else "")
    if not ok:
        return
    ctx.ob(rid, site, "at offset 0 of that section", try_const(defs[0].args[2]) == 0, construct="marker-offset-zero", detail=norm(defs[0].args[2]))
    getsec = [n for n in ast.walk(body) if isinstance(n, ast.Assign) and isinstance(n.value, ast.Call) and last_name(n.value) == "get_section" and n.value.args and norm(n.value.args[0]) == norm(sec)]
    okc = len(getsec) == 1 and any(k.arg == "create" and try_const(k.value) is True for k in getsec[0].value.keywords)
    sv = norm(getsec[0].targets[0]) if getsec else None
    addr = [n for n in ast.walk(body) if isinstance(n, ast.Assign) and sv and norm(n.targets[0]) == sv + ".address"]
    ctx.ob(rid, site, "the section is created for the marker and placed at the current address", okc and len(addr) == 1 and norm(addr[0].value) == "current_address", construct="marker-section-placed",
           detail=norm(addr[0]) if addr else "")
    add = [c for c in ast.walk(body) if isinstance(c, ast.Call) and norm(c.func) == "image.add_section" and sv and norm(c.args[0]) == sv]
    ctx.ob(rid, site, "and it is added to the image (image.sections is what the relaxation pass walks to move addresses)", len(add) == 1, construct="marker-section-in-image")
    ar = ctx.fn(L, "Linker._apply_relaxation_holes")
    skip = [n for n in ast.walk(ar) if isinstance(n, ast.If) and " ".join(norm(n.test).split()) in ("symbol.section is None",) and any(isinstance(x, ast.Continue) for x in n.body)]
    ctx.ob(rid, L + ":Linker._apply_relaxation_holes", "(context) the symbol adjustment skips section-less symbols and moves the others through the holes of their own section", len(skip) == 1 and "hole_map[symbol.section]" in norm(ar), construct="sectionless-skipped")
