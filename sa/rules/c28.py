"""C28 - front-ends fail with diagnostics, not internal errors: every
isinstance dispatch over a front-end AST hierarchy whose fall-through is an
internal error (raise NotImplementedError) covers every concrete class of the
narrowest common base of the classes it names; a fall-through that reports a
diagnostic (…error(…)) is accepted as it is.  Reachability of asserts is not
decided."""
import ast

from ..core import norm, walk_no_nested, attr_chain, call_name

MODULES = ["ppci/lang/c/codegenerator.py", "ppci/lang/c/eval.py", "ppci/lang/c/semantics.py", "ppci/lang/c/context.py",
           "ppci/lang/c/init.py", "ppci/lang/c/scope.py"]
NODE_MODULES = {"expressions": "ppci/lang/c/nodes/expressions.py", "statements": "ppci/lang/c/nodes/statements.py",
                "declarations": "ppci/lang/c/nodes/declarations.py", "types": "ppci/lang/c/nodes/types.py", "ast": "ppci/lang/c3/astnodes.py"}
# (function, class) pairs that cannot reach the dispatcher; one reason each, confirmed by reading/trying
UNREACHABLE = {
    ("gen_code", "ParameterDeclaration"): "parameters are never in CompilationUnit.declarations",
    ("gen_code", "ConstantDeclaration"): "ConstantDeclaration is never instantiated by the parser/semantics",
    ("gen_code", "EnumDeclaration"): "enum declarations are registered as tags, not appended to the unit's declarations",
    ("gen_global_ival", "FunctionType"): "semantics rejects an initializer for function type ('Cannot convert … to Function-type')",
    ("gen_local_init", "FunctionType"): "a block-scope function declaration has no initializer (same conversion diagnostic)",
    ("gen_expr", "ImplicitInitialValue"): "only occurs as an element of an initializer list, consumed by gen_local_init",
    ("gen_variable_access", "Typedef"): "semantics reports 'Access to Typedef' before code generation",
    ("gen_variable_access", "EnumDeclaration"): "an enum tag is not in the ordinary name space",
    ("gen_declaration_statement", "Typedef"): "a block-scope typedef yields no DeclarationStatement ('int f(void){ typedef int T; T x = 1; return x; }' compiles)",
    ("gen_declaration_statement", "ConstantDeclaration"): "ConstantDeclaration is never instantiated",
    ("gen_declaration_statement", "EnumDeclaration"): "a block-scope enum is registered as a tag, no DeclarationStatement ('enum E2 {B=2} e;' compiles)",
    ("gen_declaration_statement", "EnumConstantDeclaration"): "enumerators are entered into the scope by the enum specifier, never wrapped in a statement",
    ("gen_declaration_statement", "ParameterDeclaration"): "parameters are not statements",
    ("_make_ival", "*"): "CContext._make_ival is never called (dead helper; grep: no caller in ppci/)",
    ("eval_take_address", "Typedef"): "semantics reports 'Access to Typedef'",
    ("eval_take_address", "EnumDeclaration"): "an enum tag is not in the ordinary name space",
    ("eval_take_address", "EnumConstantDeclaration"): "semantics reports 'Expected lvalue' for &enumerator",
}


def _is_diag(stmts):
    for s in stmts:
        for c in ast.walk(s):
            if isinstance(c, ast.Call) and isinstance(c.func, ast.Attribute) and c.func.attr == "error":
                return True
    return False


def _is_internal(stmts):
    return any(isinstance(x, ast.Raise) and x.exc is not None and "NotImplementedError" in norm(x.exc) for s in stmts for x in [s] if isinstance(x, ast.Raise))


def chains(fn):
    """isinstance if/elif chains: yields (top If, var, [class chains], else body)"""
    for n in walk_no_nested(fn):
        if not isinstance(n, ast.If):
            continue
        par = n._parent
        if isinstance(par, ast.If) and n in par.orelse and len(par.orelse) == 1:
            continue
        cur, classes, var = n, [], None
        while True:
            t = cur.test
            cands = [t] if isinstance(t, ast.Call) else ([v for v in t.values if isinstance(v, ast.Call)] if isinstance(t, ast.BoolOp) and isinstance(t.op, ast.And) else [])
            hit = False
            for c in cands:
                if call_name(c) == "isinstance" and len(c.args) == 2 and (var is None or norm(c.args[0]) == var):
                    var = norm(c.args[0])
                    guarded = isinstance(t, ast.BoolOp)
                    cl = c.args[1]
                    for e in (cl.elts if isinstance(cl, ast.Tuple) else [cl]):
                        ch = attr_chain(e)
                        if ch and not guarded:
                            classes.append(ch)
                    hit = True
                    break
            if not hit:
                break
            if len(cur.orelse) == 1 and isinstance(cur.orelse[0], ast.If):
                cur = cur.orelse[0]
            else:
                yield n, var, classes, cur.orelse
                break


def run(ctx):
    ctx.rule("C28.R1", "an isinstance dispatch over a front-end AST hierarchy that falls through to NotImplementedError names every concrete class of the hierarchy (or the fall-through is a diagnostic)", floor=40)
    ctx.rule("C28.R2", "the constant evaluator reports non-constant or unsupported expressions through the diagnostic channel", floor=3)
    project = ctx.project
    n_chains = 0
    for rel in MODULES:
        mod = project.module(rel)
        for fn in [f for f in ast.walk(mod.tree) if isinstance(f, ast.FunctionDef)]:
            q = project.site(fn).split(":")[1] if ":" in project.site(fn) else fn.name
            for top, var, classes, orelse in chains(fn):
                if len(classes) < 2:
                    continue
                resolved, unknown = [], False
                for ch in classes:
                    parts = ch.split(".")
                    cdef = None
                    if len(parts) == 2 and parts[0] in NODE_MODULES:
                        cdef = project.cls(NODE_MODULES[parts[0]], parts[1], optional=True)
                        unknown = unknown or cdef is None
                    else:
                        r = project.resolve_name(mod, ch)
                        if isinstance(r, ast.ClassDef) and r._module.rel in NODE_MODULES.values():
                            cdef = r
                    if cdef is not None:
                        resolved.append(cdef)
                if len(resolved) < 2 or unknown:
                    continue
                # narrowest common base inside the node module
                common = None
                for b in project.mro(resolved[0]):
                    if all(any(x is b for x in project.mro(r)) for r in resolved) and getattr(b, "_module", None) is not None and b._module.rel in NODE_MODULES.values():
                        common = b
                        break
                if common is None:
                    continue
                n_chains += 1
                site = "%s:%s" % (rel, q)
                ctx.saw("functions", site)
                if _is_diag(orelse):
                    ctx.ob("C28.R1", site, "dispatch on `%s` over %s falls through to a diagnostic" % (var, common.name), True, construct="diag-fallthrough:" + var)
                    continue
                if not _is_internal(orelse):
                    continue  # no internal error on fall-through (e.g. returns a default)
                have = {r.name for r in resolved}
                leaves = [c for c in project.subclasses(common, strict=False) if not project.subclasses(c, strict=True)]
                for c in leaves:
                    covered = bool({b.name for b in project.mro(c)} & have)
                    why = UNREACHABLE.get((fn.name, c.name)) or UNREACHABLE.get((fn.name, "*"))
                    if not covered and why:
                        ctx.ob("C28.R1", site, "%s cannot reach this dispatcher: %s" % (c.name, why), True, construct="reviewed:" + c.name)
                        continue
                    ctx.ob("C28.R1", site, "dispatch on `%s` over %s handles %s (otherwise: NotImplementedError)" % (var, common.name, c.name), covered, construct="class:" + c.name, node=top)
    ctx.need(n_chains >= 10, "dispatch chains not found (%d)" % n_chains)
    ctx.extra["dispatch_chains"] = n_chains
    # type-keyed dispatch table of gen_stmt
    ctx.rule("C28.R3", "the statement dispatch table of the C code generator has an entry for every concrete statement class", floor=15)
    gs = ctx.fn("ppci/lang/c/codegenerator.py", "CCodeGenerator.gen_stmt")
    keys = None
    for n in walk_no_nested(gs):
        if isinstance(n, ast.Dict) and n.keys and all(k is not None and (attr_chain(k) or "").startswith("statements.") for k in n.keys):
            keys = {attr_chain(k).split(".")[1] for k in n.keys}
    ctx.need(keys is not None, "gen_stmt: type-keyed dispatch dict not found")
    root = project.cls(NODE_MODULES["statements"], "CStatement")
    by_type = any(isinstance(n, ast.Compare) and norm(n.left) == "type(statement)" for n in ast.walk(gs))
    for c in project.subclasses(root, strict=True):
        if project.subclasses(c, strict=True):
            continue
        ok = c.name in keys if by_type else bool({b.name for b in project.mro(c)} & keys)
        ctx.ob("C28.R3", "ppci/lang/c/codegenerator.py:CCodeGenerator.gen_stmt", "statement class %s has a code generator entry" % c.name, ok, construct="stmt:" + c.name)
    # R2
    E = "ppci/lang/c/eval.py"
    for q in ("ConstantExpressionEvaluator.eval_expr", "ConstantExpressionEvaluator.eval_variable_access"):
        fn = ctx.fn(E, q)
        cs = [c for c in chains(fn) if len(c[2]) >= 2]
        ok = bool(cs) and all(_is_diag(c[3]) for c in cs)
        ctx.ob("C28.R2", E + ":" + q, "an expression kind the evaluator does not handle is reported with context.error", ok, construct="diag")
    eb = ctx.fn(E, "ConstantExpressionEvaluator.eval_binop")
    look = [n for n in walk_no_nested(eb) if isinstance(n, ast.Subscript) and isinstance(n.ctx, ast.Load) and norm(n.slice) == "op"]
    guards = [n for n in walk_no_nested(eb) if isinstance(n, ast.If) and _is_diag(n.body)]
    gtxt = [norm(g.test) for g in guards]
    ctx.ob("C28.R2", E + ":ConstantExpressionEvaluator.eval_binop", "an operator without an entry is a diagnostic, not a KeyError", any("not in" in t and "op" in t for t in gtxt) and bool(look), construct="op-guard", detail=str(gtxt))
    ctx.ob("C28.R2", E + ":ConstantExpressionEvaluator.eval_binop", "division by a zero constant is a diagnostic, not ZeroDivisionError", any("== 0" in t for t in gtxt), construct="zero-guard", detail=str(gtxt))
    ctx.ob("C28.R2", E + ":ConstantExpressionEvaluator.eval_binop", "non-numeric operands (addresses) are a diagnostic, not TypeError", any("isinstance" in norm(g) for g in guards), construct="operand-guard")

    _literal_range(ctx)
    from .c29 import late_binding_rule
    late_binding_rule(ctx, "C28.R5", ("ppci/lang/", "ppci/common.py", "ppci/utils/"))
    from ..report import Sub
    from . import c27
    c27.run(Sub(ctx, "C27", only=["C27.R3", "C27.R5"]))   # an unconverted constant ends in struct.error when it is packed


def _literal_range(ctx):
    """R4: an integer literal is compared against the limit of a type on every path that creates the typed literal node"""
    from ..cfg import CFG
    from ..cfg import header_exprs
    S = "ppci/lang/c/semantics.py"
    ctx.rule("C28.R4", "an integer literal reaches its typed node only after its value was compared with a type limit on that path (a literal that does not fit its type is a diagnostic; unchecked it ends in struct.error when the constant is packed)", floor=2)
    fn = ctx.fn(S, "CSemantics.on_number")
    site = S + ":CSemantics.on_number"
    cfg = CFG(fn)
    from .. import sym
    env = sym.single_assign_env(fn)
    rets = [n for n in walk_no_nested(fn) if isinstance(n, ast.Return) and n.value is not None and "NumericLiteral" in norm(n.value)]
    ctx.need(rets, "on_number: construction of NumericLiteral not found")
    for i, r in enumerate(rets):
        call = [c for c in ast.walk(r.value) if isinstance(c, ast.Call) and norm(c.func).endswith("NumericLiteral")][0]
        val = norm(call.args[0]) if call.args else "value"

        def compares_limit(n, val=val):
            if not isinstance(n, (ast.If, ast.While, ast.Assert)):
                return False
            for e in header_exprs(n):
                for c in ast.walk(sym.deep_inline(e, {k: v for k, v in env.items() if k != val})):
                    if isinstance(c, ast.Compare) and any("limit_max(" in norm(x) or "limit_min(" in norm(x) for x in [c.left] + c.comparators) and any(norm(x) == val for x in [c.left] + c.comparators):
                        return True
            return False
        ctx.ob("C28.R4", site, "every path to `%s` compares `%s` with a limit_max(...)" % (" ".join(norm(r).split())[:60], val), cfg.must_pass(r, compares_limit), construct="literal-range:%d" % i, node=r)
    # the comparison that ends in the diagnostic uses the limit of the type the literal gets
    typ = None
    for r in rets:
        call = [c for c in ast.walk(r.value) if isinstance(c, ast.Call) and norm(c.func).endswith("NumericLiteral")][0]
        if len(call.args) >= 2:
            typ = norm(call.args[1])
    diag = [n for n in walk_no_nested(fn) if isinstance(n, ast.If) and _is_diag(n.body)]
    ok = any(("limit_max(%s)" % typ) in norm(sym.deep_inline(d.test, env)) for d in diag) if typ else False
    ctx.ob("C28.R4", site, "the diagnostic compares against limit_max of the literal's own type `%s`" % typ, ok, construct="limit-of-own-type", detail=str([norm(d.test) for d in diag]))
    _init_cursor(ctx)


def _init_cursor(ctx):
    """R6: brace elision - after a value the cursor leaves EVERY implicit level that has just been filled"""
    I = "ppci/lang/c/init.py"
    ctx.rule("C28.R6", "initializer cursor: advancing leaves all exhausted implicit (brace-elided) levels, not just one - otherwise the next value is stored past the last field of an inner aggregate (IndexError)", floor=2)
    ne = ctx.fn(I, "InitCursor.next_element")
    site = I + ":InitCursor.next_element"
    lv = [c for c in ast.walk(ne) if isinstance(c, ast.Call) and norm(c.func) == "self.leave_compound"]
    ctx.need(len(lv) == 1, "next_element: leave_compound call not found")
    loops = [a for a in _anc28(lv[0]) if isinstance(a, ast.While)]
    ok = bool(loops) and "at_end()" in norm(loops[0].test) and ".implicit" in norm(loops[0].test)
    ctx.ob("C28.R6", site, "leaving exhausted implicit levels is a loop (`while level.at_end() and level.implicit`), so two nested levels that end on the same value are both left", ok, construct="leave-all-levels", node=lv[0],
           detail="enclosed by %s" % (type([a for a in _anc28(lv[0]) if isinstance(a, (ast.If, ast.While))][0]).__name__ if [a for a in _anc28(lv[0]) if isinstance(a, (ast.If, ast.While))] else "nothing"))
    gn = [c for c in ast.walk(ne) if isinstance(c, ast.Call) and norm(c.func) == "self.level.go_next"]
    ok = len(gn) == 2 and gn[0].lineno < lv[0].lineno < gn[1].lineno and bool(loops) and any(x is gn[1] for x in ast.walk(loops[0]))
    ctx.ob("C28.R6", site, "the cursor advances once in the current level and once in each level it returns to", ok, construct="advance-each-level")
    _bitfield_bits(ctx)


RAISING_CONVERSIONS = ("to_bytes", "pack", "pack_into")


def _bitfield_bits(ctx):
    """R7: a constant initialiser of a bit-field is whatever integer the program wrote (the C conversion to the field
    width is a truncation, 6.3.1.3 / 6.7.2.1); the helper that spreads it over the field's bits is called with that
    integer unchecked, so it has to be total."""
    from .. import sym
    B = "ppci/utils/bitfun.py"
    CG = "ppci/lang/c/codegenerator.py"
    ctx.rule("C28.R7", "bit-field initialisers: value_to_bits(v, bits) yields bit i of v for i in range(bits) for EVERY integer v (a value wider than the field is truncated, not passed to a conversion that raises OverflowError)", floor=3)
    fn = ctx.fn(B, "value_to_bits")
    site = B + ":value_to_bits"
    v, bits = fn.args.args[0].arg, fn.args.args[1].arg
    raising = [c for c in ast.walk(fn) if isinstance(c, ast.Call) and isinstance(c.func, ast.Attribute) and c.func.attr in RAISING_CONVERSIONS]
    raises = [n for n in ast.walk(fn) if isinstance(n, (ast.Raise, ast.Assert))]
    ctx.ob("C28.R7", site, "no size-checked conversion (int.to_bytes, struct.pack) and no raise/assert on the way: any integer is accepted", not raising and not raises, construct="total", node=(raising + raises)[0] if raising or raises else None,
           detail="; ".join(norm(x)[:60] for x in raising + raises))
    tests = [n for n in ast.walk(fn) if isinstance(n, ast.BinOp) and isinstance(n.op, ast.BitAnd)]
    def bit_test(e):
        t = " ".join(norm(e).split())
        return any(t == f % dict(v=v) for f in ("1 << i & %(v)s", "%(v)s & 1 << i", "%(v)s >> i & 1", "(1 << i) & %(v)s"))
    loops = [l for l in ast.walk(fn) if isinstance(l, (ast.For, ast.comprehension)) and " ".join(norm(l.iter).split()) == "range(%s)" % bits]
    ok = len(loops) == 1 and any(bit_test(t) for t in tests) and norm(loops[0].target) == "i"
    ctx.ob("C28.R7", site, "element i of the result is bit i of v (least significant first), for i in range(bits)", ok, construct="bit-i", detail="; ".join(" ".join(norm(t).split()) for t in tests)[:100])
    gs = ctx.fn(CG, "CCodeGenerator.gen_global_initialize_struct")
    use = [c for c in ast.walk(gs) if isinstance(c, ast.Call) and norm(c.func) == "value_to_bits"]
    env = sym.single_assign_env(gs)
    ok = len(use) == 1 and len(use[0].args) == 2 and "eval_expr" in norm(sym.deep_inline(use[0].args[1], env))
    ctx.ob("C28.R7", CG + ":CCodeGenerator.gen_global_initialize_struct", "(context) the evaluated initialiser and the evaluated field width are handed to value_to_bits without a range check of their own", ok, construct="caller-unchecked", detail=norm(use[0]) if use else "")
    _pack_formats(ctx)


STRUCT_SIZE = {"b": 1, "B": 1, "h": 2, "H": 2, "i": 4, "I": 4, "q": 8, "Q": 8, "f": 4, "d": 8}


def _pack_formats(ctx):
    """R8: a global of a basic type is initialised through CContext.pack, which looks the type up in the table of
    struct formats and asserts that the format has the type's size.  A basic type with a size but without a format
    (KeyError), or with a format of another size (AssertionError), or of the wrong signedness (struct.error for half of
    the type's values) stops the compiler with an internal exception."""
    CX = "ppci/lang/c/context.py"
    ctx.rule("C28.R8", "CContext: every basic type that can be declared (has an entry in type_size_map) has a struct format in the pack table, of the same size and of the type's signedness", floor=12)
    ini = ctx.fn(CX, "CContext.__init__")
    site = CX + ":CContext.__init__"
    sizes, fmts = None, None
    for n in ast.walk(ini):
        if isinstance(n, ast.Assign) and isinstance(n.value, ast.Dict):
            t = norm(n.targets[0])
            if t == "self.type_size_map":
                sizes = {norm(k).split(".")[-1]: v for k, v in zip(n.value.keys, n.value.values)}
            elif t == "ctypes":
                fmts = {(norm(k).split(".")[-1] if not isinstance(k, ast.Constant) else k.value): v for k, v in zip(n.value.keys, n.value.values)}
    ctx.need(sizes and fmts and len(sizes) >= 12 and len(fmts) >= 10, "CContext.__init__: type_size_map / ctypes tables not found")
    ctx.saw("tables", "CContext.type_size_map, CContext.ctypes")
    for name in sorted(sizes):
        if name == "VA_LIST":
            continue
        ctx.ob("C28.R8", site, "basic type %s has a pack format (a global of that type with an initialiser reaches CContext.pack)" % name, name in fmts, construct="has-format:" + name)
        if name not in fmts:
            continue
        f = fmts[name]
        sz = sizes[name].elts[0] if isinstance(sizes[name], ast.Tuple) else None
        unsigned = name.startswith("U")
        is_float = name in ("FLOAT", "DOUBLE", "LONGDOUBLE")
        if isinstance(f, ast.Constant) and isinstance(f.value, str):
            code = f.value
            if isinstance(sz, ast.Constant):
                ctx.ob("C28.R8", site, "the format of %s has the type's size (%d)" % (name, sz.value), STRUCT_SIZE.get(code) == sz.value, construct="format-size:" + name, detail="format %r" % code)
            if not is_float:
                ctx.ob("C28.R8", site, "the format of %s is %s" % (name, "unsigned" if unsigned else "signed"), code.isupper() == unsigned, construct="format-sign:" + name, detail="format %r" % code)
        else:
            t = " ".join(norm(f).split())
            # int_map[<size var>].lower() / .upper(): the size variable must be the one of type_size_map
            if not is_float:
                want = ".upper()" if unsigned else ".lower()"
                ok = t.endswith(want) and sz is not None and ("[%s]" % norm(sz)) in t
                ctx.ob("C28.R8", site, "the format of %s is chosen by the size the type has in type_size_map and is %s" % (name, "unsigned" if unsigned else "signed"), ok, construct="format-sign:" + name, detail=t)
    _function_scoped_state(ctx)


def _function_scoped_state(ctx):
    """R9: labels have function scope (C11 6.2.1p3): two functions of one translation unit may both have `out:`.
    The code generator keeps label -> block in a dictionary on itself and is used for the whole translation unit,
    so the dictionary has to be started afresh for every function definition."""
    from ..sym import conjuncts
    CG = "ppci/lang/c/codegenerator.py"
    ctx.rule("C28.R9", "the label table of the C code generator is function scoped: gen_function_def binds a fresh, empty table unconditionally before any statement of the body is generated (a label of an earlier function would resolve to that function's closed block: AssertionError)", floor=3)
    gl = ctx.fn(CG, "CCodeGenerator.get_label_block")
    reg = [n for n in ast.walk(gl) if isinstance(n, ast.Assign) and isinstance(n.targets[0], ast.Subscript) and norm(n.targets[0].value).startswith("self.")]
    ctx.need(len(reg) == 1, "get_label_block: registry store not found")
    table = norm(reg[0].targets[0].value)
    gf = ctx.fn(CG, "CCodeGenerator.gen_function_def")
    site = CG + ":CCodeGenerator.gen_function_def"
    resets = [n for n in gf.body if isinstance(n, ast.Assign) and norm(n.targets[0]) == table and norm(n.value) in ("{}", "dict()")]
    body_calls = [c for c in ast.walk(gf) if isinstance(c, ast.Call) and norm(c.func) in ("self.gen_stmt", "self.gen_compound_statement", "self.gen_statement")]
    ctx.need(body_calls, "gen_function_def: generation of the function body not found")
    ok = len(resets) >= 1 and resets[0].lineno < min(c.lineno for c in body_calls)
    ctx.ob("C28.R9", site, "`%s = {}` is a top-level statement of gen_function_def in front of the body" % table, ok, construct="label-table-per-function", detail="%d reset(s)" % len(resets))
    other = [q for q, f in ctx.project.module(CG).defs.items() if isinstance(f, ast.FunctionDef) and q not in ("CCodeGenerator.__init__", "CCodeGenerator.gen_function_def")
             and any(isinstance(n, ast.Assign) and norm(n.targets[0]) == table for n in ast.walk(f))]
    ctx.ob("C28.R9", CG + ":CCodeGenerator", "nothing else rebinds the table in the middle of a function", not other, construct="no-other-reset", detail=str(other))
    users = [q for q, f in ctx.project.module(CG).defs.items() if isinstance(f, ast.FunctionDef) and any(isinstance(c, ast.Call) and norm(c.func) == "self.get_label_block" for c in ast.walk(f))]
    ctx.ob("C28.R9", CG + ":CCodeGenerator", "labels and gotos resolve their block through get_label_block (the one registry)", {"CCodeGenerator.gen_label", "CCodeGenerator.gen_goto"} <= set(users), construct="label-goto-use-registry", detail=str(sorted(users)))


def _anc28(n):
    out = []
    n = getattr(n, "_parent", None)
    while n is not None:
        out.append(n)
        n = getattr(n, "_parent", None)
    return out
