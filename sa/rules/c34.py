"""C34 - build runner: DFS path set pairing, post-order execution order,
no comparison sort over the partial dependency order, each target once."""
import ast

from ..core import norm, walk_no_nested, last_name, calls_in, names_in, attrs_in
from ..cfg import CFG, EXIT, node_calls

F = "ppci/build/tasks.py"


def run(ctx):
    ctx.rule("C34.R1", "loop-detection set holds exactly the current DFS path (add paired with remove on normal exit, or a fresh set passed down)", floor=2)
    ctx.rule("C34.R2", "execution order is a dependency post-order, not a comparison sort over the partial order", floor=2)
    ctx.rule("C34.R3", "loop check precedes execution; run loop iterates the ordered list once", floor=3)

    dfs = ctx.fn(F, "Project.dfs")
    site = F + ":Project.dfs"
    cfg = CFG(dfs)
    # the set that is tested to raise the loop error
    loop_sets = set()
    for n in walk_no_nested(dfs):
        if isinstance(n, ast.If) and any(isinstance(b, ast.Raise) for b in n.body):
            for c in ast.walk(n.test):
                if isinstance(c, ast.Compare) and isinstance(c.ops[0], ast.In):
                    loop_sets.add(norm(c.comparators[0]))
    ctx.need(loop_sets, "C34: loop test `x in <set>: raise` not found in Project.dfs")
    for s in sorted(loop_sets):
        adds = [c for c in calls_in(dfs, "add") if norm(c.func.value) == s]
        rec = [c for c in calls_in(dfs, "dfs")]
        fresh = all(len(c.args) >= 2 and not isinstance(c.args[1], ast.Name) for c in rec) and bool(rec)
        if not adds and fresh:
            ctx.ob("C34.R1", site, "a fresh path set is passed to each recursive call", True, construct="fresh-set")
            continue
        for a in adds:
            st = cfg.stmt_of(a)
            arg = norm(a.args[0]) if a.args else "?"
            def is_remove(n, s=s, arg=arg):
                return any(last_name(c) in ("remove", "discard") and norm(c.func.value) == s and c.args and norm(c.args[0]) == arg for c in node_calls(n))
            ok = fresh or cfg.must_follow(st, is_remove, EXIT)
            ctx.ob("C34.R1", site, "`%s.add(%s)` is undone on every normal exit (otherwise a node reached twice through a diamond is reported as a loop)" % (s, arg),
                   ok, construct="add-remove-pairing", node=a)
    # the on-path test is reached for EVERY dependency edge: nothing (an "already visited" shortcut) skips an edge before it
    loops_ = [l for l in walk_no_nested(dfs) if isinstance(l, ast.For) and "dependencies" in norm(l.iter)]
    ok = False
    if len(loops_) == 1:
        raising = [n for n in loops_[0].body if isinstance(n, ast.If) and any(isinstance(b, ast.Raise) for b in n.body)]
        if raising:
            before = loops_[0].body[: loops_[0].body.index(raising[0])]
            ok = not any(isinstance(x, (ast.Continue, ast.Break, ast.Return)) for st in before for x in ast.walk(st))
    ctx.ob("C34.R1", site, "every dependency edge is tested against the current path before anything may skip it (a `visited` shortcut placed first hides a cycle that does not pass through the requested target)", ok,
           construct="on-path-test-first", node=loops_[0] if loops_ else dfs)
    # check_target starts from an empty set
    ct = ctx.fn(F, "Project.check_target")
    ok = any(isinstance(n, ast.Call) and norm(n) == "set()" for n in walk_no_nested(ct)) and bool(list(calls_in(ct, "dfs")))
    ctx.ob("C34.R1", F + ":Project.check_target", "loop detection starts from an empty path set", ok, construct="empty-start")

    # the loop check looks at the graph as it is NOW: dependencies can be added to a registered target at any time
    # (Target.add_dependency), so a verdict remembered on the project from an earlier check may be stale
    early = [r for r in walk_no_nested(ct) if isinstance(r, ast.Return) and any(isinstance(a, ast.If) for a in _anc34(r))]
    memo = [a for a in ast.walk(ct) if isinstance(a, ast.Attribute) and isinstance(a.value, ast.Name) and a.value.id == "self" and a.attr not in ("dfs", "get_target", "targets", "dependencies", "logger")]
    ctx.ob("C34.R1", F + ":Project.check_target", "every call walks the dependency graph again: no early return on a remembered verdict, no per-project memo of checked targets (Target.add_dependency changes the graph without telling the project)",
           not early and not memo, construct="no-memo", node=(early or memo or [None])[0], detail="; ".join(sorted({"self." + a.attr for a in memo})))
    ad = ctx.fn(F, "Target.add_dependency")
    from ..sym import conjuncts
    adds = [c for c in ast.walk(ad) if isinstance(c, ast.Call) and norm(c.func) == "self.dependencies.add"]
    uncond = len(adds) == 1 and not list(conjuncts(adds[0], ad, {})) and not any(isinstance(x, (ast.Return, ast.Raise)) and x is not ad.body[-1] for x in ast.walk(ad) if isinstance(x, ast.Return))
    ctx.ob("C34.R1", F + ":Target.add_dependency", "every declared dependency becomes an edge of the graph, a dependency of a target on itself included (it is the shortest loop and must be reported, not dropped)", uncond and norm(adds[0].args[0]) == ad.args.args[1].arg, construct="edge-always-added",
           detail="; ".join("%s%s" % ("" if p_ else "not ", " ".join(norm(c).split())) for c, p_ in (conjuncts(adds[0], ad, {}) if adds else [])))
    ctx.ob("C34.R1", F + ":Target.add_dependency", "(context) a dependency is added by mutating the target's own set, without notifying the project", any(isinstance(c, ast.Call) and norm(c.func) == "self.dependencies.add" for c in ast.walk(ad)) and "self.project" not in norm(ad), construct="graph-mutable-after-check")

    run_fn = ctx.fn(F, "TaskRunner.run")
    site = F + ":TaskRunner.run"
    # R2: no comparison sort without key
    sorts = []
    for n in ast.walk(run_fn):
        if isinstance(n, ast.Call) and (last_name(n) == "sort" or norm(n.func) == "sorted"):
            if not any(k.arg == "key" for k in n.keywords):
                # sorting plain names (strings) is fine; sorting Target objects is not
                arg = n.args[0] if n.args else n.func.value if isinstance(n.func, ast.Attribute) else None
                sorts.append((n, arg))
    bad = []
    for n, arg in sorts:
        txt = norm(arg) if arg is not None else ""
        if "dependencies" in txt or "name" in txt.split(".")[-1:]:
            continue  # sorting dependency *names*
        bad.append(n)
    ctx.ob("C34.R2", site, "the target list is not ordered by a key-less comparison sort (Target.__gt__ is a partial order; sort() needs a total one)",
           not bad, construct="comparison-sort", node=bad[0] if bad else run_fn, detail=", ".join(norm(b) for b in bad))
    # post-order: a (nested or method) function that recurses over dependencies and appends afterwards
    cands = [n for n in ast.walk(run_fn) if isinstance(n, ast.FunctionDef) and n is not run_fn]
    proj_cls = ctx.cls(F, "Project")
    post = None
    for fn in cands + [m for m in proj_cls.body if isinstance(m, ast.FunctionDef)] + [m for m in ctx.cls(F, "TaskRunner").body if isinstance(m, ast.FunctionDef) and m is not run_fn]:
        rec = [c for c in calls_in(fn) if last_name(c) == fn.name]
        apps = [c for c in calls_in(fn, "append")]
        loops = [l for l in walk_no_nested(fn) if isinstance(l, ast.For) and "dependencies" in attrs_in(l.iter)]
        if rec and apps and loops:
            post = (fn, rec, apps, loops)
            break
    if post is None:
        ctx.undecided("C34.R2", site, "no recursive post-order visit found (ordering implemented differently)")
    else:
        fn, rec, apps, loops = post
        c2 = CFG(fn)
        lp = loops[0]
        ok_rec = all(any(x is lp for x in _anc(r)) for r in rec)
        app_st = c2.stmt_of(apps[0])
        ok_after = c2.must_pass(app_st, lambda n: n is lp) and not any(x is lp for x in _anc(apps[0]))
        ctx.ob("C34.R2", site, "a target is appended to the order only after the recursion over all of its dependencies", ok_rec and ok_after, construct="post-order", node=apps[0])
        # visited guard: `if x in ordered: return` dominates
        lst = norm(apps[0].func.value)
        guards = [n for n in walk_no_nested(fn) if isinstance(n, ast.If) and any(isinstance(b, ast.Return) for b in n.body)
                  and any(isinstance(c, ast.Compare) and isinstance(c.ops[0], ast.In) and norm(c.comparators[0]) in (lst, "visited", "seen", "done") for c in ast.walk(n.test))]
        ok_g = bool(guards) and c2.must_pass(app_st, lambda n: n in guards)
        ctx.ob("C34.R2", site, "a visited test guards the append, so each target appears once", ok_g, construct="visited-guard", node=apps[0])
    # R3: check_target on every requested target before anything runs
    cfg = CFG(run_fn)
    runs = [c for c in calls_in(run_fn, "run")]
    chk = [c for c in calls_in(run_fn, "check_target")]
    ok = bool(runs) and bool(chk)
    if ok:
        chk_loop = [x for x in _anc(chk[0]) if isinstance(x, ast.For)]
        ok = bool(chk_loop) and all(cfg.must_pass(cfg.stmt_of(r), lambda n: n is chk_loop[0]) for r in runs)
    ctx.ob("C34.R3", site, "every requested target is checked for loops before the first task runs", ok, construct="check-before-run")
    if chk:
        # the loop check covers what will run - the requested targets - and nothing else: a cycle among targets
        # that were not requested (and are not reachable from them) must not stop the build
        chk_loop = [x for x in _anc(chk[0]) if isinstance(x, ast.For)]
        visits = [c for c in ast.walk(run_fn) if isinstance(c, ast.Call) and isinstance(c.func, ast.Name) and any(isinstance(f, ast.FunctionDef) and f.name == c.func.id for f in ast.walk(run_fn) if f is not run_fn)
                  and not any(isinstance(a, ast.FunctionDef) and a is not run_fn for a in _anc(c))]
        vis_loop = [x for v in visits for x in _anc(v) if isinstance(x, ast.For)]
        ok = bool(chk_loop) and bool(vis_loop) and norm(chk_loop[0].iter) == norm(vis_loop[0].iter) and norm(chk[0].args[0]) == norm(chk_loop[0].target) and "project." not in norm(chk_loop[0].iter)
        ctx.ob("C34.R3", site, "the loop check starts from exactly the requested targets (the same list the execution order is computed from), not from every target of the project", ok, construct="check-requested-only",
               node=chk_loop[0] if chk_loop else chk[0], detail="checked: %s; ordered from: %s" % (norm(chk_loop[0].iter) if chk_loop else "?", norm(vis_loop[0].iter) if vis_loop else "?"))
    if runs:
        fors = [x for x in _anc(runs[0]) if isinstance(x, ast.For)]
        outer = fors[-1] if fors else None
        ok = outer is not None and isinstance(outer.iter, ast.Name) and not any(isinstance(x, ast.While) for x in _anc(runs[0]))
        ctx.ob("C34.R3", site, "tasks run in a single pass over the ordered target list", ok, construct="single-pass", node=outer or run_fn)


def _anc(n):
    out = []
    n = getattr(n, "_parent", None)
    while n is not None:
        out.append(n)
        n = getattr(n, "_parent", None)
    return out


def _anc34(n):
    out = []
    n = getattr(n, "_parent", None)
    while n is not None:
        out.append(n)
        n = getattr(n, "_parent", None)
    return out
