"""C36 - Python front-end: operator table vs Python semantics, and the
builder current-block typestate of the loop lowerings (the block named in a
phi edge / continue target is the block that emits the jump)."""
import ast

from ..core import norm, walk_no_nested, dict_items, try_const, attr_chain, calls_in, last_name

F = "ppci/lang/python/python2ir.py"
# Python operator -> IR operator with the same meaning on i64/f64.
# IR `/` and `%` truncate toward zero; Python // and % floor, Python / on
# ints yields a float: none of them may be mapped directly for int operands.
SAME = {"Add": "+", "Sub": "-", "Mult": "*", "BitAnd": "&", "BitOr": "|", "BitXor": "^", "LShift": "<<", "RShift": ">>"}
DIFFERENT = {"FloorDiv": "Python // floors, IR / truncates toward zero (and floors a float quotient in Python)",
             "Div": "Python / on ints yields a float, IR / on i64 an integer quotient",
             "Mod": "Python % takes the sign of the divisor, IR % of the dividend",
             "Pow": "IR has no power operator"}


def _top_index(fn, node):
    n = node
    while getattr(n, "_parent", None) is not fn:
        n = n._parent
    return fn.body.index(n)


def _ancestors(n, stop):
    out = []
    n = getattr(n, "_parent", None)
    while n is not None and n is not stop:
        out.append(n)
        n = getattr(n, "_parent", None)
    return out


def run(ctx):
    ctx.rule("C36.R1", "binop_map maps each Python operator to an IR operator of the same meaning", floor=5)
    ctx.rule("C36.R2", "for-loop lowering: the continue target and the phi back edge are the block that performs the increment; the entry edge is the block that jumps to the test", floor=6)
    ctx.rule("C36.R3", "while-loop lowering: continue re-evaluates the test, the body falls through to the test", floor=3)
    cls = ctx.cls(F, "PythonToIrCompiler")
    table = None
    for n in cls.body:
        if isinstance(n, ast.Assign) and norm(n.targets[0]) == "binop_map" and isinstance(n.value, ast.Dict):
            table = n.value
    ctx.need(table is not None, "PythonToIrCompiler.binop_map not found")
    ctx.saw("tables", "PythonToIrCompiler.binop_map")
    site = F + ":PythonToIrCompiler.binop_map"
    gb = ctx.fn(F, "PythonToIrCompiler.gen_binop")
    typed = any(isinstance(n, ast.If) and ("is_float" in norm(n.test) or "ir.f64" in norm(n.test) or "ir.i64" in norm(n.test)) for n in ast.walk(gb))
    for k, v in dict_items(table):
        py = (attr_chain(k) or "").split(".")[-1]
        op = try_const(v)
        if py in SAME:
            ctx.ob("C36.R1", site, "%s -> `%s`" % (py, SAME[py]), op == SAME[py], construct="map:" + py, node=v, detail="mapped to %r" % op)
        elif py in DIFFERENT:
            if typed:
                ctx.undecided("C36.R1", site, "%s: gen_binop distinguishes operand types; mapping not interpreted" % py)
            else:
                ctx.ob("C36.R1", site, "%s is not mapped directly to an IR operator (%s)" % (py, DIFFERENT[py]), False, construct="map:" + py, node=v, detail="mapped to %r for every operand type" % op)
        else:
            ctx.undecided("C36.R1", site, "operator %s has no specification entry" % norm(k))
    # augmented assignment and gen_binop read the same table
    users = [n for n in ast.walk(cls) if isinstance(n, ast.Subscript) and norm(n.value) == "self.binop_map"]
    ctx.ob("C36.R1", site, "binary and augmented operators are both translated through binop_map", len(users) >= 2, construct="table-users")

    # R2 gen_for
    gf = ctx.fn(F, "PythonToIrCompiler.gen_for")
    fs = F + ":PythonToIrCompiler.gen_for"
    enter = [c for c in calls_in(gf, "enter_loop")]
    body = [c for c in calls_in(gf, "gen_statement")]
    incs = [c for c in calls_in(gf, "set_incoming")]
    ctx.need(len(enter) == 1 and len(body) == 1 and len(incs) == 2, "gen_for shape changed (enter_loop/gen_statement/set_incoming)")
    cont, brk = norm(enter[0].args[0]), norm(enter[0].args[1])
    bi = _top_index(gf, body[0])
    back = [c for c in incs if _top_index(gf, c) > bi]
    entry = [c for c in incs if _top_index(gf, c) < bi]
    ctx.need(len(back) == 1 and len(entry) == 1, "gen_for: phi edges not found around the body")
    bblk = norm(back[0].args[0])
    setb = [c for c in calls_in(gf, "set_block") if norm(c.args[0]) == bblk and bi < _top_index(gf, c) < _top_index(gf, back[0])]
    ctx.ob("C36.R2", fs, "the back edge of the loop phi comes from the block made current after the body (`set_block(%s)`), not from a block the body may have left" % bblk,
           bool(setb), construct="back-edge-block", node=back[0])
    ctx.ob("C36.R2", fs, "`continue` jumps to the block that increments the loop variable", cont == bblk, construct="continue-target", node=enter[0], detail="continue -> %s, increment in %s" % (cont, bblk))
    # increment emitted in that block and used for the edge
    add = [c for c in calls_in(gf, "emit_add")] + [c for c in calls_in(gf, "emit_binop")]
    ok = bool(add) and bool(setb) and all(_top_index(gf, setb[0]) < _top_index(gf, a) < _top_index(gf, back[0]) for a in add)
    val = norm(back[0].args[1])
    ok = ok and any(isinstance(a._parent, ast.Assign) and norm(a._parent.targets[0]) == val for a in add)
    ctx.ob("C36.R2", fs, "the value on the back edge is the increment computed in that block", ok, construct="back-edge-value", node=back[0])
    # body falls through to the increment block; increment block jumps to the test
    jumps = [(c, _top_index(gf, c)) for c in calls_in(gf, "emit_jump")] + [(c, _top_index(gf, c)) for c in ast.walk(gf) if isinstance(c, ast.Call) and norm(c.func) == "ir.Jump"]
    si = _top_index(gf, setb[0]) if setb else 10 ** 6
    ft = [c for c, i in jumps if bi < i < si and norm(c.args[0]) == bblk]
    ctx.ob("C36.R2", fs, "the body falls through to the increment block", bool(ft), construct="body-fallthrough")
    tests = [c for c in calls_in(gf, "set_block") if _top_index(gf, c) < bi]
    tblk = norm(tests[0].args[0]) if tests else None
    bj = [c for c, i in jumps if i > _top_index(gf, back[0]) - 1 and i > si and norm(c.args[0]) == tblk]
    ctx.ob("C36.R2", fs, "the increment block jumps back to the test block", bool(bj), construct="back-jump")
    # entry edge
    eblk = norm(entry[0].args[0])
    asg = [n for n in gf.body if isinstance(n, ast.Assign) and norm(n.targets[0]) == eblk]
    ok = len(asg) == 1 and norm(asg[0].value) == "self.builder.block"
    if ok:
        ai = gf.body.index(asg[0])
        first_jump = min([i for c, i in jumps if i > ai] or [10 ** 6])
        moved = [c for c in ast.walk(gf) if isinstance(c, ast.Call) and last_name(c) in ("set_block", "gen_expr", "gen_statement", "gen_cond") and ai < _top_index(gf, c) < first_jump]
        ok = first_jump < bi and not moved
    ctx.ob("C36.R2", fs, "the entry edge of the phi is the block that was current when the jump to the test was emitted", ok, construct="entry-edge-block", node=entry[0])
    # range() operands are evaluated exactly once, in the block that enters the loop
    ranames = {norm(n.targets[0]) for n in gf.body if isinstance(n, ast.Assign) and norm(n.value) == "statement.iter.args"} | {"statement.iter.args"}
    bound = [c for c in calls_in(gf, "gen_expr") if c.args and any(norm(x) in ranames for x in ast.walk(c.args[0]))]
    ctx.need(bound, "gen_for: evaluation of the range() arguments not found")
    first_set = min([_top_index(gf, c) for c in calls_in(gf, "set_block")] or [10 ** 6])
    first_jmp = min([i for c, i in jumps] or [10 ** 6])
    in_loop = [c for c in bound if _top_index(gf, c) >= min(first_set, first_jmp) or any(isinstance(a, (ast.For, ast.While)) for a in _ancestors(c, gf))]
    ctx.ob("C36.R2", fs, "range(start, stop): both operands are evaluated once, before the jump into the test block (Python evaluates range() before the first iteration; a body that assigns a variable of the bound must not change the trip count)",
           not in_loop, construct="range-operands-once", node=in_loop[0] if in_loop else bound[0], detail="%d evaluation(s), %d inside the loop blocks" % (len(bound), len(in_loop)))
    ctx.ob("C36.R2", fs, "`break` leaves to the block made current after the loop", any(norm(c.args[0]) == brk and _top_index(gf, c) > _top_index(gf, back[0]) for c in calls_in(gf, "set_block")), construct="break-target")
    cj = [c for c in ast.walk(gf) if isinstance(c, ast.Call) and norm(c.func) == "ir.CJump"]
    ok = len(cj) == 1 and try_const(cj[0].args[1]) == "<" and norm(cj[0].args[4]) == brk
    ctx.ob("C36.R2", fs, "range(): the loop runs while i < stop and leaves to the break block", ok, construct="range-test")

    # R3 gen_while
    gw = ctx.fn(F, "PythonToIrCompiler.gen_while")
    ws = F + ":PythonToIrCompiler.gen_while"
    enter = [c for c in calls_in(gw, "enter_loop")]
    cond = [c for c in calls_in(gw, "gen_cond")]
    body = [c for c in calls_in(gw, "gen_statement")]
    ctx.need(len(enter) == 1 and len(cond) == 1 and len(body) == 1, "gen_while shape changed")
    cont, brk = norm(enter[0].args[0]), norm(enter[0].args[1])
    ci = _top_index(gw, cond[0])
    cur = [c for c in calls_in(gw, "set_block") if _top_index(gw, c) < ci]
    ctx.ob("C36.R3", ws, "`continue` jumps to the block in which the condition is evaluated", bool(cur) and norm(cur[-1].args[0]) == cont, construct="continue-target")
    bi = _top_index(gw, body[0])
    ft = [c for c in calls_in(gw, "emit_jump") if _top_index(gw, c) > bi and norm(c.args[0]) == cont]
    ctx.ob("C36.R3", ws, "the body falls through to the test", bool(ft), construct="body-fallthrough")
    ctx.ob("C36.R3", ws, "the condition leaves to the break block, which becomes current after the loop", norm(cond[0].args[2]) == brk and any(norm(c.args[0]) == brk and _top_index(gw, c) > bi for c in calls_in(gw, "set_block")), construct="break-target")
    _conditions(ctx)


def _conditions(ctx):
    """R4: comparison table and short-circuit lowering"""
    from ..tables import isinstance_branches
    ctx.rule("C36.R4", "conditions: each comparison operator maps to the IR condition of the same meaning; `and`/`or` evaluate ALL operands left to right with short-circuit targets (and: false leaves to the no-block, or: true leaves to the yes-block)", floor=12)
    gc = ctx.fn(F, "PythonToIrCompiler.gen_compare")
    site = F + ":PythonToIrCompiler.gen_compare"
    tbl = [n.value for n in walk_no_nested(gc) if isinstance(n, ast.Assign) and isinstance(n.value, ast.Dict)]
    ctx.need(tbl, "gen_compare: operator table not found")
    want = {"Gt": ">", "GtE": ">=", "Lt": "<", "LtE": "<=", "Eq": "==", "NotEq": "!="}
    got = {(attr_chain(k) or "").split(".")[-1]: try_const(v) for k, v in dict_items(tbl[0])}
    for k, v in want.items():
        ctx.ob("C36.R4", site, "ast.%s -> `%s`" % (k, v), got.get(k) == v, construct="cmp:" + k, detail=str(got.get(k)))
    cj = [c for c in ast.walk(gc) if isinstance(c, ast.Call) and norm(c.func) == "ir.CJump"]
    lr = [n for n in walk_no_nested(gc) if isinstance(n, ast.Assign) and isinstance(n.value, ast.Call) and last_name(n.value) == "gen_expr"]
    ok = len(cj) == 1 and len(lr) == 2 and norm(lr[0].value.args[0]) == "condition.left" and norm(lr[1].value.args[0]) == "condition.comparators[0]" and \
        [norm(a) for a in cj[0].args] == [norm(lr[0].targets[0]), "op", norm(lr[1].targets[0]), "yes_block", "no_block"]
    ctx.ob("C36.R4", site, "the jump compares left with right (in that order) and goes to the yes-block when the comparison holds", ok, construct="cjump-order", detail=norm(cj[0]) if cj else "")
    gb = ctx.fn(F, "PythonToIrCompiler.gen_bool_op")
    site = F + ":PythonToIrCompiler.gen_bool_op"
    env = {n.targets[0].id: n.value for n in gb.body if isinstance(n, ast.Assign) and isinstance(n.targets[0], ast.Name)}
    br = isinstance_branches(gb, "condition.op")
    for opn, early_pos in (("And", 2), ("Or", 1)):
        key = [k for k in br if k.split(".")[-1] == opn]
        if not key:
            ctx.ob("C36.R4", site, "`%s` is lowered" % opn.lower(), False, construct="boolop:" + opn)
            continue
        body = br[key[0]][1]
        loops = [l for s in body for l in ast.walk(s) if isinstance(l, ast.For)]
        tail = [c for s in body for c in ast.walk(s) if isinstance(c, ast.Call) and last_name(c) == "gen_cond" and not any(isinstance(a, ast.For) for a in _ancestors(c, gb))]
        ok_all = False
        if len(loops) == 1 and len(tail) == 1:
            it = loops[0].iter
            it = env.get(it.id, it) if isinstance(it, ast.Name) else it
            lastv = tail[0].args[0]
            lastv = env.get(lastv.id, lastv) if isinstance(lastv, ast.Name) else lastv
            ok_all = norm(it) == "condition.values[:-1]" and norm(lastv) == "condition.values[-1]"
        ctx.ob("C36.R4", site, "`%s`: every operand is compiled - all but the last in the loop, the last one after it" % opn.lower(), ok_all, construct="all-operands:" + opn,
               detail="loop over %s" % (norm(env.get(loops[0].iter.id, loops[0].iter)) if loops and isinstance(loops[0].iter, ast.Name) else (norm(loops[0].iter) if loops else "?")))
        if len(loops) == 1:
            inner = [c for c in ast.walk(loops[0]) if isinstance(c, ast.Call) and last_name(c) == "gen_cond"]
            nb = [n for n in ast.walk(loops[0]) if isinstance(n, ast.Assign) and isinstance(n.value, ast.Call) and last_name(n.value) == "new_block"]
            sb = [c for c in ast.walk(loops[0]) if isinstance(c, ast.Call) and last_name(c) == "set_block"]
            ok = len(inner) == 1 and len(nb) == 1 and len(sb) == 1 and len(inner[0].args) == 3
            if ok:
                fresh = norm(nb[0].targets[0])
                args = [norm(a) for a in inner[0].args]
                exit_blk = "no_block" if opn == "And" else "yes_block"
                ok = args[0] == norm(loops[0].target) and args[early_pos] == exit_blk and args[3 - early_pos] == fresh and norm(sb[0].args[0]) == fresh and inner[0].lineno < sb[0].lineno
            ctx.ob("C36.R4", site, "`%s`: an operand that decides the result leaves to the %s; otherwise evaluation continues in a fresh block made current" % (opn.lower(), "no-block" if opn == "And" else "yes-block"), ok, construct="short-circuit:" + opn)
        if len(tail) == 1:
            ctx.ob("C36.R4", site, "`%s`: the last operand decides between the yes- and the no-block" % opn.lower(), [norm(a) for a in tail[0].args[1:]] == ["yes_block", "no_block"], construct="last-operand:" + opn)
    _assign(ctx)


def _assign(ctx):
    """R5: a, b = b, a - every right-hand side is evaluated before any target is stored"""
    ctx.rule("C36.R5", "tuple assignment: ALL right-hand values are computed before the first target is stored (Python evaluates the right-hand tuple first: `a, b = b, a + b`)", floor=2)
    ga = ctx.fn(F, "PythonToIrCompiler.gen_assign")
    site = F + ":PythonToIrCompiler.gen_assign"
    tb = [n for n in ast.walk(ga) if isinstance(n, ast.If) and "ast.Tuple" in norm(n.test) and "target" in norm(n.test)]
    ctx.need(len(tb) == 1, "gen_assign: tuple-target branch not found")
    body = tb[0].body
    stores = [c for s in body for c in ast.walk(s) if isinstance(c, ast.Call) and last_name(c) == "store_value"]
    evals = [c for s in body for c in ast.walk(s) if isinstance(c, ast.Call) and last_name(c) == "gen_expr"]
    ctx.need(stores and evals, "gen_assign: tuple branch without gen_expr/store_value")
    # no gen_expr may be (lexically) inside the loop that stores, nor after a store
    store_loops = [a for st in stores for a in _ancestors(st, ga) if isinstance(a, ast.For)]
    inside = [e for e in evals if any(any(x is e for x in ast.walk(l)) for l in store_loops)]
    late = [e for e in evals if e.lineno > min(st.lineno for st in stores)]
    ctx.ob("C36.R5", site, "no right-hand element is evaluated inside the loop that stores the targets, or after a store", not inside and not late, construct="evaluate-all-first", node=(inside + late)[0] if (inside + late) else stores[0])
    allv = [e for e in evals if any(isinstance(a, (ast.ListComp, ast.For, ast.GeneratorExp)) for a in _ancestors(e, ga))]
    ctx.ob("C36.R5", site, "every element of the right-hand tuple is evaluated (comprehension / loop over the values)", bool(allv), construct="evaluate-every-element")
    _fresh_reads(ctx)
    _loop_targets(ctx)
    _entry_allocation(ctx)


def _fresh_reads(ctx):
    """R6: a Python local lives in a stack slot; statements store to the slot (assignment, augmented assignment, the
    loop variable).  A read therefore loads the slot each time it is evaluated: a loaded value kept for later reads is
    stale as soon as any store to the same name lies in between."""
    from ..sym import conjuncts
    ctx.rule("C36.R6", "every evaluation of a variable name emits its own load of the variable's slot: no loaded value is remembered across statements (an augmented assignment or loop increment in between would be missed)", floor=3)
    gn = ctx.fn(F, "PythonToIrCompiler.gen_name") if ctx.project.modules[F].defs.get("PythonToIrCompiler.gen_name") else None
    ctx.need(gn is not None, "gen_name not found")
    site = F + ":PythonToIrCompiler.gen_name"
    loads = [c for c in ast.walk(gn) if isinstance(c, ast.Call) and norm(c.func).endswith(".emit_load")]
    ok = len(loads) == 1
    if ok:
        conds = [(" ".join(norm(c).split()), pol) for c, pol in conjuncts(loads[0], gn, {})]
        ok = conds == [("var.lvalue", True)]
        st = loads[0]._parent
        ok = ok and isinstance(st, ast.Assign) and isinstance(st.targets[0], ast.Name)
        rets = [norm(r.value) for r in ast.walk(gn) if isinstance(r, ast.Return)]
        ok = ok and rets == [norm(st.targets[0])] if isinstance(st, ast.Assign) else False
    ctx.ob("C36.R6", site, "reading an lvalue variable always emits a load (the only condition is that it is an lvalue) and returns that fresh value", ok, construct="load-per-read",
           detail="; ".join("%s%s" % ("" if p else "not ", c) for c, p in (conjuncts(loads[0], gn, {}) and [(" ".join(norm(c).split()), p) for c, p in conjuncts(loads[0], gn, {})] or [])) if loads else "no load")
    mod = ctx.project.module(F)
    kept = []
    for n in ast.walk(mod.tree):
        if isinstance(n, ast.Assign) and any(isinstance(c, ast.Call) and norm(c.func).endswith(".emit_load") for c in ast.walk(n.value)):
            for t in n.targets:
                root = t
                while isinstance(root, (ast.Subscript, ast.Attribute)):
                    root = root.value
                if isinstance(t, (ast.Subscript, ast.Attribute)) and isinstance(root, ast.Name) and root.id == "self":
                    kept.append(n)
    ctx.ob("C36.R6", F, "no loaded value is stored on the compiler object (a per-block or per-function cache of loads)", not kept, construct="no-load-cache", node=kept[0] if kept else None, detail="; ".join(" ".join(norm(k).split())[:70] for k in kept))
    ga = ctx.fn(F, "PythonToIrCompiler.gen_aug_assign")
    ld = [c for c in ast.walk(ga) if isinstance(c, ast.Call) and norm(c.func).endswith(".emit_load")]
    stv = [c for c in ast.walk(ga) if isinstance(c, ast.Call) and norm(c.func) == "ir.Store"]
    ok = len(ld) == 1 and len(stv) == 1 and norm(ld[0].args[0]) == norm(stv[0].args[1])
    ctx.ob("C36.R6", F + ":PythonToIrCompiler.gen_aug_assign", "`x op= e` loads x from its slot and stores the result to the same slot", ok, construct="augassign-slot")


def _loop_targets(ctx):
    """R7: break and continue belong to the INNERMOST enclosing loop: loops push their (continue, break) blocks on
    entry and pop them on exit; the jump targets are read from the top of that stack."""
    ctx.rule("C36.R7", "break / continue jump to the blocks of the innermost enclosing loop: enter_loop appends (continue, break), leave_loop pops, gen_break / gen_continue read the LAST entry (break: its break block, continue: its continue block)", floor=5)
    el = ctx.fn(F, "PythonToIrCompiler.enter_loop")
    params = [a.arg for a in el.args.args][1:]
    ap = [c for c in ast.walk(el) if isinstance(c, ast.Call) and norm(c.func) == "self.block_stack.append"]
    ok = len(ap) == 1 and isinstance(ap[0].args[0], ast.Tuple) and [norm(e) for e in ap[0].args[0].elts] == params and len(params) == 2
    ctx.ob("C36.R7", F + ":PythonToIrCompiler.enter_loop", "a loop pushes (continue block, break block) on top of the stack", ok, construct="push", detail=norm(ap[0]) if ap else "")
    order = params if ok else ["continue_block", "break_block"]
    ll = ctx.fn(F, "PythonToIrCompiler.leave_loop")
    pops = [c for c in ast.walk(ll) if isinstance(c, ast.Call) and norm(c.func) == "self.block_stack.pop"]
    ctx.ob("C36.R7", F + ":PythonToIrCompiler.leave_loop", "and pops the top entry when it is left", len(pops) == 1 and (not pops[0].args or norm(pops[0].args[0]) == "-1"), construct="pop-top")
    from .. import sym
    for meth, which in (("gen_break", 1), ("gen_continue", 0)):
        f = ctx.fn(F, "PythonToIrCompiler." + meth)
        env = sym.single_assign_env(f)
        j = [c for c in ast.walk(f) if isinstance(c, ast.Call) and norm(c.func) == "self.builder.emit_jump"]
        tgt = " ".join(norm(sym.deep_inline(j[0].args[0], env)).split()) if len(j) == 1 else ""
        # helper that returns the enclosing loop: inline one level of self.<helper>(..)
        ok = tgt == "self.block_stack[-1][%d]" % which
        ctx.ob("C36.R7", "%s:PythonToIrCompiler.%s" % (F, meth), "%s jumps to element %d (%s) of the LAST stack entry" % (meth[4:], which, order[which]), ok, construct="innermost:" + meth, detail=tgt)
    for meth in ("gen_for", "gen_while"):
        f = ctx.fn(F, "PythonToIrCompiler." + meth)
        en = [c for c in ast.walk(f) if isinstance(c, ast.Call) and norm(c.func) == "self.enter_loop"]
        lv = [c for c in ast.walk(f) if isinstance(c, ast.Call) and norm(c.func) == "self.leave_loop"]
        body = [c for c in ast.walk(f) if isinstance(c, ast.Call) and norm(c.func) == "self.gen_statement"]
        ok = len(en) == 1 and len(lv) == 1 and body and en[0].lineno < min(b.lineno for b in body) and lv[0].lineno > min(b.lineno for b in body)
        ctx.ob("C36.R7", "%s:PythonToIrCompiler.%s" % (F, meth), "the loop body is generated between enter_loop and leave_loop", bool(ok), construct="bracket:" + meth)


def _entry_allocation(ctx):
    """R8: a Python local exists from its first assignment, wherever that is executed - often inside one branch of an
    if or inside a loop body, with later assignments and reads elsewhere.  Its stack slot (Alloc + AddressOf) therefore
    has to be created in the ENTRY block, which dominates every use; created where the first assignment happens to be
    compiled, the address does not dominate the other uses (verifier assertion) and a slot in a loop body is allocated
    once per iteration while the runtime frees it once."""
    ctx.rule("C36.R8", "the stack slot of a local is allocated in the function's entry block (inserted there), not emitted at the point of the first assignment", floor=2)
    fn = ctx.fn(F, "PythonToIrCompiler.get_variable")
    site = F + ":PythonToIrCompiler.get_variable"
    allocs = [n for n in ast.walk(fn) if isinstance(n, ast.Call) and norm(n.func) in ("ir.Alloc", "ir.AddressOf")]
    ctx.need(len(allocs) == 2, "get_variable: creation of the slot not found")
    emitted = [c for c in ast.walk(fn) if isinstance(c, ast.Call) and norm(c.func) in ("self.emit", "self.builder.emit") and any(x in allocs for x in ast.walk(c))]
    ctx.ob("C36.R8", site, "the Alloc / AddressOf of a new variable are not emitted into the current block", not emitted, construct="not-at-current-position", node=emitted[0] if emitted else None, detail="; ".join(norm(e)[:60] for e in emitted))
    from .. import sym
    env = sym.single_assign_env(fn)
    ins = [c for c in ast.walk(fn) if isinstance(c, ast.Call) and isinstance(c.func, ast.Attribute) and c.func.attr in ("insert_instruction", "add_instruction")]
    recv = {" ".join(norm(sym.deep_inline(c.func.value, env)).split()) for c in ins}
    ok = len(ins) == 2 and recv <= {"self.builder.function.entry"} and all(c.func.attr == "insert_instruction" for c in ins)
    ctx.ob("C36.R8", site, "both are inserted at the front of function.entry (the entry block has no terminator-order problem: insertion is at the head)", ok, construct="inserted-in-entry", detail=str(sorted(recv)))
