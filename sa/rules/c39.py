"""C39 - bit-manipulation helpers: loop trip counts, rotation shift-amount
complementarity, mask/sign-bit constant relationships."""
import ast

from ..core import norm, walk_no_nested, call_name, params_of, calls_in, attr_chain
from .. import sym

F = "ppci/utils/bitfun.py"


def _returns(fn):
    return [n for n in walk_no_nested(fn) if isinstance(n, ast.Return) and n.value is not None]


def _shifts(e, env):
    """(direction, value expr, amount Aff, masked?) for each shift in e"""
    out = []
    for n in ast.walk(e):
        if isinstance(n, ast.BinOp) and isinstance(n.op, (ast.LShift, ast.RShift)):
            amt = sym.affine(n.right, env)
            out.append(("L" if isinstance(n.op, ast.LShift) else "R", n.left, amt, n))
    return out


def _masked_by(node, env):
    """width Aff of the mask that node is &-ed with (via parent BinOp &), else None"""
    p = getattr(node, "_parent", None)
    while isinstance(p, ast.BinOp) and not isinstance(p.op, ast.BitAnd) and isinstance(p.op, (ast.LShift, ast.RShift)) and p.left is node:
        node, p = p, getattr(p, "_parent", None)
    if isinstance(p, ast.BinOp) and isinstance(p.op, ast.BitAnd):
        other = p.right if p.left is node else p.left
        return sym.mask_width(other, env)
    return None


def rotation(ctx, rid, qual, direction, width_atom):
    """ return value = (v SH1 a) | (v SH2 b) with a + b == width; the part
    shifted left is masked to width bits; the function's own direction is the
    shift applied with the (reduced) count."""
    fn = ctx.fn(F, qual)
    site = "%s:%s" % (F, qual)
    env = sym.single_assign_env(fn)
    rets = _returns(fn)
    if len(rets) != 1:
        ctx.undecided(rid, site, "expected a single return expression")
        return
    e = rets[0].value
    width = sym.atom(width_atom) if isinstance(width_atom, str) else sym.const(width_atom)
    sh = [s for s in _shifts(e, env)]
    # inline locals used in the return (e.g. mask_bits = v & mask)
    inl = []
    for n in ast.walk(e):
        if isinstance(n, ast.Name) and n.id in env:
            inl += _shifts(env[n.id], env)
    L = [s for s in sh if s[0] == "L"]
    R = [s for s in sh if s[0] == "R"]
    if len(L) != 1 or len(R) != 1 or L[0][2] is None or R[0][2] is None:
        ctx.undecided(rid, site, "return is not an OR of one left and one right shift: %s" % norm(e))
        return
    total = L[0][2] + R[0][2]
    ctx.ob(rid, site, "rotation: the two shift amounts sum to the width (%r)" % width, total == width,
           construct="shift-sum", node=rets[0], detail="%s + %s = %r in `%s`" % (L[0][2], R[0][2], total, norm(e)))
    # direction: which shift carries the bare count
    cnt_name = params_of(fn)[1]
    lone = lambda a: len(a.terms) == 1 and a.const == 0 and list(a.terms.values()) == [1]
    bare = "L" if lone(L[0][2]) else "R" if lone(R[0][2]) else None
    ctx.ob(rid, site, "rotation direction: the %s shift is by the count itself, the other by width-count" % ("left" if direction == "L" else "right"),
           bare == direction, construct="direction", node=rets[0], detail=norm(e))
    # left shifted part must be masked (either the shifted value was masked before with a mask of `amount of the right shift` bits, or the result is masked to width)
    lnode = L[0][3]
    mw = _masked_by(lnode, env)
    ok = mw is not None and mw == width
    if not ok:
        # alternative idiom (rotate_right): the value shifted left is `v & ((1<<n)-1)` where n = right shift amount
        val = sym.inline(lnode.left, env)
        if isinstance(val, ast.BinOp) and isinstance(val.op, ast.BitAnd):
            for side in (val.left, val.right):
                w = sym.mask_width(side, env)
                if w is not None and w == R[0][2]:
                    ok = True
    ctx.ob(rid, site, "rotation: the left-shifted part cannot exceed the width (masked to width, or pre-masked to the bits that wrap)", ok,
           construct="left-part-masked", node=rets[0], detail=norm(e))
    # count reduced modulo width when a width parameter exists
    if isinstance(width_atom, str):
        reduced = False
        for n in walk_no_nested(fn):
            if isinstance(n, ast.BinOp) and isinstance(n.op, ast.Mod) and norm(n.left) == cnt_name and norm(n.right) == width_atom:
                reduced = True
            if isinstance(n, ast.AugAssign) and isinstance(n.op, ast.Mod) and norm(n.target) == cnt_name and norm(n.value) == width_atom:
                reduced = True
        ctx.ob(rid, site, "rotation count is reduced modulo the width before shifting", reduced, construct="count-mod-width", node=fn)


def run(ctx):
    ctx.rule("C39.R1", "bit-per-iteration loops run exactly `bits` times", floor=3)
    ctx.rule("C39.R2", "rotation: shift amounts complementary, direction, masking, count reduction", floor=8)
    ctx.rule("C39.R3", "sign bit = 1<<(bits-1), base = 1<<bits, masks = pow2-1; signed/unsigned wrappers", floor=8)
    ctx.rule("C39.R4", "encode_imm32 constants are mutually consistent", floor=4)
    _finite_model(ctx)

    # ---- R1 trip counts -------------------------------------------------
    for qual, exact in (("reverse_bits", True), ("popcnt", True), ("clz", False), ("ctz", False), ("value_to_bits", True)):
        fn = ctx.fn(F, qual)
        site = "%s:%s" % (F, qual)
        env = sym.single_assign_env(fn)
        loops = [n for n in walk_no_nested(fn) if isinstance(n, (ast.For, ast.While))]
        if len(loops) != 1:
            ctx.undecided("C39.R1", site, "expected exactly one loop")
            continue
        tc = sym.trip_count(loops[0], fn, env)
        if tc is None:
            ctx.undecided("C39.R1", site, "loop bound not affine: %s" % norm(loops[0].test if isinstance(loops[0], ast.While) else loops[0].iter))
            continue
        ctx.ob("C39.R1", site, "loop visits each of the `bits` bit positions once (trip count%s == bits)" % ("" if exact else " bound"),
               tc == sym.atom("bits"), construct="trip-count", node=loops[0], detail="trip count = %r" % tc)
    # reverse_bits: the position written in the first iteration is bits-1 or 0, decreasing/increasing by one
    fn = ctx.fn(F, "reverse_bits")
    env = sym.single_assign_env(fn)
    site = F + ":reverse_bits"
    sh = [n for n in walk_no_nested(fn) if isinstance(n, ast.BinOp) and isinstance(n.op, ast.LShift)]
    ok = None
    for n in sh:
        if isinstance(n.right, ast.Name):
            loop = [l for l in walk_no_nested(fn) if isinstance(l, (ast.While, ast.For))][0]
            init = sym._init_before(fn, loop, n.right.id)
            if init is not None:
                a = sym.affine(init, env)
                ok = a == sym.atom("bits") - sym.const(1) or a == sym.const(0)
    if ok is None:
        ctx.undecided("C39.R1", site, "could not find the bit position variable")
    else:
        ctx.ob("C39.R1", site, "first written position is bits-1 (or 0)", ok, construct="first-position")
    # source bit consumed per iteration: v & 1 with v >>= 1
    srcs = [norm(n) for n in walk_no_nested(fn) if isinstance(n, ast.BinOp) and isinstance(n.op, ast.BitAnd)]
    steps = [norm(n) for n in walk_no_nested(fn) if isinstance(n, ast.AugAssign) and isinstance(n.op, ast.RShift)]
    ctx.ob("C39.R1", site, "one source bit (v & 1) is consumed and v shifted right by one per iteration",
           "v & 1" in srcs and "v >>= 1" in steps, construct="consume-one-bit", detail="%s %s" % (srcs, steps))

    # ---- R2 rotations ---------------------------------------------------
    rotation(ctx, "C39.R2", "rotl", "L", "bits")
    rotation(ctx, "C39.R2", "rotr", "R", "bits")
    rotation(ctx, "C39.R2", "rotate_right", "R", 32)
    fn = ctx.fn(F, "rotate_left")
    site = F + ":rotate_left"
    calls = list(calls_in(fn, "rotate_right"))
    ok = False
    if len(calls) == 1 and len(calls[0].args) == 2:
        a = sym.affine(calls[0].args[1], sym.single_assign_env(fn))
        ok = a == sym.const(32) - sym.atom("n") and norm(calls[0].args[0]) == "v"
    ctx.ob("C39.R2", site, "rotate_left(v, n) == rotate_right(v, 32 - n)", ok, construct="complement-call")

    # ---- R3 sign/base constants ----------------------------------------
    fn = ctx.fn(F, "sign_extend")
    site = F + ":sign_extend"
    env = sym.single_assign_env(fn)
    rets = _returns(fn)
    bm1 = sym.atom("bits") - sym.const(1)
    main = [r for r in rets if isinstance(r.value, ast.BinOp) and isinstance(r.value.op, ast.Sub)]
    ok_sign = ok_mask = False
    if len(main) == 1:
        l, r = main[0].value.left, main[0].value.right
        def and_parts(x):
            x = sym.inline(x, env)
            if isinstance(x, ast.BinOp) and isinstance(x.op, ast.BitAnd):
                return [x.left, x.right]
            return []
        lp, rp = and_parts(l), and_parts(r)
        ok_mask = any(sym.mask_width(p, env) == bm1 for p in lp) and any(norm(p) == "value" for p in lp)
        ok_sign = any(sym.pow2_exp(p, env) == bm1 for p in rp) and any(norm(p) == "value" for p in rp)
    ctx.ob("C39.R3", site, "low part mask is (1 << (bits-1)) - 1", ok_mask, construct="mask")
    ctx.ob("C39.R3", site, "subtracted sign weight is 1 << (bits-1)", ok_sign, construct="sign-bit")
    # any other return is a shortcut: it may only pass the value through where that equals the formula, i.e. for 0 <= value < 2^(bits-1)
    for r in [x for x in rets if x not in main]:
        cj = [(e, pol) for e, pol in sym.conjuncts(r, fn, {})]
        texts = [" ".join(norm(e).split()) for e, pol in cj if pol]
        lower = any(t in ("value >= 0", "0 <= value", "value > -1") or t.startswith("0 <= value <") for t in texts)
        upper = False
        for e, pol in cj:
            if pol and isinstance(e, ast.Compare):
                ops = [e.left] + list(e.comparators)
                for i, op in enumerate(e.ops):
                    if isinstance(op, ast.Lt) and norm(ops[i]) == "value" and sym.pow2_exp(ops[i + 1], env) == bm1:
                        upper = True
        ctx.ob("C39.R3", site, "a shortcut `return value` is taken only for 0 <= value < 2^(bits-1) (a negative Python int below the field minimum must still be reduced to its low `bits` bits)",
               norm(r.value) == "value" and lower and upper, construct="shortcut-return", node=r, detail="; ".join(texts))

    from ..shapes import check_wrap_function
    check_wrap_function(ctx, "C39.R3", ctx.fn(F, "correct"), F + ":correct")
    for qual, flag in (("to_signed", True), ("to_unsigned", False)):
        fn = ctx.fn(F, qual)
        cs = list(calls_in(fn, "correct"))
        ok = len(cs) == 1 and len(cs[0].args) == 3 and [norm(a) for a in cs[0].args] == ["value", "bits", str(flag)]
        ctx.ob("C39.R3", "%s:%s" % (F, qual), "%s(value, bits) == correct(value, bits, %s)" % (qual, flag), ok, construct="wrapper")
    fn = ctx.fn(F, "clz")
    env = sym.single_assign_env(fn)
    ctx.ob("C39.R3", F + ":clz", "probe mask is 1 << (bits-1)", "mask" in env and sym.pow2_exp(env["mask"], env) == sym.atom("bits") - sym.const(1), construct="mask")

    # ---- R4 encode_imm32 -----------------------------------------------
    fn = ctx.fn(F, "encode_imm32")
    site = F + ":encode_imm32"
    env = sym.single_assign_env(fn)
    loops = [n for n in walk_no_nested(fn) if isinstance(n, ast.For)]
    tc = sym.trip_count(loops[0], fn, env) if loops else None
    rl = list(calls_in(fn, "rotate_left"))
    step = None
    if rl and len(rl[0].args) == 2 and loops and isinstance(loops[0].target, ast.Name):
        a = sym.affine(rl[0].args[1], {})
        if a is not None and list(a.terms) == [loops[0].target.id] and a.const == 0:
            step = a.terms[loops[0].target.id]
    if tc is None or step is None or not tc.is_const():
        ctx.undecided("C39.R4", site, "rotation loop not recognised")
    else:
        ctx.ob("C39.R4", site, "rotations tried x step covers 32 bits exactly (16 x 2)", tc.const * step == 32 and step == 2, construct="rot-cover", detail="%d x %d" % (tc.const, step))
    test_ok = False
    for n in walk_no_nested(fn):
        if isinstance(n, ast.Compare) and isinstance(n.left, ast.BinOp) and isinstance(n.left.op, ast.BitAnd):
            c = [x for x in (n.left.left, n.left.right) if isinstance(x, ast.Constant)]
            if c and isinstance(n.ops[0], ast.Eq) and norm(n.comparators[0]) == "0":
                test_ok = c[0].value == 0xFFFFFF00
    ctx.ob("C39.R4", site, "representable iff rotated value has no bit outside the low 8 (mask 0xFFFFFF00)", test_ok, construct="fit-mask")
    # result packing
    pack_ok = val_ok = False
    for n in walk_no_nested(fn):
        if isinstance(n, ast.BinOp) and isinstance(n.op, ast.BitOr):
            for a, b in ((n.left, n.right), (n.right, n.left)):
                a2 = sym.inline(a, {})
                if isinstance(a2, ast.BinOp) and isinstance(a2.op, ast.LShift) and norm(a2.right) == "8":
                    pack_ok = True
        if isinstance(n, ast.BinOp) and isinstance(n.op, ast.BitAnd) and isinstance(n.right, ast.Constant) and n.right.value == 0xFF:
            val_ok = True
    ctx.ob("C39.R4", site, "result = rotation << 8 | value", pack_ok, construct="pack")
    ctx.ob("C39.R4", site, "value part is the low 8 bits (& 0xFF)", val_ok, construct="low8")
    rot_is_i = False
    if loops and isinstance(loops[0].target, ast.Name):
        v = env.get("rotation")
        rot_is_i = v is not None and norm(v) == loops[0].target.id
    ctx.ob("C39.R4", site, "rotation field is the loop index that produced the fit", rot_is_i, construct="rotation-index")
    # rejection only after the exhaustive search
    from ..cfg import CFG
    cfg39 = CFG(fn)
    raises = [n for n in walk_no_nested(fn) if isinstance(n, ast.Raise)]
    ok = bool(raises) and bool(loops)
    for r in raises:
        if any(a is loops[0] for a in _anc39(r)):
            ok = False   # gives up inside the search
        elif not cfg39.must_pass(r, lambda n: n is loops[0]):
            # a raise that does not come after the loop: only a pure domain check of the argument may do that
            conds = [" ".join(norm(e).split()) for e, pol in sym.conjuncts(r, fn, {}) if pol]
            dom = all(any(c.startswith(p) for p in ("v < 0", "v > 4294967295", "v >= 4294967296", "v >> 32", "not 0 <= v")) for c in conds) and bool(conds)
            ok = ok and dom
    early = [n for n in walk_no_nested(fn) if isinstance(n, ast.Return) and not any(a is loops[0] for a in _anc39(n))] if loops else []
    ctx.ob("C39.R4", site, "a value is rejected only after all 16 rotations failed (every rotation of an 8-bit value is representable; no shortcut rejects before the search)", ok and not early, construct="reject-after-search",
           node=raises[0] if raises else fn, detail="; ".join(" ".join(norm(x).split())[:70] for r in raises for x, _ in sym.conjuncts(r, fn, {})))


def _anc39(n):
    out = []
    n = getattr(n, "_parent", None)
    while n is not None:
        out.append(n)
        n = getattr(n, "_parent", None)
    return out


def _finite_model(ctx):
    """R5: the helpers are pure functions of small integers, parametric in the width.  Their ASTs are evaluated
    (sa/minieval) for every width 1..6 over every value of that width (and a margin of out-of-range values for the
    wrapping functions) and compared with the arithmetic definition.  This does not depend on how the helper is
    written - only on what it computes - and is exhaustive for the widths covered."""
    from .. import minieval
    ctx.rule("C39.R5", "finite model: for every width 1..6 and every operand of that width, to_signed / to_unsigned / correct wrap modulo 2^w, rotl / rotr rotate within w bits, clz / ctz / popcnt / reverse_bits count and mirror the w bits, sign_extend reinterprets bit w-1 as the sign, inrange is the signed w-bit interval", floor=10)
    mod = ctx.project.module(F)
    funcs = {q: f for q, f in mod.defs.items() if isinstance(f, ast.FunctionDef) and "." not in q}
    env = {"__funcs__": funcs}
    W = range(1, 7)

    def spec_signed(v, w):
        return ((v + (1 << (w - 1))) % (1 << w)) - (1 << (w - 1))
    specs = {
        "to_unsigned": (lambda w: [(v, w) for v in range(-(2 << w), (2 << w) + 1)], lambda v, w: v % (1 << w)),
        "to_signed": (lambda w: [(v, w) for v in range(-(2 << w), (2 << w) + 1)], spec_signed),
        "correct": (lambda w: [(v, w, s) for v in range(-(2 << w), (2 << w) + 1) for s in (True, False)], lambda v, w, s: spec_signed(v, w) if s else v % (1 << w)),
        "rotl": (lambda w: [(v, c, w) for v in range(1 << w) for c in range(0, 2 * w + 1)], lambda v, c, w: ((v << (c % w)) | (v >> (w - c % w))) & ((1 << w) - 1)),
        "rotr": (lambda w: [(v, c, w) for v in range(1 << w) for c in range(0, 2 * w + 1)], lambda v, c, w: ((v >> (c % w)) | (v << (w - c % w))) & ((1 << w) - 1)),
        "clz": (lambda w: [(v, w) for v in range(1 << w)], lambda v, w: w - v.bit_length()),
        "ctz": (lambda w: [(v, w) for v in range(1 << w)], lambda v, w: w if v == 0 else (v & -v).bit_length() - 1),
        "popcnt": (lambda w: [(v, w) for v in range(1 << w)], lambda v, w: bin(v).count("1")),
        "reverse_bits": (lambda w: [(v, w) for v in range(1 << w)], lambda v, w: int(format(v, "0%db" % w)[::-1], 2)),
        "sign_extend": (lambda w: [(v, w) for v in range(-(2 << w), (4 << w) + 1)], lambda v, w: spec_signed(v % (1 << w), w)),
        "inrange": (lambda w: [(v, w) for v in range(-(2 << w), (2 << w) + 1)], lambda v, w: -(1 << (w - 1)) <= v < (1 << (w - 1))),
    }
    for name, (dom, spec) in sorted(specs.items()):
        f = funcs.get(name)
        site = "%s:%s" % (F, name)
        if f is None:
            ctx.ob("C39.R5", site, "helper %s exists" % name, False, construct="model:" + name)
            continue
        bad, n = [], 0
        try:
            for w in W:
                for args in dom(w):
                    n += 1
                    got = minieval.call(f, list(args), env)
                    want = spec(*args)
                    if got != want or isinstance(got, bool) != isinstance(want, bool):
                        bad.append("%s%r = %r (expected %r)" % (name, tuple(args), got, want))
                        if len(bad) > 3:
                            raise StopIteration
        except StopIteration:
            pass
        except minieval.Undecidable as e:
            ctx.undecided("C39.R5", site, "%s could not be evaluated: %s" % (name, e))
            continue
        ctx.ob("C39.R5", site, "%s agrees with its arithmetic definition on all %d operand tuples of widths 1..6" % (name, n), not bad, construct="model:" + name, detail="; ".join(bad[:3]))
