"""C05 - cross-target code generation (partial): prologue/epilogue mirror,
pattern register discipline, calling-convention skeleton, caller/callee save
partition, large-immediate split."""
import ast

from ..core import (norm, walk_no_nested, calls_in, call_name, last_name, try_const, assigned_values,
                    names_in, attrs_in, compare_ops, derives, resolve_call, attr_chain)
from ..cfg import CFG
from .. import sym, flow
from . import c07
from .c40 import yield_events

QUICK = [("arm", "ppci/arch/arm/arch.py", "ArmArch"), ("riscv", "ppci/arch/riscv/arch.py", "RiscvArch"),
         ("m68k", "ppci/arch/m68k/arch.py", "M68kArch"), ("mips", "ppci/arch/mips/arch.py", "MipsArch")]
MORE = [("msp430", "ppci/arch/msp430/arch.py", "Msp430Arch"), ("or1k", "ppci/arch/or1k/arch.py", "Or1kArch"),
        ("xtensa", "ppci/arch/xtensa/arch.py", "XtensaArch"), ("microblaze", "ppci/arch/microblaze/arch.py", "MicroBlazeArch"),
        ("avr", "ppci/arch/avr/arch.py", "AvrArch")]
PATTERN_ARCHS_QUICK = ["arm", "arm:thumb", "riscv", "riscv:rvc", "m68k", "mips"]
PATTERN_ARCHS_ALL = PATTERN_ARCHS_QUICK + ["msp430", "or1k", "xtensa", "microblaze", "avr"]
# registers that are allocatable but handled outside the save lists: (arch, reg) -> reason
PARTITION_OK = {
    ("arm", "R11"): "frame pointer: pushed/popped by the prologue/epilogue itself",
    ("arm:thumb", "R7"): "thumb frame pointer: pushed/popped by the prologue/epilogue itself",
}


# targets whose determine_arg_locations only yields stack locations: name -> reason
STACK_ONLY_ARGS = {"m68k": "all arguments are StackLocations (register arguments raise NotImplementedError): nothing to mark"}


def module_tuple(project, rel, name):
    m = project.modules.get(rel)
    if m is None:
        return None
    v = m.assignments(name)
    if v and isinstance(v[0], (ast.Tuple, ast.List)):
        return [norm(e).split(".")[-1] for e in v[0].elts]
    if v and isinstance(v[0], ast.BinOp):
        out = []
        for side in (v[0].left, v[0].right):
            if isinstance(side, ast.Name):
                sub = module_tuple(project, rel, side.id)
                if sub is None:
                    return None
                out += sub
        return out
    return None


def run(ctx):
    ctx.rule("C05.R1", "prologue/epilogue mirror: every stack-pointer decrement of the prologue has an equal increment in the epilogue; both use the same callee-saved set", floor=4)
    ctx.rule("C05.R2", "pattern functions: no input register clobbered, no garbage read, no dead initialising move, returned register written", floor=300)
    ctx.rule("C05.R3", "calling-convention skeleton: argument registers marked used before the call, call declares clobbers, return register marked defined after it; entry defines argument registers; exit keeps the return register live", floor=20)
    ctx.rule("C05.R4", "save-set partition: every allocatable register is either declared clobbered by calls or saved by the callee", floor=40)
    phi_lowering(ctx, "C05.R6")
    _every_call_declares_clobbers(ctx)
    from .c29 import cast_lowering
    cast_lowering(ctx, "C05.R8")
    _shift_signedness(ctx)
    _mips_jalr_links(ctx)
    ctx.rule("C05.R5", "riscv large immediates: lui part incremented exactly when bit 11 of the value is set; addi takes the low 12 bits", floor=3)
    project = ctx.project
    dump = ctx.isa()
    ctx.need(not dump["errors"], "ISA dump reported errors: %s" % dump["errors"][:2])
    thorough = ctx.tier == "thorough"
    # ---- R2 ----
    for arch in (PATTERN_ARCHS_ALL if thorough else PATTERN_ARCHS_QUICK):
        c07.check_arch(ctx, dump, arch, "C05X", returns=True) if False else _patterns(ctx, dump, arch)
    # ---- R1 / R3 / R4 per arch ----
    for arch, rel, cname in QUICK + (MORE if thorough else []):
        cls = ctx.cls(rel, cname)
        get = lambda n: project.find_method(cls, n)
        pro, epi, gcall = get("gen_prologue"), get("gen_epilogue"), get("gen_call")
        site = "%s:%s" % (rel, cname)
        core = (arch, rel, cname) in QUICK   # R1/R4 are confirmed by hand only for the targets the property names
        # R1: sp adjustments
        if core and pro is not None and epi is not None:
            def sp_adj(fn):
                env = sym.single_assign_env(fn)
                out = []
                for n in walk_no_nested(fn):
                    if isinstance(n, ast.Expr) and isinstance(n.value, ast.Yield) and isinstance(n.value.value, ast.Call):
                        c = n.value.value
                        args = [norm(a) for a in c.args]
                        spn = [a for a in args if a.split(".")[-1].lower() in ("sp", "rsp", "r13") or a.split(".")[-1] in ("SP", "A7", "r1")]
                        imm = [a for a in c.args if not (isinstance(a, (ast.Name, ast.Attribute)) and norm(a) in spn)]
                        cn = (call_name(c) or "").split(".")[-1]
                        if len(spn) >= 1 and len(imm) == 1 and cn.lower().startswith(("addi", "add", "sub", "caddi", "subimm", "addimm", "lea", "adda")) or cn in ("CAddi16sp",):
                            e = imm[0] if imm else (c.args[0] if c.args else None)
                            if e is None:
                                continue
                            a = sym.affine(e, env)
                            if a is None:
                                continue
                            neg = cn.lower().startswith("sub")
                            out.append((a.scale(-1) if neg else a, n))
                return out
            pa, ea = sp_adj(pro), sp_adj(epi)
            if pa or ea:
                pneg = sorted(repr(a.scale(-1)) for a, _ in pa)
                epos = sorted(repr(a) for a, _ in ea)
                ctx.ob("C05.R1", site + ".gen_prologue/gen_epilogue", "stack space reserved in the prologue (%s) equals stack space released in the epilogue" % ", ".join(pneg), pneg == epos, construct="sp-mirror:" + arch, detail="released: %s" % ", ".join(epos))
            else:
                ctx.undecided("C05.R1", site, "stack pointer adjustments not recognised")
            sp_, se_ = [norm(v) for v in assigned_values(pro, "saved_registers") + assigned_values(pro, "callee_save")], [norm(v) for v in assigned_values(epi, "saved_registers") + assigned_values(epi, "callee_save")]
            if sp_ or se_:
                ctx.ob("C05.R1", site + ".gen_prologue/gen_epilogue", "prologue and epilogue compute the saved register set the same way", sp_ == se_ and bool(sp_), construct="saved-set:" + arch, detail="%s / %s" % (sp_, se_))
        # R3 skeleton
        if gcall is not None:
            gsite = site + ".gen_call"
            ev = [(n.lineno, norm(n.value.value), n) for n in walk_no_nested(gcall) if isinstance(n, ast.Expr) and isinstance(n.value, (ast.Yield, ast.YieldFrom)) and n.value.value is not None]
            ev.sort()
            def is_call_yield(txt, node):
                v = node.value.value
                if isinstance(v, ast.Call) and any(k.arg == "clobbers" for k in v.keywords):
                    return True
                if isinstance(v, ast.Call):
                    callee = resolve_call(project, gcall, v)
                    if callee is not None and any(isinstance(c, ast.Call) and any(k.arg == "clobbers" for k in c.keywords) for c in ast.walk(callee)):
                        return True
                return False
            call_idx = [i for i, (ln, t, n) in enumerate(ev) if is_call_yield(t, n)]
            uses_idx = [i for i, (ln, t, n) in enumerate(ev) if t.startswith("RegisterUseDef(uses=")]
            defs_idx = [i for i, (ln, t, n) in enumerate(ev) if t.startswith("RegisterUseDef(defs=")]
            ctx.ob("C05.R3", gsite, "the call instruction is emitted with a clobbers= declaration", bool(call_idx), construct="clobbers:" + arch)
            if call_idx:
                has_reg_args = ("arg_regs" in names_in(gcall) or bool(uses_idx)) and arch not in STACK_ONLY_ARGS
                if has_reg_args:
                    ok = bool(uses_idx) and max(uses_idx) < min(call_idx)
                    at = derives(gcall, ast.parse("arg_regs", mode="eval").body) if "arg_regs" in names_in(gcall) else set()
                    ctx.ob("C05.R3", gsite, "RegisterUseDef(uses=<argument registers>) precedes the call; the registers come from determine_arg_locations", ok and ("call:determine_arg_locations" in at or not at), construct="uses-before-call:" + arch)
                ok = bool(defs_idx) and min(defs_idx) > max(call_idx)
                ctx.ob("C05.R3", gsite, "RegisterUseDef(defs=(return register,)) follows the call", ok, construct="defs-after-call:" + arch)
                rvl = assigned_values(gcall, "retval_loc")
                ctx.ob("C05.R3", gsite, "the return register comes from determine_rv_location", bool(rvl) and "determine_rv_location" in norm(rvl[0]), construct="rv-location:" + arch)
        for meth, want, what in (("gen_function_enter", "RegisterUseDef(defs=arg_regs)", "incoming argument registers are marked defined at entry"), ("gen_function_exit", "RegisterUseDef(uses=live_out)", "the return register is kept live until the epilogue")):
            fn = get(meth)
            if fn is not None and not (meth == "gen_function_enter" and arch in STACK_ONLY_ARGS):
                ctx.ob("C05.R3", "%s.%s" % (site, meth), what, ("yield " + want) in norm(fn), construct="%s:%s" % (meth, arch))
        # R4 partition
        if core:
            _partition(ctx, project, dump, arch, rel, cls, gcall)
    # thumb variant of the arm partition
    cls = ctx.cls("ppci/arch/arm/arch.py", "ArmArch")
    _partition(ctx, project, dump, "arm:thumb", "ppci/arch/arm/arch.py", cls, project.find_method(cls, "gen_call"))
    # ---- R5 ----
    li = ctx.fn("ppci/arch/riscv/instructions.py", "Li.render")
    site = "ppci/arch/riscv/instructions.py:Li.render"
    ifs = [n for n in walk_no_nested(li) if isinstance(n, ast.If)]
    carry = [n for n in ifs if any(isinstance(b, ast.AugAssign) and try_const(b.value) == 0x1000 for b in n.body)]
    # the value being split: self.imm itself, or a local copy of it (the operand must not be changed by rendering: C10.R7)
    V = "self.imm"
    if carry:
        V = norm([b for b in carry[0].body if isinstance(b, ast.AugAssign)][0].target)
    src_ok = V == "self.imm" or any(norm(v) == "self.imm" for v in assigned_values(li, V))
    ok = bool(carry) and src_ok and norm(carry[0].test) in ("%s & 2048 != 0" % V, "%s & 2048" % V, "%s >> 11 & 1" % V, "%s & 2048 == 2048" % V)
    ctx.ob("C05.R5", site, "0x1000 is added before the lui part is taken exactly when bit 11 is set (the addi part is sign-extended)", ok, construct="carry", detail=norm(carry[0].test) if carry else "no `+= 0x1000` under a test")
    lui = [c for c in calls_in(li, "Lui")]
    addi = [c for c in calls_in(li, "Addi")]
    ok = bool(lui) and norm(lui[0].args[1]) in ("%s >> 12" % V, "%s >> 12 & 1048575" % V) and bool(carry) and carry[0].lineno < lui[0].lineno
    ctx.ob("C05.R5", site, "lui takes bits 12.. of the (carry-adjusted) value", ok, construct="lui", detail=norm(lui[0].args[1]) if lui else "")
    low = [v for v in assigned_values(li, "lower_bits")]
    big = [a for a in addi if norm(a.args[0]) == norm(a.args[1]) == "self.rd"]
    ok = bool(big) and (norm(big[0].args[2]) == "%s & 4095" % V or (norm(big[0].args[2]) == "lower_bits" and any(norm(v) == "%s & 4095" % V for v in low)))
    ctx.ob("C05.R5", site, "addi adds the low 12 bits to the same register", ok, construct="addi")
    small = [n for n in ifs if "inrange(self.imm, 12)" in norm(n.test)]
    ctx.ob("C05.R5", site, "a single addi is used only when the value fits 12 signed bits", bool(small) and any("Addi(self.rd, R0, self.imm)" in norm(b) for b in small[0].body), construct="small")


def _patterns(ctx, dump, arch):
    c07.check_arch(ctx, dump, arch, "C05.R2"[:3] + "", returns=True) if False else None
    # c07.check_arch names its rule <prefix>.R1; C05 registers the same analysis as R2
    class Proxy:
        def __init__(self, ctx):
            self.ctx = ctx
        def __getattr__(self, k):
            return getattr(self.ctx, k)
        def ob(self, rule, *a, **kw):
            return self.ctx.ob("C05.R2", *a, **kw)
        def undecided(self, rule, *a, **kw):
            return self.ctx.undecided("C05.R2", *a, **kw)
    c07.check_arch(Proxy(ctx), dump, arch, "C05", returns=True)


def _partition(ctx, project, dump, arch, rel, cls, gcall):
    a = dump["archs"].get(arch)
    if a is None or gcall is None:
        return
    site = "%s:%s[%s]" % (rel, cls.name, arch)
    regrel = rel.replace("arch.py", "registers.py")
    # clobbers
    clob = None
    for c in ast.walk(gcall):
        if isinstance(c, ast.Call):
            for k in c.keywords:
                if k.arg == "clobbers":
                    clob = k.value
    if clob is None:
        callee = None
        for c in ast.walk(gcall):
            if isinstance(c, ast.Call):
                f = resolve_call(project, gcall, c)
                if f is not None:
                    for c2 in ast.walk(f):
                        if isinstance(c2, ast.Call):
                            for k in c2.keywords:
                                if k.arg == "clobbers":
                                    clob = k.value
    def names_of(expr):
        if expr is None:
            return None
        if isinstance(expr, (ast.List, ast.Tuple)):
            return [norm(e).split(".")[-1] for e in expr.elts]
        ch = attr_chain(expr)
        if ch is None:
            return None
        last = ch.split(".")[-1]
        if ch.startswith("self."):
            # attribute assigned in __init__ (possibly under the thumb option)
            init = project.find_method(cls, "__init__")
            vals = []
            for n in walk_no_nested(init):
                if isinstance(n, ast.Assign) and norm(n.targets[0]) == ch:
                    conds = flow.controlling(n, init)
                    thumb = any("thumb" in norm(t) and pol for t, pol, _ in conds)
                    vals.append((thumb, n.value))
            if not vals:
                v = a.get(last)
                return list(v) if v is not None else None
            want_thumb = arch.endswith(":thumb")
            pick = [v for t, v in vals if t == want_thumb] or [v for t, v in vals]
            return names_of(pick[0])
        if isinstance(expr, ast.Name):
            lv = [v for v in assigned_values(gcall, expr.id)]
            if lv:
                return names_of(lv[0])
        return module_tuple(project, regrel, last)
    clobbers = names_of(clob)
    callee = a.get("callee_save")
    if callee is None:
        for nm in ("callee_save", "callee_saved"):
            if callee is None:
                callee = module_tuple(project, regrel, nm)
    # python variable names -> register display names
    rn = {}
    for mn, d in dump.get("register_names", {}).items():
        if mn.startswith("ppci.arch." + arch.split(":")[0] + "."):
            rn.update(d)
    if clobbers is not None:
        clobbers = [rn.get(x, x) for x in clobbers]
    if callee is not None:
        callee = [rn.get(x, x) for x in callee]
    if clobbers is None or callee is None:
        ctx.undecided("C05.R4", site, "save sets not resolved (clobbers=%s callee=%s)" % (norm(clob) if clob is not None else None, callee))
        return
    ints = [rc for rc in a["register_classes"] if not rc["name"].startswith(("regf", "fp", "xmm"))]
    alloc = []
    for rc in ints:
        for r in rc["registers"]:
            if r not in alloc and ":" not in r:
                alloc.append(r)
    if not clobbers and not callee:
        ctx.ob("C05.R4", site, "the target declares which registers a call destroys and which the callee preserves (both lists are empty: a value kept in any register across a call is lost)", False, construct="empty-save-sets:" + arch,
               detail="allocatable %s" % alloc)
        return
    ctx.ob("C05.R4", site, "caller-saved (call clobbers) and callee-saved sets are disjoint", not (set(clobbers) & set(callee)), construct="disjoint:" + arch, detail=str(sorted(set(clobbers) & set(callee))))
    for r in alloc:
        ok = r in clobbers or r in callee or (arch, r) in PARTITION_OK
        ctx.ob("C05.R4", site, "allocatable register %s is declared clobbered by calls or saved by the callee" % r, ok, construct="partition:%s:%s" % (arch, r), detail="clobbers %s; callee-saved %s" % (clobbers, callee))


def phi_lowering(ctx, rid):
    """Phi elimination of the target independent code generator (shared by every back-end): the copies into the
    phi registers of a successor form a PARALLEL copy, and they are emitted at the end of the predecessor."""
    from ..core import last_name
    from .. import sym
    D = "ppci/codegen/irdag.py"
    G = "ppci/codegen/codegen.py"
    ctx.rule(rid, "phi lowering: every incoming value is first copied to a fresh temporary and only then into the phi register (parallel copy); an edge whose phi is still needed on another way out of the block gets its own block before instruction selection (no lost copy)", floor=8)
    cp = ctx.fn(D, "SelectionGraphBuilder.copy_phis_of_successors")
    site = D + ":SelectionGraphBuilder.copy_phis_of_successors"
    outer = [l for l in cp.body if isinstance(l, ast.For) and norm(l.iter).endswith(".successors")]
    ctx.ob(rid, site, "two separate passes over the successors' phis: all temporaries are written before any phi register", len(outer) == 2, construct="two-phases", detail="%d loops over successors" % len(outer))
    if len(outer) == 2:
        p1, p2 = outer
        inner1 = [l for l in ast.walk(p1) if isinstance(l, ast.For) and norm(l.iter).endswith(".phis")]
        inner2 = [l for l in ast.walk(p2) if isinstance(l, ast.For) and norm(l.iter).endswith(".phis")]
        ok = bool(inner1) and not any(isinstance(x, (ast.If, ast.Continue, ast.Break)) for x in ast.walk(p1))
        ctx.ob(rid, site, "phase 1 gives EVERY phi input a temporary, unconditionally (an input may itself be a phi register that another copy of the same jump overwrites)", ok, construct="temporary-for-every-input",
               detail="; ".join(" ".join(norm(x.test).split())[:70] for x in ast.walk(p1) if isinstance(x, ast.If)))
        nv = [n for n in ast.walk(p1) if isinstance(n, ast.Assign) and isinstance(n.value, ast.Call) and last_name(n.value) == "new_vreg"]
        mv = [c for c in ast.walk(p1) if isinstance(c, ast.Call) and last_name(c) == "new_node" and c.args and try_const_(c.args[0]) == "MOV"]
        ok = len(nv) == 1 and len(mv) == 1 and any(k.arg == "value" and norm(k.value) == norm(nv[0].targets[0]) for k in mv[0].keywords) and any(isinstance(c, ast.Call) and last_name(c) == "chain" for c in ast.walk(p1))
        ctx.ob(rid, site, "the temporary is a fresh virtual register written by a chained MOV of the incoming value", ok, construct="temporary-fresh")
        gv = [n for n in ast.walk(p1) if isinstance(n, ast.Assign) and isinstance(n.value, ast.Call) and last_name(n.value) == "get_value" and "ir_block" in norm(n.value)]
        ctx.ob(rid, site, "the incoming value is the phi's value for THIS block", bool(gv) and norm(gv[0].value).endswith(".get_value(ir_block)"), construct="value-of-this-edge")
        mv2 = [c for c in ast.walk(p2) if isinstance(c, ast.Call) and last_name(c) == "new_node" and c.args and try_const_(c.args[0]) == "MOV"]
        env2 = sym.single_assign_env(cp)
        dst = [norm(k.value) for c in mv2 for k in c.keywords if k.arg == "value"]
        pm = [n for n in ast.walk(p2) if isinstance(n, ast.Assign) and "phi_map[" in norm(n.value)]
        ok = len(mv2) == 1 and bool(pm) and dst == [norm(pm[0].targets[0])] and not any(isinstance(x, (ast.Continue, ast.Break)) for x in ast.walk(p2)) and bool(inner2)
        ctx.ob(rid, site, "phase 2 moves every temporary into the register of its phi (function_info.phi_map), for every phi", ok, construct="phase2-into-phi-register")
        vm = [n for n in ast.walk(p1) if isinstance(n, ast.Assign) and isinstance(n.targets[0], ast.Subscript) and norm(n.targets[0].value) == "val_map"]
        rd = [n for n in ast.walk(p2) if isinstance(n, ast.Subscript) and isinstance(n.ctx, ast.Load) and norm(n.value) == "val_map"]
        ctx.ob(rid, site, "phase 2 reads the temporary recorded by phase 1 under the same key", len(vm) == 1 and len(rd) == 1 and norm(vm[0].targets[0].slice) == norm(rd[0].slice), construct="same-key")
    # the phi register is a transfer register only: uses of the phi VALUE read a copy taken on block entry
    dp = ctx.fn(D, "SelectionGraphBuilder.do_phi")
    site = D + ":SelectionGraphBuilder.do_phi"
    env = sym.single_assign_env(dp)
    am = [c for c in calls_in(dp, "add_map")]
    pmv = [norm(n.targets[0]) for n in ast.walk(dp) if isinstance(n, ast.Assign) and "phi_map[" in norm(n.value) and isinstance(n.targets[0], ast.Name)]
    fresh = [norm(n.targets[0]) for n in ast.walk(dp) if isinstance(n, ast.Assign) and isinstance(n.value, ast.Call) and last_name(n.value) == "new_vreg" and isinstance(n.targets[0], ast.Name)]
    vset = {}   # output variable -> list of vreg expressions assigned to <var>.vreg
    for n in ast.walk(dp):
        if isinstance(n, ast.Assign) and isinstance(n.targets[0], ast.Attribute) and n.targets[0].attr == "vreg" and isinstance(n.targets[0].value, ast.Name):
            vset.setdefault(n.targets[0].value.id, []).append(norm(n.value))
    mapped = norm(am[0].args[1]) if len(am) == 1 and len(am[0].args) == 2 else None
    ok = mapped is not None and len(pmv) == 1 and bool(vset.get(mapped)) and all(v in fresh for v in vset[mapped])
    ctx.ob(rid, site, "the value mapped for a phi lives in a fresh virtual register, not in the phi register itself (the phi copies at the end of a predecessor - which may be this very block or a block this one dominates - overwrite the phi register before the block's terminator operands and values used only in later blocks are evaluated)", ok, construct="phi-value-is-entry-copy",
           detail="add_map(..., %s); %s.vreg = %s; phi register %s; fresh %s" % (mapped, mapped, vset.get(mapped), pmv, fresh))
    mv = [c for c in ast.walk(dp) if isinstance(c, ast.Call) and last_name(c) == "new_node" and c.args and try_const_(c.args[0]) == "MOV"]
    ok = False
    if len(mv) == 1 and len(mv[0].args) >= 3 and len(pmv) == 1:
        src = norm(mv[0].args[2])
        dstv = [norm(k.value) for k in mv[0].keywords if k.arg == "value"]
        ok = vset.get(src) == [pmv[0]] and len(dstv) == 1 and dstv[0] in fresh and bool(mapped) and vset.get(mapped) == [dstv[0]] and any(True for c in calls_in(dp, "chain"))
        ok = ok and not any(isinstance(x, (ast.If, ast.IfExp, ast.Return)) for x in ast.walk(dp))
    ctx.ob(rid, site, "the entry copy is a chained MOV from the phi register into that fresh register, unconditionally", ok, construct="entry-copy-chained", detail="%d MOV node(s)" % len(mv))
    gf = ctx.fn(G, "CodeGenerator.generate_function")
    sp = [c for c in calls_in(gf, "_split_phi_edges")]
    sel = [c for c in calls_in(gf, "select_and_schedule")]
    ctx.ob(rid, G + ":CodeGenerator.generate_function", "phi edges are split before instruction selection", len(sp) == 1 and len(sel) == 1 and sp[0].lineno < sel[0].lineno and not sym.conjuncts(sp[0], gf, {}), construct="split-before-selection")
    se = ctx.fn(G, "CodeGenerator._split_phi_edges")
    site = G + ":CodeGenerator._split_phi_edges"
    txt = norm(se)
    ch = [c for c in calls_in(se, "change_target")]
    ri = [c for c in calls_in(se, "replace_incoming")]
    jm = [c for c in ast.walk(se) if isinstance(c, ast.Call) and norm(c.func) == "ir.Jump"]
    ab = [c for c in calls_in(se, "add_block")]
    ok = len(ch) == 1 and len(ri) == 1 and len(jm) == 1 and len(ab) == 1
    if ok:
        succ, edge = norm(ch[0].args[0]), norm(ch[0].args[1])
        blk = norm(ch[0].func.value)
        ok = norm(jm[0].args[0]) == succ and norm(ri[0].func.value) == succ and norm(ri[0].args[0]) == blk and norm(ri[0].args[1]) == "[%s]" % edge and norm(ab[0].args[0]) == edge
    ctx.ob(rid, site, "the edge block jumps to the successor, the predecessor is retargeted to it and the successor's phis take their value from it", ok, construct="edge-block-wiring")
    from .c02 import iterates_distinct
    sl = sorted([l for l in ast.walk(se) if isinstance(l, ast.For) and ch and any(x is ch[0] for x in ast.walk(l))], key=lambda l: l.lineno)   # innermost last
    okd, detd = iterates_distinct(se, sl[-1].iter) if sl else (False, "")
    ctx.ob(rid, site, "every DISTINCT successor is considered once (Block.successors lists S twice for `cjmp c ? S : S`; splitting that edge twice fails in replace_incoming)", okd, construct="distinct-successors", detail="iterates " + detd)
    cont = [n for n in ast.walk(se) if isinstance(n, ast.If) and any(isinstance(b, ast.Continue) for b in n.body)]
    tests = [" ".join(norm(n.test).split()) for n in cont]
    ok = any("< 2" in t or "<= 1" in t for t in tests)
    ctx.ob(rid, site, "only blocks with at least two distinct successors are considered (a single successor needs no edge block)", ok, construct="multi-successor-only", detail=str(tests))
    live = [t for t in tests if "used_by" in t]
    ok = bool(live) and "isinstance(user, ir.Phi)" in live[0] and "user.block is not" in live[0] and live[0].startswith("not any(")
    ctx.ob(rid, site, "an edge is left alone only if no phi of the successor is used by another phi or outside the successor block (then its register is dead on the other ways out)", ok, construct="skip-only-when-dead", detail=str(live))


# constructions of a call-like class that are not calls the allocator has to know about (one reason per named site)
NOT_AN_ALLOCATED_CALL = {
    ("ppci/arch/riscv/arch.py", "RiscvArch.gen_epilogue", "Blr"): "jalr x0, ra, 0 is the function return (link register x0): nothing is live after it",
    ("ppci/arch/riscv/rvc_instructions.py", "CBlr.render", "Blr"): "relaxation of the compressed form after register allocation",
    ("ppci/arch/arm/arm_instructions.py", "call_internal2", "Bl"): "call of the hand-written runtime routine __sdiv/__udiv: R1 and R2 are defined right before and R0 right after the call (so they interfere with everything live across it), the routine saves r4 and touches nothing else",
    ("ppci/arch/arm/arm_instructions.py", "pattern_inv32", "Bl"): "same shape: R1 defined before, R0 after; helper symbol is resolved at link time",
}


# call instruction classes per architecture package, discovered from the constructions that carry clobbers= and confirmed by reading
# each class definition (branch-and-link / call mnemonics).  A class that is constructed with clobbers= but is not listed fails the
# check (the table has to be extended), so a new call instruction cannot stay outside the rule.
CALL_CLASSES = {
    "ppci/arch/arm": {"Bl", "Blx"},
    "ppci/arch/avr": {"Call", "Icall"},
    "ppci/arch/m68k": {"Jalr", "Bsr"},
    "ppci/arch/microblaze": {"Brald", "Brlid_label"},
    "ppci/arch/mips": {"Jal", "Jalr"},
    "ppci/arch/msp430": {"call", "Call"},
    "ppci/arch/or1k": {"Jal", "Jalr"},
    "ppci/arch/riscv": {"Bl", "Blr", "CBl", "CBlr"},
    "ppci/arch/x86_64": {"Call", "CallReg"},
    "ppci/arch/xtensa": {"Call0", "Callx0"},
}


def _every_call_declares_clobbers(ctx):
    """R7.  The register allocator learns what a call destroys from the `clobbers=` argument of the call INSTRUCTION.
    An architecture has several call instructions (label / register target, compressed or not); each construction of
    one of them - directly or through a local alias such as `jal = CBlr if rvc else Blr` - has to declare the set,
    or values that live across that kind of call are kept in caller-saved registers."""
    ctx.rule("C05.R7", "every construction of a call instruction declares its clobbers: the call instruction classes of each architecture package (table confirmed by reading; a class first seen with clobbers= must be listed) are constructed with clobbers= everywhere in that package (local aliases and conditional class selection followed)", floor=20)
    project = ctx.project
    import os
    by_pkg = {}
    for rel, mod in project.modules.items():
        if rel.startswith("ppci/arch/") and rel.count("/") >= 3:
            by_pkg.setdefault(rel.rsplit("/", 1)[0], []).append(mod)
    n = 0
    for pkg, mods in sorted(by_pkg.items()):
        # per function: local aliases  name -> set of class names
        cons = []   # (mod, qual, call node, {class names}, has_clobbers)
        for mod in mods:
            for q, fn in mod.defs.items():
                if not isinstance(fn, ast.FunctionDef):
                    continue
                alias = {}
                for a in ast.walk(fn):
                    if isinstance(a, ast.Assign) and len(a.targets) == 1 and isinstance(a.targets[0], ast.Name):
                        v = a.value
                        opts = [v.body, v.orelse] if isinstance(v, ast.IfExp) else [v]
                        if all(isinstance(o, (ast.Name, ast.Attribute)) for o in opts):
                            alias.setdefault(a.targets[0].id, set()).update(norm(o).split(".")[-1] for o in opts)
                for c in walk_no_nested(fn):
                    if isinstance(c, ast.Call) and isinstance(c.func, (ast.Name, ast.Attribute)):
                        nm = norm(c.func).split(".")[-1]
                        names = alias.get(nm, {nm}) if isinstance(c.func, ast.Name) else {nm}
                        cons.append((mod, q, c, names, any(k.arg == "clobbers" for k in c.keywords)))
        call_like = set(CALL_CLASSES.get(pkg, ()))
        for mod, q, c, names, has in cons:
            if has:
                new = {x for x in names if x[:1].isupper()} - call_like
                if new:
                    ctx.ob("C05.R7", "%s:%s" % (mod.rel, q), "a class constructed with clobbers= is a listed call instruction of %s" % pkg, False, construct="unlisted-call-class:%s" % "/".join(sorted(new)), node=c,
                           detail="add %s to CALL_CLASSES after reading its definition" % sorted(new))
        # only instruction classes (a helper function such as call_function(context, .., clobbers=..) is not a constructor)
        for mod, q, c, names, has in cons:
            hit = names & call_like
            if not hit:
                continue
            why = [NOT_AN_ALLOCATED_CALL.get((mod.rel, q, h)) for h in sorted(hit)]
            if not has and all(why):
                ctx.saw("not-allocated-calls", "%s:%s %s - %s" % (mod.rel, q, "/".join(sorted(hit)), why[0]))
                continue
            n += 1
            ctx.ob("C05.R7", "%s:%s" % (mod.rel, q), "the call instruction %s is constructed with clobbers=" % "/".join(sorted(hit)), has, construct="call-clobbers:%s:%s" % (q, "/".join(sorted(hit))), node=c, detail=norm(c)[:80])
    ctx.need(n >= 20, "constructions of call instructions: %d found, at least 20 confirmed by reading" % n)


def _shift_signedness(ctx):
    """R9.  `>>` of a signed IR value is an arithmetic shift (the sign bit is copied in), of an unsigned value a logical one.  A pattern
    function that is registered for BOTH SHRI<n> and SHRU<n> emits the same instructions for the two unless it looks at the tree it was
    matched on, so it is wrong for one of them (-8 >> 1 gives 0x7FFFFFFC with a logical shift, 0x80000000u >> 1 gives 0xC0000000 with an
    arithmetic one)."""
    import re as _re
    ctx.rule("C05.R9", "right shifts: no pattern function serves both the signed (SHRI) and the unsigned (SHRU) tree of a width unless it dispatches on the matched tree", floor=8)
    n = 0
    for rel, m in sorted(ctx.project.modules.items()):
        if not rel.startswith("ppci/arch/"):
            continue
        for f in [f for f in ast.walk(m.tree) if isinstance(f, ast.FunctionDef)]:
            trees = [d.args[1].value for d in f.decorator_list if isinstance(d, ast.Call) and norm(d.func).endswith(".pattern") and len(d.args) >= 2 and isinstance(d.args[1], ast.Constant) and isinstance(d.args[1].value, str)]
            si = sorted(t for t in trees if _re.match(r"SHRI\d+\(", t))
            su = sorted(t for t in trees if _re.match(r"SHRU\d+\(", t))
            if not si and not su:
                continue
            n += 1
            par = [a.arg for a in f.args.args]
            looks = len(par) >= 2 and any(isinstance(x, ast.Attribute) and isinstance(x.value, ast.Name) and x.value.id == par[1] and x.attr in ("name", "value", "ty") for x in ast.walk(f))
            emits = sorted({norm(c.func).split(".")[-1] for c in ast.walk(f) if isinstance(c, ast.Call) and norm(c.func).split(".")[-1][:1].isupper()})
            ctx.ob("C05.R9", "%s:%s" % (rel, f.name), "the pattern serves one signedness of `>>` (or dispatches on the matched tree)", not (si and su) or looks, construct="shr-signedness:" + f.name, node=f,
                   detail="registered for %s and %s; emits %s" % (", ".join(si), ", ".join(su), emits or "a runtime call"))
    ctx.need(n >= 8, "right-shift pattern functions: %d found" % n)


def _mips_jalr_links(ctx):
    """R10.  MIPS32 `JALR rs` is `JALR $31, rs`: the return address goes to rd; with rd = 0 the instruction is `jr rs` and the callee
    returns to whatever $ra held before."""
    ctx.rule("C05.R10", "mips: the register call instruction `jalr rs` links into $ra (rd = 31)", floor=1)
    cls = ctx.cls("ppci/arch/mips/instructions.py", "Jalr")
    pat = [n.value for n in cls.body if isinstance(n, ast.Assign) and norm(n.targets[0]) == "patterns" and isinstance(n.value, ast.Dict)]
    ctx.need(len(pat) == 1, "mips Jalr: patterns not found")
    d = {try_const(k): try_const(v) for k, v in zip(pat[0].keys, pat[0].values)}
    ctx.ob("C05.R10", "ppci/arch/mips/instructions.py:Jalr", "rd is 31 ($ra) and the function code is 9 (JALR)", d.get("rd") == 31 and d.get("funct") == 9 and d.get("opcode") == 0, construct="jalr-links", detail="rd = %s, funct = %s" % (d.get("rd"), d.get("funct")))


def try_const_(n):
    from ..core import try_const
    return try_const(n)
