"""C14 - object file / archive / debug-info serialization: class fields are
written, keys written = keys read, optional keys are omitted only when the
field holds the reader's default, encodings are inverse pairs, read keys
reach the matching constructor parameter."""
import ast

from ..core import (norm, walk_no_nested, calls_in, call_name, last_name, init_fields, attrs_in,
                    names_in, params_of, try_const, attr_chain)
from .. import tables

O = "ppci/binutils/objectfile.py"
D = "ppci/binutils/debuginfo.py"
A = "ppci/binutils/archive.py"
U = "ppci/utils/binary_txt.py"

# class -> (reader variable in deserialize, derived/rebuilt fields with reason)
OBJ = {
    "ObjectFile": ("data", {"symbol_map": "index rebuilt by add_symbol", "symbols_by_id": "index rebuilt by add_symbol",
                            "section_map": "index rebuilt by add_section", "image_map": "index rebuilt by add_image"}),
    "Image": ("image", {}),
    "Section": ("section", {}),
    "Symbol": ("sym", {}),
    "RelocationEntry": ("reloc", {}),
}
INVERSE = {"hex": "make_num", "bin2asc": "asc2bin", "serialize": None, "int": None}


def _none_predicate(project, test, pol, objvar, cls):
    """field F such that (test == pol) is equivalent to `objvar.F is not None`
    (or truthy), resolving @property helpers of cls; else None."""
    t = test
    neg = not pol
    while isinstance(t, ast.UnaryOp) and isinstance(t.op, ast.Not):
        t, neg = t.operand, not neg
    if isinstance(t, ast.Compare) and len(t.ops) == 1 and norm(t.comparators[0]) == "None":
        ch = attr_chain(t.left)
        if ch and ch.startswith(objvar + ".") and ch.count(".") == 1:
            f = ch.split(".")[1]
            if isinstance(t.ops[0], ast.IsNot):
                return None if neg else f
            if isinstance(t.ops[0], ast.Is):
                return f if neg else None
        return None
    ch = attr_chain(t)
    if ch and ch.startswith(objvar + ".") and ch.count(".") == 1:
        f = ch.split(".")[1]
        m = project.find_method(cls, f) if cls is not None else None
        if m is not None and any(attr_chain(d) == "property" for d in m.decorator_list):
            rets = [r.value for r in walk_no_nested(m) if isinstance(r, ast.Return) and r.value is not None]
            if len(rets) == 1:
                return _none_predicate(project, rets[0], not neg, "self", cls)
            return None
        return None if neg else f   # plain truthiness of a field
    return None


def run(ctx):
    ctx.rule("C14.R1", "every field of a serialized class is written by serialize() (derived indexes excepted by name)", floor=15)
    ctx.rule("C14.R2", "keys written by serialize() = keys read by deserialize(), per class", floor=20)
    ctx.rule("C14.R3", "an optional key is omitted only when its own field holds the value the reader substitutes", floor=3)
    ctx.rule("C14.R4", "numeric/binary encodings are inverse pairs (hex<->make_num incl. negatives, bin2asc<->asc2bin)", floor=8)
    ctx.rule("C14.R5", "each key read reaches the constructor parameter / attribute of the field it was written from", floor=10)
    ctx.rule("C14.R6", "debug info: keys written = keys read per record kind; kinds agree", floor=12)
    ctx.rule("C14.R7", "archive save/load mirror", floor=2)
    project = ctx.project
    ser = ctx.fn(O, "serialize")
    des = ctx.fn(O, "deserialize")
    branches = tables.isinstance_branches(ser, "x")
    for cname, (rvar, derived) in OBJ.items():
        cls = ctx.cls(O, cname)
        site_w = "%s:serialize[%s]" % (O, cname)
        site_r = "%s:deserialize[%s]" % (O, cname)
        ctx.need(cname in branches, "serialize() has no branch for %s" % cname)
        ifn, body = branches[cname]
        writes = tables.dict_writes(body, "res")
        wkeys = {}
        for w in writes:
            wkeys.setdefault(w.key, w)
        fields = init_fields(project, cls)
        read_fields = set()
        for st in body:
            for n in walk_no_nested(st):
                ch = attr_chain(n) if isinstance(n, ast.Attribute) else None
                if ch and ch.startswith("x."):
                    read_fields.add(ch.split(".")[1])
        for f in sorted(fields):
            if f in derived:
                continue
            ctx.ob("C14.R1", site_w, "field %s.%s is serialized" % (cname, f), f in read_fields, construct="field:" + f)
        reads = tables.key_reads(des.body, rvar)
        for k in sorted(set(wkeys) | set(reads)):
            ctx.ob("C14.R2", site_r if k in wkeys else site_w, "key %r of %s is both written and read" % (k, cname), k in wkeys and k in reads, construct="key:" + k,
                   detail="written=%s read=%s" % (k in wkeys, k in reads))
        # optional keys
        groups = {}
        for w in writes:
            if w.guards:
                groups.setdefault(norm(w.guards[0][0]), []).append(w)
        for gtxt, ws in groups.items():
            test, pol = ws[0].guards[0]
            f = _none_predicate(project, test, pol, "x", cls)
            own = {tables.source_field(w.value, "x") for w in ws}
            # the reader tests the presence of one key; the writer may omit the group only when the
            # field written under *that* key holds the reader's substitute (None)
            tested = [w for w in ws if any(isinstance(n, ast.Compare) for n in reads.get(w.key, []))]
            present = bool(tested)
            tested_fields = {tables.source_field(w.value, "x") for w in tested}
            ok = f is not None and f in (tested_fields or own)
            ctx.ob("C14.R3", site_w, "keys %s are omitted only when %s.<one of %s> is None/empty (what the reader substitutes), and the reader tests their presence"
                   % (sorted(w.key for w in ws), cname, sorted(x for x in own if x)), ok and present, construct="optional:" + ",".join(sorted(w.key for w in ws)),
                   node=ws[0].node, detail="guard `%s` decides on field %s; reader presence test: %s" % (gtxt, f, present))
        # encodings + sinks
        for k, w in wkeys.items():
            if k not in reads:
                continue
            ww = [x for x in tables.wrappers_of(w.value, "x") if x]
            rnodes = [n for n in reads[k] if isinstance(n, ast.Subscript)]
            if not rnodes:
                continue
            rn = rnodes[0]
            rw = []
            p = rn._parent
            while isinstance(p, ast.Call) and any(a is rn for a in p.args):
                r = project.resolve_name(des._module, attr_chain(p.func) or "?")
                if isinstance(r, ast.ClassDef) or last_name(p) in ("add_symbol",):
                    break
                rw.append(last_name(p))
                rn, p = p, p._parent
            if ww and ww[0] in ("hex", "bin2asc"):
                ctx.ob("C14.R4", site_r, "key %r written with %s() is read with %s()" % (k, ww[0], INVERSE[ww[0]]), INVERSE[ww[0]] in rw, construct="inverse:" + k, detail="writer %s reader %s" % (ww, rw))
            elif not ww or ww[0] == "int":
                ctx.ob("C14.R4", site_r, "key %r written raw is read raw (or int())" % k, all(x == "int" for x in rw), construct="inverse:" + k, detail="writer %s reader %s" % (ww, rw))
            src = tables.source_field(w.value, "x")
            sinks = tables.sink_of(project, des, rnodes[0])
            names = {n for _, n in sinks}
            if src and sinks and cname != "ObjectFile" and not isinstance(w.value, ast.List):
                alias = {"symbol_value": "value", "symbol_section": "section"}
                names = {alias.get(n, n) for n in names}
                ctx.ob("C14.R5", site_r, "key %r (written from %s.%s) is read into the same field" % (k, cname, src), src in names, construct="sink:" + k, detail="reaches %s" % sorted(names))
    # rebuilt through the add_* API
    for api in ("add_section", "add_symbol", "add_relocation", "add_image"):
        ctx.ob("C14.R1", O + ":deserialize", "objects are rebuilt through obj.%s() so the derived indexes are restored" % api, any(isinstance(c.func, ast.Attribute) and norm(c.func.value) == "obj" for c in calls_in(des, api)), construct="api:" + api)
    # make_num handles negative hex; hex() writes it
    mn = ctx.fn("ppci/common.py", "make_num")
    consts = [n.value for n in ast.walk(mn) if isinstance(n, ast.Constant) and isinstance(n.value, str)]
    ok_neg = False
    for n in walk_no_nested(mn):
        if isinstance(n, ast.If) and "'-0x'" in norm(n.test):
            r = [x.value for x in n.body if isinstance(x, ast.Return)]
            ok_neg = bool(r) and isinstance(r[0], ast.UnaryOp) and isinstance(r[0].op, ast.USub) and "16" in norm(r[0]) and "[3:]" in norm(r[0])
    ctx.ob("C14.R4", "ppci/common.py:make_num", "make_num parses '-0x..' (what hex() yields for negatives) as the negated base-16 number", ok_neg, construct="neg-hex")
    ok_pos = False
    for n in walk_no_nested(mn):
        if isinstance(n, ast.If) and norm(n.test) == "txt.startswith('0x')":
            r = [x.value for x in n.body if isinstance(x, ast.Return)]
            ok_pos = bool(r) and norm(r[0]) == "int(txt[2:], 16)"
    ctx.ob("C14.R4", "ppci/common.py:make_num", "make_num parses '0x..' as base 16", ok_pos, construct="pos-hex")
    # bin2asc / asc2bin: both shapes
    b2a, a2b = ctx.fn(U, "bin2asc"), ctx.fn(U, "asc2bin")
    shapes_w = {"list" if isinstance(r.value, ast.Name) and any(isinstance(a, ast.Assign) and norm(a.targets[0]) == r.value.id and isinstance(a.value, ast.List) for a in walk_no_nested(b2a)) else "str"
                for r in walk_no_nested(b2a) if isinstance(r, ast.Return)}
    shapes_r = {norm(c.args[1]) for c in calls_in(a2b, "isinstance") if len(c.args) == 2}
    ctx.ob("C14.R4", U + ":asc2bin", "asc2bin accepts every shape bin2asc produces (str and list of str)", shapes_w <= {"str", "list"} and {"str", "list"} & shapes_r == {"str", "list"}, construct="shapes", detail="%s vs %s" % (shapes_w, shapes_r))
    ok = any(call_name(c) == "binascii.hexlify" for c in calls_in(b2a)) and any(call_name(c) == "binascii.unhexlify" for c in calls_in(a2b))
    ctx.ob("C14.R4", U + ":bin2asc", "hexlify is undone by unhexlify", ok, construct="hexlify")

    # ---- debug info -----------------------------------------------------
    ds, dd = ctx.cls(D, "DictSerializer"), ctx.cls(D, "DictDeserializer")
    pairs = [
        ("serialize", "deserialize", ["x"], None),
        ("serialize_location", "deserialize", ["location"], None),
        ("serialize_function", "deserialize", ["f"], None),
        ("serialize_argument", "read_formal_parameter", ["v"], None),
        ("serialize_variable", "read_variable", ["v"], None),
        ("write_source_location", "read_source_location", ["x"], None),
    ]
    for wname, rname, rvars, _ in pairs:
        wf = ctx.fn(D, "DictSerializer." + wname)
        rf = ctx.fn(D, "DictDeserializer." + rname)
        wk = {w.key for w in tables.dict_writes(wf.body)}
        rk = set()
        for v in rvars:
            rk |= set(tables.key_reads(rf.body, v))
        for k in sorted(wk | rk):
            ctx.ob("C14.R6", "%s:%s<->%s" % (D, wname, rname), "debug key %r written and read" % k, k in wk and k in rk, construct="key:" + k, detail="written=%s read=%s" % (k in wk, k in rk))
    # kind-discriminated records
    for wname, wvar, rname, rvar, extra_vars in (("serialize_type", "typ", "get_type", "t", ["field"]), ("write_address", "address", "read_address", "x", [])):
        wf = ctx.fn(D, "DictSerializer." + wname)
        rf = ctx.fn(D, "DictDeserializer." + rname)
        wb = tables.isinstance_branches(wf, wvar)
        rb = tables.eq_branches(rf, "kind")
        wkinds = {}
        for cname, (ifn, body) in wb.items():
            ws = tables.dict_writes(body)
            kinds = [try_const(w.value) for w in ws if w.key == "kind"]
            if len(kinds) == 1:
                wkinds[kinds[0]] = (cname, {w.key for w in ws} - {"kind"})
        site = "%s:%s<->%s" % (D, wname, rname)
        for k in sorted(set(wkinds) | set(rb)):
            ctx.ob("C14.R6", site, "record kind %r is written and read" % k, k in wkinds and k in rb, construct="kind:%s" % k)
            if k in wkinds and k in rb:
                rk = set()
                for v in [rvar] + extra_vars:
                    rk |= set(tables.key_reads(rb[k][1], v))
                wk = wkinds[k][1] - ({"id"} if wname == "serialize_type" else set())
                for key in sorted(wk | rk):
                    ctx.ob("C14.R6", site, "kind %r: key %r written and read" % (k, key), key in wk and key in rk, construct="kind:%s:key:%s" % (k, key))
                # the reader builds the class the writer dispatched on
                built = {call_name(c) for st in rb[k][1] for c in calls_in(st)}
                ctx.ob("C14.R6", site, "kind %r is rebuilt as %s" % (k, wkinds[k][0]), wkinds[k][0] in built, construct="kind:%s:class" % k, detail=str(sorted(b for b in built if b and b[0].isupper())))
    # ---- archive ----------------------------------------------------------
    sv, ld = ctx.fn(A, "Archive.save"), ctx.fn(A, "Archive.load")
    wk = {w.key for w in tables.dict_writes(sv.body)}
    rk = set(tables.key_reads(ld.body, "d"))
    ctx.ob("C14.R7", A + ":Archive", "archive keys written = keys read", wk == rk and bool(wk), construct="keys", detail="%s vs %s" % (sorted(wk), sorted(rk)))
    ok = any(last_name(c) == "serialize" for c in calls_in(sv, nested=True)) and any("deserialize" in norm(c) for c in calls_in(ld))
    ctx.ob("C14.R7", A + ":Archive", "members are written with serialize() and read with objectfile.deserialize over all entries", ok, construct="member-codec")
    comp = [n for n in ast.walk(sv) if isinstance(n, (ast.ListComp, ast.GeneratorExp))]
    ok = bool(comp) and norm(comp[0].generators[0].iter) == "self.objs" and not comp[0].generators[0].ifs
    ctx.ob("C14.R7", A + ":Archive.save", "every member object is saved", ok, construct="all-members")
    _recursive_types(ctx)

    _chunking(ctx)

def _recursive_types(ctx):
    """R8: debug types may be recursive (a struct reaching itself through a pointer): the deserializer must publish a
    struct in its cache before it resolves the field types, and every branch must end with the type in the cache"""
    import ast as _a
    from ..core import norm as _n, last_name as _l
    from ..tables import eq_branches
    D = "ppci/binutils/debuginfo.py"
    ctx.rule("C14.R8", "debug info: a struct type is registered in the deserializer's cache BEFORE its field types are resolved (self-referential structs: linked-list node), every kind of type ends up in the cache, and the cache is consulted first", floor=6)
    gt = ctx.fn(D, "DictDeserializer.get_type")
    site = D + ":DictDeserializer.get_type"
    first = gt.body[1] if isinstance(gt.body[0], _a.Expr) else gt.body[0]
    ok = isinstance(first, _a.If) and _n(first.test) == "idx in self.types" and any(isinstance(r, _a.Return) and _n(r.value) == "self.types[idx]" for r in first.body)
    ctx.ob("C14.R8", site, "a type id already in the cache is returned from it (before the worklist is touched)", ok, construct="cache-first")
    br = eq_branches(gt, "kind")
    ctx.need(len(br) >= 4, "get_type: kind dispatch not found")
    for kind, (ifn, body) in sorted(br.items()):
        stores = [s for b in body for s in _a.walk(b) if isinstance(s, _a.Assign) and _n(s.targets[0]) == "self.types[idx]"]
        ctx.ob("C14.R8", site, "kind %r: the new type is stored in the cache under its id" % kind, len(stores) == 1, construct="cached:%s" % kind)
        rec = [c for b in body for c in _a.walk(b) if isinstance(c, _a.Call) and _n(c.func) == "self.get_type"]
        loops = [l for b in body for l in _a.walk(b) if isinstance(l, _a.For) and any(c in list(_a.walk(l)) for c in rec)]
        if loops and stores:
            # aggregate with member types resolved in a loop: the members may refer back to it
            ctx.ob("C14.R8", site, "kind %r: the type is in the cache before the member types are resolved (a member may refer back to this very id, which was already taken off the worklist)" % kind,
                   stores[0].lineno < loops[0].lineno, construct="registered-before-members:%s" % kind, node=stores[0])
    pops = [c for c in _a.walk(gt) if isinstance(c, _a.Call) and _n(c.func) == "self.type_worklist.pop"]
    ctx.ob("C14.R8", site, "the description is taken off the worklist exactly once, after the cache test", len(pops) == 1 and pops[0].lineno > first.lineno, construct="worklist-once")
    rets = [r for r in gt.body if isinstance(r, _a.Return)]
    ctx.ob("C14.R8", site, "the type returned is the cached one", bool(rets) and _n(rets[-1].value) == "self.types[idx]", construct="returns-cached")
    _type_order(ctx)


def _type_order(ctx):
    import ast as _a
    from ..core import norm as _n, walk_no_nested as _w, last_name as _l
    D = "ppci/binutils/debuginfo.py"
    ds = ctx.fn(D, "DictDeserializer.deserialize")
    site = D + ":DictDeserializer.deserialize"
    adds = [c for c in _a.walk(ds) if isinstance(c, _a.Call) and _n(c.func) == "debug_info.add" and c.args]
    tl = []
    for c in adds:
        loops = [a for a in _anc14(c) if isinstance(a, _a.For)]
        if loops and _n(loops[0].iter) in ("x['types']",):
            tl.append((c, loops[0]))
    ok = False
    if len(tl) == 1:
        c, l = tl[0]
        arg = c.args[0]
        src = [n.value for n in l.body if isinstance(n, _a.Assign) and _n(n.targets[0]) == _n(arg)]
        src = src[0] if src else arg
        ok = isinstance(src, _a.Call) and _n(src.func) == "self.get_type" and "['id']" in _n(src.args[0]) and _n(l.target) in _n(src.args[0])
    other = [c for c in adds if any(isinstance(a, _a.For) and ("self.types" in _n(a.iter)) for a in _anc14(c))]
    ctx.ob("C14.R8", site, "types are added to the DebugInfo in the order of the serialized list (one add per list entry, resolved by its id), not in the order in which the cache happened to be filled: a re-save must assign the same ids",
           ok and not other, construct="types-in-list-order", node=(other[0] if other else None))
    wl = [n for n in _a.walk(ds) if isinstance(n, _a.Assign) and _n(n.targets[0]).startswith("self.type_worklist[")]
    ok = len(wl) == 1 and any(isinstance(a, _a.For) and _n(a.iter) == "x['types']" for a in _anc14(wl[0])) and wl[0].lineno < (tl[0][0].lineno if tl else 0)
    ctx.ob("C14.R8", site, "all type records are put on the worklist (by id) before the first one is resolved (forward references inside the list)", ok, construct="worklist-first")


def _anc14(n):
    out = []
    n = getattr(n, "_parent", None)
    while n is not None:
        out.append(n)
        n = getattr(n, "_parent", None)
    return out


def _chunking(ctx):
    """R9: section data is written as hex lines of chunks(data) and read back by concatenating the lines: the chunks
    must partition the data - consecutive, in order, nothing twice."""
    from .. import minieval
    CH = "ppci/utils/chunk.py"
    ctx.rule("C14.R9", "chunks(data, size) partitions the data: concatenating the chunks gives the data again, every chunk but the last has `size` elements and no chunk is empty (decided by evaluating the generator for every length 0..3*size+1, size 1..5)", floor=2)
    fn = ctx.fn(CH, "chunks")
    bad, n = [], 0
    try:
        for size in range(1, 6):
            for length in range(0, 3 * size + 2):
                data = tuple(range(length))
                got = minieval.call(fn, [data, size])
                n += 1
                flat = tuple(x for c in got for x in c)
                ok = flat == data and all(len(c) == size for c in got[:-1]) and all(len(c) > 0 for c in got)
                if not ok:
                    bad.append("chunks(%d items, %d) -> sizes %s" % (length, size, [len(c) for c in got]))
        ctx.ob("C14.R9", CH + ":chunks", "for all %d (length, size) pairs the chunks concatenate to the data, full-size except the last, none empty" % n, not bad, construct="chunks-partition", detail="; ".join(bad[:3]))
    except minieval.Undecidable as e:
        ctx.undecided("C14.R9", CH + ":chunks", "chunks could not be evaluated: %s" % e)
    b2a = ctx.fn("ppci/utils/binary_txt.py", "bin2asc")
    ctx.ob("C14.R9", "ppci/utils/binary_txt.py:bin2asc", "(context) long data is written chunk by chunk", "chunks(" in norm(b2a), construct="bin2asc-uses-chunks")
