"""C19 - S-records: payload provenance (header text only in S0), address
size table, data type covers the address range with matching terminator,
count and checksum formulas."""
import ast

from ..core import norm, walk_no_nested, calls_in, call_name, last_name, try_const, assigned_values, derives, names_in, compare_ops
from .. import sym, flow

F = "ppci/format/srecord.py"
SPEC_SIZES = {0: 2, 1: 2, 2: 3, 3: 4, 5: 2, 6: 3, 7: 4, 8: 3, 9: 2}
TERMINATOR = {1: 9, 2: 8, 3: 7}
LIMIT = {1: 1 << 16, 2: 1 << 24, 3: 1 << 32}


def run(ctx):
    ctx.rule("C19.R1", "data records (S1/S2/S3) carry only the section's bytes; other payload goes in an S0 record", floor=2)
    ctx.rule("C19.R2", "address field sizes per record type follow the S-record specification", floor=1)
    ctx.rule("C19.R3", "the data record type's address width covers every address written; terminator pairs with the data type; addresses advance by the chunk length from the section address", floor=5)
    ctx.rule("C19.R4", "count = len(address + data) + 1; checksum = one's complement of the sum of count, address and data", floor=4)
    project = ctx.project
    cls = ctx.cls(F, "SRecord")
    tab = try_const(project.class_attr(cls, "address_byte_sizes"))
    ctx.ob("C19.R2", F + ":SRecord.address_byte_sizes", "address sizes are {0:2,1:2,2:3,3:4,5:2,6:3,7:4,8:3,9:2}", tab == SPEC_SIZES, construct="sizes", detail=str(tab))
    ctx.saw("tables", "SRecord.address_byte_sizes")

    # ---- to_line -----------------------------------------------------------
    tl = ctx.fn(F, "SRecord.to_line")
    site = F + ":SRecord.to_line"
    env = sym.single_assign_env(tl)
    a = assigned_values(tl, "addr_data")
    ok = bool(a) and isinstance(a[0], ast.Call) and last_name(a[0]) == "value_to_bytes_big_endian" and [norm(x) for x in a[0].args] == ["self.address", "addr_size"]
    ctx.ob("C19.R4", site, "address is written big-endian with the size the table gives for the record type", ok and any(norm(v) == "self.address_byte_sizes[self.typ]" for v in assigned_values(tl, "addr_size")), construct="address-bytes")
    cnt = assigned_values(tl, "count")
    datas = [norm(v) for v in assigned_values(tl, "data")]
    okc = bool(cnt) and sym.affine(cnt[0], {}) == sym.atom("len(data)") + sym.const(1) and "addr_data + self.data" in datas
    # count computed while `data` = address + payload (before count is prepended)
    order = [st for st in tl.body if isinstance(st, (ast.Assign, ast.AugAssign))]
    idx = {norm(st): i for i, st in enumerate(order)}
    seq_ok = idx.get("data = addr_data + self.data", 99) < idx.get("count = len(data) + 1", -1) < idx.get("data = bytes([count]) + data", -2) < idx.get("crc = sum(data)", -3)
    ctx.ob("C19.R4", site, "count = len(address + data) + 1 (the checksum byte), computed before the count byte is prepended", okc and seq_ok, construct="count", detail=str(datas))
    crc = [norm(v) for v in assigned_values(tl, "crc")]
    okx = "sum(data)" in crc and any(c in ("~crc & 255", "255 - (crc & 255)", "(~crc) % 256", "255 - crc % 256", "crc & 255 ^ 255", "(crc ^ 255) & 255") for c in crc)
    ctx.ob("C19.R4", site, "checksum = one's complement of the 8-bit sum over count, address and data", okx and seq_ok, construct="checksum", detail=str(crc))
    app = [st for st in tl.body if isinstance(st, ast.AugAssign) and norm(st.target) == "data"]
    ctx.ob("C19.R4", site, "checksum byte is appended last", bool(app) and norm(app[-1].value) == "bytes([crc])" and app[-1].lineno > max(st.lineno for st in order if norm(st).startswith("crc =")), construct="crc-last")
    ret = [n for n in ast.walk(tl) if isinstance(n, ast.JoinedStr)]
    ctx.ob("C19.R4", site, "line = 'S' + type digit + upper-case hex of the record bytes", bool(ret) and norm(ret[-1]) == "f'S{self.typ}{txt_data}'" and any(".upper()" in norm(v) and "hexlify(data)" in norm(v) for v in assigned_values(tl, "txt_data")), construct="line")

    # ---- write_srecord --------------------------------------------------------
    ws = ctx.fn(F, "write_srecord")
    site = F + ":write_srecord"
    recs = [c for c in calls_in(ws, "SRecord")]
    ctx.need(len(recs) >= 2, "write_srecord: SRecord constructions not found")
    sec_data_atoms = {"attr:data"}
    loop = [n for n in walk_no_nested(ws) if isinstance(n, ast.For)]
    data_typs = set()
    for c in recs:
        typ = c.args[0]
        tvals = [try_const(typ)] if try_const(typ) is not None else [try_const(e) for v in assigned_values(ws, typ.id) for e in ([v] if not isinstance(v, ast.Tuple) else [])] if isinstance(typ, ast.Name) else [None]
        payload = c.args[2]
        atoms = derives(ws, payload)
        from_section = "attr:data" in atoms and ("call:get_section" in atoms or "attr:get_section" in atoms)
        is_data_type = any(t in (1, 2, 3) for t in tvals) or (isinstance(typ, ast.Name) and "data" in typ.id)
        if is_data_type:
            data_typs.add(norm(typ))
            ctx.ob("C19.R1", site, "payload of a data record (S1/S2/S3) is taken from the code section's data", from_section, construct="data-payload:" + norm(payload), node=c, detail=norm(c))
        else:
            consts = [x for x in ast.walk(payload) if isinstance(x, ast.Constant) and isinstance(x.value, bytes) and x.value]
            if consts:
                ctx.ob("C19.R1", site, "literal (header) payload %r travels in an S0 record" % consts[0].value, try_const(typ) == 0, construct="header-record", node=c, detail=norm(c))
    # type selection
    pairs = []   # (data type, terminator type, guard upper bound or None)
    for n in walk_no_nested(ws):
        if isinstance(n, ast.Assign) and isinstance(n.targets[0], ast.Tuple) and isinstance(n.value, ast.Tuple) and len(n.value.elts) == 2:
            d, t = try_const(n.value.elts[0]), try_const(n.value.elts[1])
            conds = flow.controlling(n, ws)
            bound = None
            for test, pol, _ in conds[:1]:
                for l, op, r in compare_ops(test):
                    if pol and op in ("LtE", "Lt"):
                        bound = (norm(l), op, try_const(r))
            pairs.append((d, t, bound, n))
    if not pairs:
        # constant types
        dts = [try_const(c.args[0]) for c in recs if try_const(c.args[0]) in (1, 2, 3)]
        terms = [try_const(c.args[0]) for c in recs if try_const(c.args[0]) in (7, 8, 9)]
        if dts and terms:
            ctx.ob("C19.R3", site, "a fixed S%d data record type can only address %d bytes: the address written is unbounded (section address + size)" % (dts[0], LIMIT[dts[0]]), dts[0] == 3, construct="fixed-type", detail="S%d" % dts[0])
            ctx.ob("C19.R3", site, "terminator S%d pairs with data type S%d" % (terms[0], dts[0]), TERMINATOR.get(dts[0]) == terms[0], construct="terminator")
        else:
            ctx.undecided("C19.R3", site, "record type selection not recognised")
    else:
        for d, t, bound, node in pairs:
            ctx.ob("C19.R3", site, "terminator S%s pairs with data type S%s (S1-S9, S2-S8, S3-S7)" % (t, d), TERMINATOR.get(d) == t, construct="pair:%s" % d, node=node)
            if bound is not None:
                lhs, op, lim = bound
                want = LIMIT.get(d)
                ok = lim == want and op == "LtE" or (op == "Lt" and lim == want)  # end address (exclusive) <= 2^n ; or max address < 2^n
                ctx.ob("C19.R3", site, "S%s is chosen only when every address fits %d bits" % (d, {1: 16, 2: 24, 3: 32}.get(d, 0)), ok, construct="bound:%s" % d, node=node, detail="%s %s %s" % bound)
                atoms = derives(ws, ast.parse(lhs, mode="eval").body) if lhs.isidentifier() else set()
                ctx.ob("C19.R3", site, "the bound is tested on the end address (start address + length), not the length alone", "attr:address" in atoms and "call:len" in atoms, construct="bound-on-end:%s" % d, node=node, detail=str(sorted(a for a in atoms if a.startswith(("attr", "call")))))
            else:
                ctx.ob("C19.R3", site, "the unguarded fall-back is the widest type S3", d == 3, construct="fallback", node=node)
    if loop:
        lp = loop[0]
        rec = [c for c in calls_in(lp, "SRecord")]
        it = lp.iter
        if isinstance(it, ast.Call) and call_name(it) == "chunks":
            incs = [n for n in lp.body if isinstance(n, ast.AugAssign) and norm(n.target) == "address" and isinstance(n.op, ast.Add) and norm(n.value) == "len(chunk)"]
            ctx.ob("C19.R3", site, "record address advances by the chunk length", bool(incs), construct="advance")
            ctx.ob("C19.R3", site, "each data record carries (type, running address, chunk)", bool(rec) and [norm(a) for a in rec[0].args[1:]] == ["address", "chunk"] and bool(incs) and incs[0].lineno > rec[0].lineno, construct="data-record")
            ctx.ob("C19.R3", site, "all of the section's data is chunked", norm(it) in ("chunks(data)", "chunks(section.data)"), construct="all-data")
        elif isinstance(it, ast.Call) and call_name(it) == "range" and len(it.args) == 3 and isinstance(lp.target, ast.Name):
            i = lp.target.id
            start_, stop, step = it.args
            ok_cover = norm(start_) == "0" and sym.affine(stop, {}) in (sym.atom("len(data)"), sym.atom("len(section.data)"))
            ctx.ob("C19.R3", site, "the offsets 0, k, 2k, ... run up to len(data) so that every byte is in some chunk", ok_cover, construct="all-data", detail=norm(it))
            ch = [v for v in assigned_values(lp, "chunk")]
            ok_sl = bool(ch) and norm(ch[0]) in ("data[%s:%s + %s]" % (i, i, norm(step)), "section.data[%s:%s + %s]" % (i, i, norm(step)))
            ctx.ob("C19.R3", site, "chunk = data[offset : offset + step]", ok_sl, construct="advance", detail=norm(ch[0]) if ch else "")
            a1 = sym.affine(rec[0].args[1], sym.single_assign_env(ws)) if rec else None
            ok_ad = a1 is not None and a1.terms.get(i) == 1 and any("address" in k for k in a1.terms if k != i) and norm(rec[0].args[2]) == "chunk"
            ctx.ob("C19.R3", site, "each data record carries (type, section address + offset, chunk)", ok_ad, construct="data-record", detail=norm(rec[0]) if rec else "")
        else:
            ctx.undecided("C19.R3", site, "chunking loop not recognised: %s" % norm(it))
    st = [v for v in assigned_values(ws, "address") if not isinstance(v, ast.AugAssign)]
    ctx.ob("C19.R3", site, "the first record address is the section's address", bool(st) and norm(st[0]) in ("section.address", "obj.get_section('code').address"), construct="start-address", detail=norm(st[0]) if st else "")
    _address_bytes(ctx)


def _address_bytes(ctx):
    """R5: the address field of a record is an UNSIGNED big-endian number of 2, 3 or 4 bytes: every address below
    256**size must be packed (0x8000 in an S1 record, 0x80000000 in an S3 record)."""
    from ..sym import conjuncts
    B = "ppci/utils/bitfun.py"
    ctx.rule("C19.R5", "value_to_bytes_big_endian(value, size) packs every value in [0, 256**size) most significant byte first; it refuses nothing in that range (a signed range test would reject addresses with the top bit set)", floor=3)
    fn = ctx.fn(B, "value_to_bytes_big_endian")
    site = B + ":value_to_bytes_big_endian"
    v, sz = fn.args.args[0].arg, fn.args.args[1].arg
    UNSIGNED_OK = {"%s < 0" % v, "%s >= 1 << %s * 8" % (v, sz), "%s >= 1 << 8 * %s" % (v, sz), "%s >= 256 ** %s" % (v, sz), "%s >> %s * 8" % (v, sz), "%s >> 8 * %s" % (v, sz),
                   "not 0 <= %s < 1 << %s * 8" % (v, sz), "not 0 <= %s < 256 ** %s" % (v, sz), "%s.bit_length() > %s * 8" % (v, sz), "%s.bit_length() > 8 * %s" % (v, sz)}
    bad = []
    for n in ast.walk(fn):
        if isinstance(n, ast.Raise):
            conds = [(" ".join(norm(c).split()), pol) for c, pol in conjuncts(n, fn, {})]
            if not conds or not all((pol is True and c in UNSIGNED_OK) or (pol is True and c.startswith("not ") and c in UNSIGNED_OK) for c, pol in conds):
                bad.append((n, "raise under %s" % (conds or "no condition")))
        elif isinstance(n, ast.Assert):
            t = " ".join(norm(n.test).split())
            if t not in ("0 <= %s < 1 << %s * 8" % (v, sz), "0 <= %s < 256 ** %s" % (v, sz), "%s >= 0" % v, "isinstance(%s, int)" % v, "isinstance(%s, int)" % sz):
                bad.append((n, "assert %s" % t))
        elif isinstance(n, ast.Call) and norm(n.func) in ("inrange", "wrap_negative"):
            bad.append((n, "signed range helper %s" % norm(n)))
    ctx.ob("C19.R5", site, "nothing in [0, 256**size) is refused (no signed range test in front of the packing)", not bad, construct="full-unsigned-range", node=bad[0][0] if bad else None, detail="; ".join(t for _, t in bad))
    from .. import sym
    env = sym.single_assign_env(fn)
    rets = [r for r in ast.walk(fn) if isinstance(r, ast.Return)]
    val = " ".join(norm(sym.deep_inline(rets[0].value, env)).split()) if len(rets) == 1 else ""
    ok = val in ("bytes((%s >> x * 8 & 255 for x in reversed(range(%s))))" % (v, sz), "bytes((%s >> x * 8 & 0xFF for x in reversed(range(%s))))" % (v, sz), "%s.to_bytes(%s, 'big')" % (v, sz))
    ctx.ob("C19.R5", site, "byte k of the result is (value >> 8*(size-1-k)) & 0xFF: most significant byte first, exactly `size` bytes", ok, construct="big-endian-bytes", detail=val[:120])
    tl = ctx.fn(F, "SRecord.to_line")
    use = [c for c in ast.walk(tl) if isinstance(c, ast.Call) and norm(c.func) == "value_to_bytes_big_endian"]
    ok = len(use) == 1 and norm(use[0].args[0]) == "self.address"
    ctx.ob("C19.R5", F + ":SRecord.to_line", "the record's address goes through that helper with the address size of its record type", ok and len(use[0].args) == 2, construct="address-packed", detail=norm(use[0]) if use else "")
