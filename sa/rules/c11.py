"""C11 - references resolve to their symbols: addend handling, linker passes
symbol value and site address, relocation siblings agree, hi/lo part pairs
agree on the carry, undefined symbols raise."""
import ast

from ..core import (norm, walk_no_nested, calls_in, call_name, last_name, try_const, assigned_values,
                    names_in, attrs_in, params_of, compare_ops, attr_chain)
from ..cfg import CFG
from .. import sym, relocs, flow, siblings

L = "ppci/binutils/linker.py"
O = "ppci/binutils/objectfile.py"
RV = "ppci/arch/riscv/relocations.py"
RVC = "ppci/arch/riscv/rvc_relocations.py"
ENC = "ppci/arch/encoding.py"


def run(ctx):
    ctx.rule("C11.R1", "addend: relocation classes ppci emits with a non-zero addend add self.addend; the linker constructs relocations with the entry's addend; the addend of every entry reaches the value", floor=5)
    ctx.rule("C11.R2", "the linker hands apply() the symbol's value, the bytes at the relocation offset and the site address (section address + offset), and writes the result back to the same bytes", floor=6)
    ctx.rule("C11.R3", "relocation siblings that encode the same field layout are isomorphic; copies of the default apply() match it", floor=6)
    ctx.rule("C11.R4", "hi/lo part pairs: the high part is incremented exactly when bit 11 (the sign bit of the low part) is set; absolute and pc-relative variants agree", floor=5)
    ctx.rule("C11.R5", "pc-relative distances are symbol value minus site address (with a constant pipeline/instruction-length bias), never the reverse", floor=20)
    project = ctx.project
    rs = relocs.all_relocations(project)
    by = {r.name + "@" + r.rel: r for r in rs}
    cls_by_name = {}
    for r in rs:
        cls_by_name.setdefault(r.name, []).append(r)
    # ---- R1 ----------------------------------------------------------------
    emitted = {}
    for m in project.modules.values():
        if not m.rel.startswith("ppci/arch/"):
            continue
        for c in ast.walk(m.tree):
            if isinstance(c, ast.Call) and (call_name(c) or "").split(".")[-1] in cls_by_name:
                for k in c.keywords:
                    if k.arg == "addend" and try_const(k.value) not in (0, None):
                        emitted.setdefault((call_name(c).split(".")[-1], m.rel), []).append(c)
    ctx.need(emitted, "no relocation is constructed with a non-zero addend any more (x86_64 rel32 expected)")
    for (name, rel), calls in sorted(emitted.items()):
        cands = [r for r in cls_by_name[name] if r.rel == rel] or cls_by_name[name]
        r = cands[0]
        fn = r.own
        reads = fn is not None and any(isinstance(n, ast.Attribute) and n.attr == "addend" and norm(n.value) == "self" for n in ast.walk(fn))
        ctx.ob("C11.R1", r.site, "%s is emitted with addend %s, so its value computation adds self.addend" % (name, norm(calls[0].keywords[-1].value)), reads, construct="reads-addend:" + name, node=calls[0])
        if reads:
            rets = [n.value for n in walk_no_nested(fn) if isinstance(n, ast.Return)]
            env = sym.single_assign_env(fn)
            a = sym.affine(rets[0], env) if rets else None
            ctx.ob("C11.R1", r.site, "value = sym_value - reloc_value + addend", a == sym.atom("sym_value") - sym.atom("reloc_value") + sym.atom("self.addend"), construct="formula:" + name, detail=repr(a))
    for q in ("Linker._do_relocation", "Linker.do_relaxations"):
        fn = ctx.fn(L, q)
        ctor = [c for c in calls_in(fn, "rcls")]
        ok = bool(ctor) and any(k.arg == "addend" and norm(k.value) == "relocation.addend" for k in ctor[0].keywords) and any(k.arg == "offset" and norm(k.value) == "relocation.offset" for k in ctor[0].keywords)
        ctx.ob("C11.R1", "%s:%s" % (L, q), "the relocation object is built with the entry's offset and addend", ok, construct="ctor-addend")
        rc = [v for v in assigned_values(fn, "rcls")]
        ctx.ob("C11.R1", "%s:%s" % (L, q), "the relocation class is looked up by the entry's type in the isa's relocation map", bool(rc) and norm(rc[0]) == "self.dst.arch.isa.relocation_map[relocation.reloc_type]", construct="class-lookup")
    sh = ctx.fn(ENC, "Relocation.shifted")
    ctx.ob("C11.R1", ENC + ":Relocation.shifted", "a shifted copy keeps symbol and addend and adds the shift to the offset", "type(self)(self.symbol_name, offset=self.offset + offset, addend=self.addend)" in norm(sh), construct="shifted")
    # central addend handling (known finding on the pinned tree)
    dr = ctx.fn(L, "Linker._do_relocation")
    ap = [c for c in calls_in(dr, "apply")]
    all_read = all(r.own is None or any(isinstance(n, ast.Attribute) and n.attr == "addend" for n in ast.walk(r.own)) for r in rs)
    central = bool(ap) and "addend" in attrs_in(ap[0].args[0]) if ap else False
    central = central or any("addend" in attrs_in(v) for v in assigned_values(dr, "sym_value"))
    ctx.ob("C11.R1", L + ":Linker._do_relocation", "the addend of a relocation entry is added to the symbol value (centrally, or by every relocation type itself)", central or all_read, construct="addend-honoured",
           detail="apply() receives the bare symbol value and %d of %d relocation types never read self.addend" % (sum(1 for r in rs if r.own is not None and not any(isinstance(n, ast.Attribute) and n.attr == "addend" for n in ast.walk(r.own))), len(rs)))
    # ---- R2 ----------------------------------------------------------------
    site = L + ":Linker._do_relocation"
    env = sym.single_assign_env(dr)
    ok = any(norm(v) == "self.get_symbol_value(relocation.symbol_id)" for v in assigned_values(dr, "sym_value"))
    ctx.ob("C11.R2", site, "sym_value is the value of the entry's own symbol", ok, construct="sym-value")
    ok = any(sym.affine(v, {}) == sym.atom("section.address") + sym.atom("relocation.offset") for v in assigned_values(dr, "reloc_value")) and any(norm(v) == "self.dst.get_section(relocation.section)" for v in assigned_values(dr, "section"))
    ctx.ob("C11.R2", site, "reloc_value = address of the entry's section + its offset", ok, construct="reloc-value")
    ok = bool(ap) and [norm(a) for a in ap[0].args] == ["sym_value", "data", "reloc_value"]
    ctx.ob("C11.R2", site, "apply(sym_value, data, reloc_value) - in that order", ok, construct="apply-args")
    b, e = assigned_values(dr, "begin"), assigned_values(dr, "end")
    ok = bool(b) and norm(b[0]) == "relocation.offset" and bool(e) and sym.affine(e[0], {}) == sym.atom("begin") + sym.atom("size") and any(norm(v) == "reloc.size()" for v in assigned_values(dr, "size"))
    ctx.ob("C11.R2", site, "the patched bytes are [offset, offset + size of the relocation's token)", ok, construct="slice")
    rd = [v for v in assigned_values(dr, "data") if isinstance(v, ast.Subscript)]
    wr = [n for n in walk_no_nested(dr) if isinstance(n, ast.Assign) and isinstance(n.targets[0], ast.Subscript) and norm(n.targets[0]) == "section.data[begin:end]"]
    ctx.ob("C11.R2", site, "bytes are read from and written back to the same slice of the same section", bool(rd) and norm(rd[0]) == "section.data[begin:end]" and bool(wr) and norm(wr[0].value) == "data", construct="read-write-back")
    dl = ctx.fn(L, "Linker.do_relocations")
    lp = [n for n in walk_no_nested(dl) if isinstance(n, ast.For)]
    ctx.ob("C11.R2", L + ":Linker.do_relocations", "every relocation entry of the output is applied", bool(lp) and norm(lp[0].iter) == "self.dst.relocations" and any(last_name(c) == "_do_relocation" for c in calls_in(lp[0])), construct="all-entries")
    gv = ctx.fn(L, "Linker.get_symbol_value")
    ctx.ob("C11.R2", L + ":Linker.get_symbol_value", "symbol values come from ObjectFile.get_symbol_id_value (which raises for undefined symbols)", "return self.dst.get_symbol_id_value(symbol_id)" in norm(gv), construct="value-source")
    sz = ctx.fn(ENC, "Relocation.size")
    ctx.ob("C11.R2", ENC + ":Relocation.size", "relocation size = token size in bytes", "cls.token.Info.size // 8" in norm(sz), construct="size")
    # ---- R3 siblings ---------------------------------------------------------
    fam = [("BImm20Relocation", RV), ("CBImm11Relocation", RVC), ("CBlImm11Relocation", RVC)]
    ref = None
    for name, rel in fam:
        fn = ctx.fn(rel, name + ".apply")
        body = sorted(siblings.normalised(fn.body))
        if ref is None:
            ref = (name, body)
        else:
            d = siblings.first_difference(ref[1], body)
            ctx.ob("C11.R3", "%s:%s.apply" % (rel, name), "%s.apply encodes the J-type immediate exactly like %s.apply" % (name, ref[0]), d is None, construct="iso:" + name, detail=d)
    base_apply = siblings.normalised(ctx.fn(ENC, "Relocation.apply").body)
    base_norm = base_apply[:-2] + ["return token.encode()"] if base_apply[-2:] == ["data = token.encode()", "return data"] else base_apply
    for r in rs:
        if "apply" in r.methods and "calc" in r.methods:
            body = siblings.normalised(r.methods["apply"].body)
            body_n = body[:-2] + ["return token.encode()"] if body[-2:] == ["data = token.encode()", "return data"] else body
            d = siblings.first_difference(base_norm, body_n)
            ctx.ob("C11.R3", r.site + ".apply", "this copy of the default apply() stores calc() into the declared field of the token", d is None, construct="default-copy:" + r.name, detail=d)
    ok = "setattr(token, self.field, self.calc(sym_value, reloc_value))" in base_apply and "token = self.token.from_data(data)" in base_apply
    ctx.ob("C11.R3", ENC + ":Relocation.apply", "default apply(): decode token from the bytes, set field := calc(sym_value, reloc_value), re-encode", ok, construct="default-apply")
    # every relocation with a `field` names an existing field of its token
    for r in rs:
        if r.field is not None and r.token is not None:
            ctx.ob("C11.R3", r.site, "field `%s` exists in token %s" % (r.field, r.token.name), r.field in r.token.fields, construct="field-exists:" + r.name)
    # ---- R4 hi/lo pairs ------------------------------------------------------------
    def hi_shape(fn, var):
        ifs = [n for n in walk_no_nested(fn) if isinstance(n, ast.If)]
        if len(ifs) != 1:
            return None
        i = ifs[0]
        return i
    for hi, lo, var in (("Abs32Imm20Relocation", "Abs32Imm12Relocation", "sym_value"), ("RelImm20Relocation", "RelImm12Relocation", "offset")):
        fn = ctx.fn(RV, hi + ".apply")
        site = "%s:%s.apply" % (RV, hi)
        i = hi_shape(fn, var)
        if i is None:
            ctx.undecided("C11.R4", site, "carry test not recognised")
            continue
        t = i.test
        form = norm(t)
        ok_test = form in ("%s & 2048 == 0" % var, "not %s & 2048" % var, "%s >> 11 & 1 == 0" % var)
        inv = form in ("%s & 2048" % var, "%s & 2048 != 0" % var, "%s >> 11 & 1" % var, "%s & 4095 >= 2048" % var)
        ctx.ob("C11.R4", site, "the carry is decided by bit 11 of the value alone (the low part `& 0xFFF` is sign-extended by the instruction)", ok_test or inv, construct="carry-test", node=i, detail=form)
        plain, carry = (i.body, i.orelse) if ok_test else (i.orelse, i.body)
        ptxt, ctxt = [norm(s) for s in plain], [norm(s) for s in carry]
        ok_plain = ptxt == ["bv[12:32] = %s >> 12 & 1048575" % var]
        ok_carry = ctxt in (["%s -= 4294963200" % var, "bv[12:32] = %s >> 12 & 1048575" % var], ["%s += 4096" % var, "bv[12:32] = %s >> 12 & 1048575" % var], ["bv[12:32] = (%s >> 12) + 1 & 1048575" % var])
        ctx.ob("C11.R4", site, "without carry: bits 12..31 of the value; with carry: the same plus one (mod 2^20)", ok_plain and ok_carry, construct="carry-arith", node=i, detail="%s / %s" % (ptxt, ctxt))
        lofn = ctx.fn(RV, lo + ".calc")
        rets = [n.value for n in walk_no_nested(lofn) if isinstance(n, ast.Return)]
        ok = bool(rets) and isinstance(rets[0], ast.BinOp) and isinstance(rets[0].op, ast.BitAnd) and try_const(rets[0].right) == 0xFFF
        ctx.ob("C11.R4", "%s:%s.calc" % (RV, lo), "the low part is the value & 0xFFF", ok, construct="low-part")
    a = siblings.normalised([hi_shape(ctx.fn(RV, "Abs32Imm20Relocation.apply"), "")] if hi_shape(ctx.fn(RV, "Abs32Imm20Relocation.apply"), "") else [], {"sym_value": "V"})
    b = siblings.normalised([hi_shape(ctx.fn(RV, "RelImm20Relocation.apply"), "")] if hi_shape(ctx.fn(RV, "RelImm20Relocation.apply"), "") else [], {"offset": "V"})
    d = siblings.first_difference(a, b)
    ctx.ob("C11.R4", RV + ":Abs32Imm20Relocation/RelImm20Relocation", "absolute and pc-relative high parts use the same carry logic", d is None and bool(a), construct="hi-siblings", detail=d)
    # pc-relative pair: hi is relative to the auipc, lo to the following instruction (offset + 4)
    lo = ctx.fn(RV, "RelImm12Relocation.calc")
    off = [v for v in assigned_values(lo, "offset")]
    ctx.ob("C11.R4", RV + ":RelImm12Relocation.calc", "the low part of a pc-relative pair is taken 4 bytes after the auipc: offset = sym - reloc + 4", bool(off) and sym.affine(off[0], {}) == sym.atom("sym_value") - sym.atom("reloc_value") + sym.const(4), construct="lo-bias")
    # ---- R5 direction ----------------------------------------------------------------------
    from ..core import derives
    for r in rs:
        fn = r.own
        if fn is None:
            continue
        ps = params_of(fn)
        if "reloc_value" not in ps:
            continue
        found = False
        for n in walk_no_nested(fn):
            if isinstance(n, ast.BinOp) and isinstance(n.op, ast.Sub):
                la, ra = derives(fn, n.left), derives(fn, n.right)
                ls, lr = "param:sym_value" in la, "param:reloc_value" in la
                rs_, rr = "param:sym_value" in ra, "param:reloc_value" in ra
                if ls and rr and not lr and not rs_:
                    ctx.ob("C11.R5", r.site + "." + fn.name, "distance is symbol minus site", True, construct="direction", node=n)
                    found = True
                    break
                if lr and rs_ and not ls and not rr:
                    ctx.ob("C11.R5", r.site + "." + fn.name, "distance is symbol minus site", False, construct="direction", node=n, detail=norm(n))
                    found = True
                    break
        if not found:
            rets = [n for n in walk_no_nested(fn) if isinstance(n, ast.Return) and n.value is not None]
            if fn.name == "calc" and rets:
                at = derives(fn, rets[0].value)
                if "param:reloc_value" not in at:
                    ctx.ob("C11.R5", r.site + ".calc", "an absolute relocation's value is computed from the symbol value", "param:sym_value" in at, construct="absolute", node=rets[0])
