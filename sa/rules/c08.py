"""C08 - encodings: internal consistency of the declared bit patterns (no
reference decoder is available in this family, so agreement with the
architecture manual is NOT decided)."""
import ast

from ..core import norm, try_const as _tc8
from .. import relocs

ARCHS_QUICK = ["arm", "arm:thumb", "riscv", "riscv:rvc", "x86_64", "msp430", "avr", "m68k", "mips", "or1k", "xtensa", "microblaze"]


def token_models(project):
    base = project.cls("ppci/arch/token.py", "Token")
    out = {}
    for c in project.subclasses(base):
        out.setdefault(c.name, []).append(relocs.TokenModel(project, c))
    return out


def pick_token(models, name, file_hint):
    cands = models.get(name, [])
    if not cands:
        return None
    if file_hint:
        pkg = "ppci/" + file_hint.rsplit("/", 1)[0]
        for c in cands:
            if c.cdef._module.rel.startswith(pkg):
                return c
    return cands[0]


def run(ctx):
    ctx.rule("C08.R1", "within one instruction the fields named in `patterns` occupy pairwise disjoint bits of their token", floor=400)
    ctx.rule("C08.R2", "every operand in the syntax reaches the bytes: through a pattern, a nested constructor, or an encode/set_user_patterns/relocations override", floor=400)
    ctx.rule("C08.R3", "every pattern field exists on one of the instruction's tokens", floor=400)
    ctx.rule("C08.R4", "no two instructions of one ISA have the same tokens, the same fixed bits and the same variable fields but a different syntax", floor=8)
    ctx.rule("C08.R5", "the parts of a concatenated token field are disjoint and inside the token", floor=30)
    dump = ctx.isa()
    ctx.need(not dump["errors"], "ISA dump reported errors: %s" % dump["errors"][:2])
    models = token_models(ctx.project)
    done_tokens = set()
    for arch in ARCHS_QUICK:
        a = dump["archs"][arch]
        seen_enc = {}
        by_uid = {c["uid"]: c for c in a["instructions"] + a["constructors"]}
        single_reg_classes = {rc["typ"] for rc in a["register_classes"] if len(rc["registers"]) == 1}
        for ins in a["instructions"] + a["constructors"]:
            site = "ppci/%s:%s" % (ins["file"], ins["name"])
            if ins["uid"] in done_tokens:
                continue
            done_tokens.add(ins["uid"])
            toks = [pick_token(models, t, ins["file"]) for t in ins["tokens"]]
            is_instruction = ins in a["instructions"]
            # tokens of nested constructors also belong to the instruction's token sequence
            for o in ins["operands"]:
                for uid in o.get("cls_uids") or []:
                    sub = by_uid.get(uid)
                    if sub:
                        toks += [pick_token(models, t, sub["file"]) for t in sub["tokens"]]
            pats = ins["patterns"] or []
            # R3 + R1
            used = {}
            for p in pats:
                f = p.get("field")
                if f is None:
                    continue
                owner = None
                for t in toks:
                    if t is not None and f in t.fields:
                        owner = t
                        break
                if is_instruction and toks and all(t is not None for t in toks):
                    ctx.ob("C08.R3", site, "pattern field `%s` is a field of one of the tokens %s" % (f, ins["tokens"]), owner is not None, construct="field:%s.%s" % (ins["name"], f))
                if owner is not None:
                    used.setdefault(owner.name, []).append((f, owner.fields[f]))
            for tname, fl in used.items():
                bits = {}
                clash = None
                for f, ranges in fl:
                    for lo, hi in ranges:
                        for b in range(lo, hi):
                            if b in bits and bits[b] != f:
                                clash = (bits[b], f, b)
                            bits[b] = f
                ctx.ob("C08.R1", site, "fields %s of %s do not overlap" % (sorted({f for f, _ in fl}), tname), clash is None, construct="overlap:%s" % ins["name"], detail="fields %s and %s share bit %d" % clash if clash else None)
            # R2
            patops = {p.get("operand") for p in pats if p.get("operand")}
            opinfo = {o["name"]: o for o in ins["operands"]}
            for e in ins["syntax"]:
                if not isinstance(e, dict):
                    continue
                o = opinfo.get(e["op"])
                if o is None:
                    continue
                implied = isinstance(o["cls"], str) and o["cls"] in single_reg_classes
                consumed = implied or e["op"] in patops or o["attr"] in patops or bool(o.get("cls_uids")) or ins["has_user_patterns"] or ins["has_encode"] or ins["has_relocations"] or ins["has_render"]
                ctx.ob("C08.R2", site, "syntax operand `%s` is encoded (pattern, nested constructor, or a custom encode/relocation)" % e["op"], consumed, construct="consumed:%s.%s" % (ins["name"], e["op"]))
        # R4 within the ISA's instruction list
        for ins in a["instructions"]:
            if not ins["syntax"] or ins["patterns"] is None or ins["has_user_patterns"] or ins["has_encode"] or ins["has_render"] or ins["has_relocations"]:
                continue
            fixed = tuple(sorted((p["field"], p["fixed"]) for p in ins["patterns"] if "fixed" in p))
            var = tuple(sorted((p["field"], p.get("transform")) for p in ins["patterns"] if "operand" in p))
            nested = tuple(sorted(str(o.get("cls_uids")) for o in ins["operands"] if o.get("cls_uids")))
            key = (tuple(ins["tokens"]), fixed, var, nested)
            syn = tuple(e if isinstance(e, str) else "<%s>" % e["op"] for e in ins["syntax"] if not (isinstance(e, str) and e.isspace()))
            if key in seen_enc and seen_enc[key][0] != syn and frozenset((syn[0], seen_enc[key][0][0])) in ALIASES:
                continue
            if key in seen_enc and seen_enc[key][0] != syn:
                other = seen_enc[key]
                ctx.ob("C08.R4", "ppci/%s:%s" % (ins["file"], ins["name"]), "encoding of `%s` differs from that of `%s`" % (" ".join(syn), " ".join(other[0])), False,
                       construct="same-encoding:%s:%s" % (arch, "|".join(sorted([" ".join(syn), " ".join(other[0])]))), detail="both: tokens %s fixed %s" % (ins["tokens"], fixed))
            else:
                seen_enc.setdefault(key, (syn, ins["name"]))
        ctx.ob("C08.R4", "isa:" + arch, "%d table-encoded instructions of %s compared pairwise for identical encodings" % (len(seen_enc), arch), True, construct="compared:" + arch)
    # R5
    for name, ms in sorted(models.items()):
        for t in ms:
            for f, ranges in t.fields.items():
                if len(ranges) > 1 or t.size:
                    bits = [b for lo, hi in ranges for b in range(lo, hi)]
                    ok = len(bits) == len(set(bits)) and (t.size is None or all(0 <= b < t.size for b in bits))
                    ctx.ob("C08.R5", "%s:%s" % (t.cdef._module.rel, t.name), "field `%s` %s: parts disjoint and inside the %s-bit token" % (f, ranges, t.size), ok, construct="field-bits:%s.%s" % (t.name, f))
    _x86_register_fields(ctx)
    _arm_reference(ctx)
    _rex_emission(ctx)
    _transforms(ctx)
    _arm_shift_amounts(ctx)
    _thumb_scaled_offsets(ctx)
    _x86_high_byte_registers(ctx)
    _x86_opcode_extensions(ctx)
    _x86_factory_widths(ctx)
    _mips_opcodes(ctx)
    _m68k_long_immediates(ctx)
    arm_addressing_bits(ctx, "C08.R9")


# mnemonic pairs that are architecturally the same instruction (aliases)
ALIASES = {frozenset(p) for p in (("jnz", "jne"), ("jz", "jeq"), ("db", "."), ("dw", "."), ("dd", "."), ("dq", "."), ("dcd", "."), ("dcd", "dd"), ("jnc", "jlo"), ("jc", "jhs"))}


def _x86_register_fields(ctx):
    """R6: x86-64 splits a register number into a 3-bit ModRM/SIB/opcode field and a REX bit.  The special
    encodings (rm=100 -> SIB follows, rm=101 with mod=00 -> disp32/RIP) are properties of the 3-bit field, so
    r12/r13 need the same treatment as rsp/rbp; a 3-bit field may only receive a value < 8."""
    from ..core import try_const, last_name
    ctx.rule("C08.R6", "x86-64: encoding special cases are decided on the 3-bit register field (regbits), and a 3-bit register field only receives regbits / num & 7 / the number of a register class without extended registers", floor=20)
    R = "ppci/arch/x86_64/registers.py"
    rm = ctx.project.module(R)
    maxnum = {}
    for st in rm.tree.body:
        if isinstance(st, ast.Assign) and isinstance(st.value, ast.Call) and isinstance(st.value.func, ast.Name) and len(st.value.args) >= 2:
            n = try_const(st.value.args[1])
            if isinstance(n, int):
                maxnum[st.value.func.id] = max(maxnum.get(st.value.func.id, 0), n)
    ctx.need(maxnum.get("Register64", 0) >= 15 and "Register16" in maxnum, "x86_64 register numbers not read (%s)" % maxnum)
    n_cmp = n_set = 0
    for rel in ("ppci/arch/x86_64/instructions.py", "ppci/arch/x86_64/sse2_instructions.py", "ppci/arch/x86_64/x87_instructions.py"):
        mod = ctx.project.module(rel)
        for cls in [c for c in ast.walk(mod.tree) if isinstance(c, ast.ClassDef)]:
            opcls = {}
            for st in cls.body:
                if isinstance(st, ast.Assign) and isinstance(st.value, ast.Call) and norm(st.value.func) == "Operand" and len(st.value.args) >= 2:
                    opcls[norm(st.targets[0])] = norm(st.value.args[1])
            # inherited operand declarations
            if not hasattr(cls, "_module"):
                cls._module = mod
            for b in ctx.project.mro(cls)[1:]:
                for st in getattr(b, "body", []):
                    if isinstance(st, ast.Assign) and isinstance(st.value, ast.Call) and norm(st.value.func) == "Operand" and len(st.value.args) >= 2:
                        opcls.setdefault(norm(st.targets[0]), norm(st.value.args[1]))
            site = "%s:%s" % (rel, cls.name)
            for fn in [f for f in cls.body if isinstance(f, ast.FunctionDef)]:
                for n in ast.walk(fn):
                    if isinstance(n, ast.Compare) and len(n.ops) == 1:
                        sides = [n.left, n.comparators[0]]
                        regside = [s for s in sides if isinstance(s, ast.Attribute) and s.attr in ("num", "regbits")]
                        const = [s for s in sides if isinstance(try_const(s), int)]
                        if regside and const:
                            n_cmp += 1
                            ctx.ob("C08.R6", site, "`%s`: a register is compared with an encoding constant through its 3-bit field (r12/r13 encode like rsp/rbp in ModRM and need the same SIB / displacement form)" % norm(n),
                                   regside[0].attr == "regbits", construct="special-case:%s.%s:%s" % (cls.name, fn.name, norm(n)), node=n)
                    val = fld = None
                    if isinstance(n, ast.Call) and last_name(n) == "set_field" and len(n.args) == 2 and try_const(n.args[0]) in ("reg", "rm", "base", "index"):
                        fld, val = try_const(n.args[0]), n.args[1]
                    elif isinstance(n, ast.Assign) and isinstance(n.targets[0], ast.Attribute) and n.targets[0].attr in ("reg", "rm", "base", "index") and norm(n.targets[0].value).startswith("tokens"):
                        fld, val = n.targets[0].attr, n.value
                    if val is None or not any(isinstance(x, ast.Attribute) and x.attr in ("num", "regbits") for x in ast.walk(val)):
                        continue
                    n_set += 1
                    ok = None
                    if isinstance(val, ast.Attribute) and val.attr == "regbits":
                        ok = True
                    elif isinstance(val, ast.BinOp) and isinstance(val.op, ast.BitAnd) and 0 <= (try_const(val.right) if try_const(val.right) is not None else -1) <= 7:
                        ok = True
                    elif isinstance(val, ast.Attribute) and val.attr == "num":
                        owner = norm(val.value).replace("self.", "")
                        rc = opcls.get(owner)
                        ok = rc in maxnum and maxnum[rc] <= 7
                        if rc is None or rc not in maxnum:
                            ctx.undecided("C08.R6", site, "register class of `%s` not resolved" % norm(val))
                            continue
                    if ok is None:
                        ctx.undecided("C08.R6", site, "value `%s` of 3-bit field %s not interpreted" % (norm(val), fld))
                        continue
                    ctx.ob("C08.R6", site, "3-bit field `%s` receives `%s`, a value below 8" % (fld, norm(val)), ok, construct="field3:%s.%s:%s" % (cls.name, fld, norm(val)), node=n)
    ctx.need(n_cmp >= 3 and n_set >= 15, "x86_64 register field sites not found (%d comparisons, %d field stores)" % (n_cmp, n_set))


# ARM A32 operand placement per the ARM Architecture Reference Manual (ARMv7-A, A8.8): class -> operand -> (lo, hi)
ARM_REFERENCE = {
    "Mul1": {"rd": (16, 20), "rn": (0, 4), "rm": (8, 12)},                      # MUL   cond 0000000S Rd 0000 Rm 1001 Rn
    "Sdiv": {"rd": (16, 20), "rn": (0, 4), "rm": (8, 12)},                      # SDIV  cond 01110001 Rd 1111 Rm 0001 Rn
    "Udiv": {"rd": (16, 20), "rn": (0, 4), "rm": (8, 12)},                      # UDIV  cond 01110011 Rd 1111 Rm 0001 Rn
    "Mls": {"rd": (16, 20), "ra": (12, 16), "rm": (8, 12), "rn": (0, 4)},       # MLS   cond 00000110 Rd Ra Rm 1001 Rn
    "ShiftBase": {"rd": (12, 16), "rn": (0, 4), "rm": (8, 12)},                 # LSL (register) cond 0001101S 0000 Rd Rm 0001 Rn   (rn = value, rm = amount)
    "OpRegRegImm": {"rd": (12, 16), "rn": (16, 20)},                            # data processing (immediate)
    "LdrStrBase": {"rn": (16, 20), "rt": (12, 16)},                             # LDR/STR (immediate)
    "Ldrsb": {"rn": (16, 20), "rt": (12, 16)},
    "Ldrh_imm": {"rn": (16, 20), "rt": (12, 16)},
    "Ldrsh_imm": {"rn": (16, 20), "rt": (12, 16)},
    "Ldrsh_reg": {"rn": (16, 20), "rt": (12, 16), "rm": (0, 4)},
    "Adr": {"rd": (12, 16)},
    "Ldr3": {"rt": (12, 16)},
    "McrBase": {"crm": (0, 4), "opc2": (5, 8), "coproc": (8, 12), "rt": (12, 16), "crn": (16, 20), "opc1": (21, 24)},  # MCR/MRC cond 1110 opc1 L CRn Rt coproc opc2 1 CRm
}


def _arm_reference(ctx):
    """R7: hand-written ARM encoders against the reference placement of their operands"""
    from ..core import try_const
    ctx.rule("C08.R7", "ARM (A32) instructions with a hand-written encode(): every operand is stored into the bit field the architecture manual assigns to it (reference table in sa/rules/c08.py)", floor=30)
    rel = "ppci/arch/arm/arm_instructions.py"
    mod = ctx.project.module(rel)
    tokm = relocs.TokenModel(ctx.project, ctx.project.cls("ppci/arch/arm/isa.py", "ArmToken"))
    n_cls = 0
    for cls in [c for c in mod.tree.body if isinstance(c, ast.ClassDef)]:
        enc = [f for f in cls.body if isinstance(f, ast.FunctionDef) and f.name == "encode"]
        if not enc:
            continue
        ref = ARM_REFERENCE.get(cls.name)
        if ref is None:
            ctx.saw("classes", "%s:%s (custom encode, not in the reference table)" % (rel, cls.name))
            continue
        n_cls += 1
        placed = {}
        for n in ast.walk(enc[0]):
            if not isinstance(n, ast.Assign):
                continue
            t = n.targets[0]
            rng = None
            if isinstance(t, ast.Subscript) and norm(t.value).startswith("tokens"):
                sl = t.slice
                if isinstance(sl, ast.Slice):
                    lo, hi = try_const(sl.lower), try_const(sl.upper)
                    rng = (lo, hi) if isinstance(lo, int) and isinstance(hi, int) else None
                elif isinstance(try_const(sl), int):
                    rng = (try_const(sl), try_const(sl) + 1)
            elif isinstance(t, ast.Attribute) and norm(t.value).startswith("tokens") and t.attr in tokm.fields and len(tokm.fields[t.attr]) == 1:
                rng = tuple(tokm.fields[t.attr][0])
            if rng is None:
                continue
            for x in ast.walk(n.value):
                if isinstance(x, ast.Attribute) and isinstance(x.value, ast.Name) and x.value.id == "self" and x.attr in ref:
                    placed.setdefault(x.attr, []).append(rng)
        site = "%s:%s" % (rel, cls.name)
        for op, want in sorted(ref.items()):
            got = placed.get(op, [])
            ctx.ob("C08.R7", site, "operand `%s` of %s is encoded in bits [%d:%d)" % (op, cls.name, want[0], want[1]), bool(got) and all(g == want for g in got), construct="arm-field:%s.%s" % (cls.name, op),
                   detail="stored to %s" % (got or "no bit field"))
    ctx.need(n_cls >= 12, "ARM hand-written encoders not found (%d)" % n_cls)


def _rex_emission(ctx):
    """R8: the REX prefix carries four payload bits (W, R, X, B); an encoder that omits the prefix when it is "not
    needed" must look at all four"""
    import re
    ctx.rule("C08.R8", "x86-64: an encoder that emits the REX prefix conditionally decides on all four payload bits W, R, X and B (X extends the SIB index register)", floor=1)
    n = 0
    for rel in ("ppci/arch/x86_64/instructions.py", "ppci/arch/x86_64/sse2_instructions.py", "ppci/arch/x86_64/x87_instructions.py"):
        mod = ctx.project.module(rel)
        for cls in [c for c in ast.walk(mod.tree) if isinstance(c, ast.ClassDef)]:
            toks = [st.value for st in cls.body if isinstance(st, ast.Assign) and norm(st.targets[0]) == "tokens" and isinstance(st.value, ast.List)]
            if not toks:
                continue
            names = [norm(e) for e in toks[0].elts]
            if "RexToken" not in names:
                continue
            ri = names.index("RexToken")
            for fn in [f for f in cls.body if isinstance(f, ast.FunctionDef) and f.name == "encode"]:
                env = {}
                for st in ast.walk(fn):
                    if isinstance(st, ast.Assign) and isinstance(st.targets[0], ast.Name) and norm(st.value) == "tokens[%d]" % ri:
                        env[st.targets[0].id] = "tokens[%d]" % ri
                for i in [x for x in ast.walk(fn) if isinstance(x, ast.If)]:
                    emits = any(isinstance(c, ast.Call) and norm(c.func) in ("tokens[%d].encode" % ri,) + tuple(k + ".encode" for k in env) for b in i.body for c in ast.walk(b))
                    if not emits:
                        continue
                    n += 1
                    t = norm(i.test)
                    for k in env:
                        t = re.sub(r"\b%s\b" % k, "tokens[%d]" % ri, t)
                    whole = ("tokens[%d][0:4]" % ri) in t or re.search(r"tokens\[%d\]\s*(\.value)?\s*(!=|>|&)" % ri, t) is not None
                    bits = {b for b in "wrxb" if ("tokens[%d].%s" % (ri, b)) in t}
                    ctx.ob("C08.R8", "%s:%s.encode" % (rel, cls.name), "the REX prefix is emitted whenever any of W, R, X, B is set", whole or bits == set("wrxb"), construct="rex-all-bits:%s" % cls.name, node=i,
                           detail="test `%s` looks at %s" % (norm(i.test), "the whole low nibble" if whole else sorted(bits)))
    ctx.need(n >= 1, "conditional REX emission not found")


# What the architecture manuals store in a field that ppci fills through a Transform of the operand value:
#   AVR instruction set manual: ADIW/SBIW dd = (Rd - 24) / 2; MOVW dddd = Rd / 2; LDI/CPI/... dddd = Rd - 16
#   MSP430 family user's guide, constant generators CG1/CG2: R2 As=10 -> 4, As=11 -> 8; R3 As=00 -> 0, 01 -> 1, 10 -> 2, 11 -> -1
#   Xtensa ISA: L16UI/L16SI/S16I imm8 = offset / 2; L32I/S32I imm8 = offset / 4; L32I.N/S32I.N imm4 = offset / 4; SEXT t = bit - 7
_CG = {-1: (3, 3), 0: (3, 0), 1: (3, 1), 2: (3, 2), 4: (2, 2), 8: (2, 3)}
TRANSFORM_REFERENCE = {
    ("ppci/arch/avr/instructions.py", "Patch0r"): {v: (v - 24) // 2 for v in (24, 26, 28, 30)},
    ("ppci/arch/avr/instructions.py", "PatchDiv2"): {v: v // 2 for v in range(0, 32, 2)},
    ("ppci/arch/avr/instructions.py", "PatchedBy16"): {v: v - 16 for v in range(16, 32)},
    ("ppci/arch/msp430/instructions.py", "RegConstTransform"): {v: r for v, (r, a) in _CG.items()},
    ("ppci/arch/msp430/instructions.py", "AsConstTransform"): {v: a for v, (r, a) in _CG.items()},
    ("ppci/arch/arm/arm_instructions.py", "RightShiftAmount"): {v: v % 32 for v in range(1, 33)},   # ARM ARM A8.4.1 DecodeImmShift
    ("ppci/arch/xtensa/instructions.py", "Shift1"): {v: v // 2 for v in range(0, 512, 2)},
    ("ppci/arch/xtensa/instructions.py", "Shift2"): {v: v // 4 for v in range(0, 1024, 4)},
    ("ppci/arch/xtensa/instructions.py", "Add7Transform"): {v: v - 7 for v in range(7, 23)},
}
TRANSFORM_ELSEWHERE = {("ppci/arch/arm/arm_instructions.py", "ArmExpand"): "encode_imm32 is decided by C10.R8"}


def _transforms(ctx):
    from .. import minieval
    ctx.rule("C08.R10", "operand value transforms: the field value a Transform computes from the printed operand is the one the architecture manual assigns (reference table in sa/rules/c08.py; forwards() evaluated by sa/minieval on every accepted operand value), and backwards() inverts it", floor=300)
    found = 0
    for mod in [m for r, m in sorted(ctx.project.modules.items()) if r.startswith("ppci/arch/")]:
        classes = [c for c in mod.tree.body if isinstance(c, ast.ClassDef) and any(norm(b).split(".")[-1] == "Transform" for b in c.bases)]
        if not classes:
            continue
        glob = {}
        for st in mod.tree.body:
            if isinstance(st, ast.Assign) and len(st.targets) == 1 and isinstance(st.targets[0], ast.Name):
                try:
                    glob[st.targets[0].id] = minieval.ev(st.value, glob)
                except minieval.Undecidable:
                    pass
        funcs = {f.name: f for f in mod.tree.body if isinstance(f, ast.FunctionDef)}
        for cls in classes:
            key = (mod.rel, cls.name)
            site = "%s:%s" % key
            if key in TRANSFORM_ELSEWHERE:
                ctx.saw("transforms", "%s (%s)" % (site, TRANSFORM_ELSEWHERE[key]))
                continue
            found += 1
            ref = TRANSFORM_REFERENCE.get(key)
            ctx.ob("C08.R10", site, "the transform has an entry in the reference table", ref is not None, construct="transform-known:" + cls.name)
            if ref is None:
                continue
            env = dict(glob)
            for st in cls.body:
                if isinstance(st, ast.Assign) and len(st.targets) == 1 and isinstance(st.targets[0], ast.Name):
                    try:
                        v = minieval.ev(st.value, env)
                    except minieval.Undecidable:
                        continue
                    env[st.targets[0].id] = v
                    env["self." + st.targets[0].id] = v
                    env[cls.name + "." + st.targets[0].id] = v
            env["__funcs__"] = funcs
            env["__globals__"] = dict(glob)
            fw = [f for f in cls.body if isinstance(f, ast.FunctionDef) and f.name == "forwards"]
            bw = [f for f in cls.body if isinstance(f, ast.FunctionDef) and f.name == "backwards"]
            ctx.need(len(fw) == 1, "%s: forwards() not found" % site)
            for v, want in sorted(ref.items()):
                try:
                    got = minieval.call(fw[0], [v], env)
                    det = "forwards(%d) = %r" % (v, got)
                except minieval.Rejected as e:
                    got, det = None, "forwards(%d) rejects the operand (%s)" % (v, e)
                except minieval.Undecidable as e:
                    ctx.undecided("C08.R10", site, "forwards(%d): %s" % (v, e))
                    continue
                ctx.ob("C08.R10", site, "operand value %d is stored as %d" % (v, want), got == want, construct="transform:%s:%d" % (cls.name, v), node=fw[0], detail=det)
                if bw and got == want:
                    try:
                        back = minieval.call(bw[0], [got], env)
                    except minieval.Undecidable as e:
                        ctx.undecided("C08.R10", site, "backwards(%d): %s" % (got, e))
                        continue
                    ctx.ob("C08.R10", site, "backwards(%d) gives the operand value %d back (the disassembler prints what was assembled)" % (got, v), back == v, construct="transform-back:%s:%d" % (cls.name, v), node=bw[0], detail="backwards(%d) = %r" % (got, back))
    ctx.need(found >= 8, "Transform subclasses under ppci/arch: %d found, 8 confirmed by reading" % found)


def _arm_shift_amounts(ctx):
    """R11.  ARM ARM A8.4.1 DecodeImmShift: for LSR and ASR the 5-bit field holds the amount 1..31, and 0 means 32; `lsr #0` does not
    exist (an assembler turns it into lsl #0).  For LSL the field is the amount 0..31.  A constructor that stores the printed amount
    of lsr/asr unchanged prints `lsr 0` for bytes that shift by 32."""
    from .. import minieval
    ctx.rule("C08.R11", "ARM shifted register operands: `lsr n` / `asr n` accept n in 1..32 and store n mod 32 (0 encodes 32), everything else is rejected; `lsl n` stores n", floor=5)
    rel = "ppci/arch/arm/arm_instructions.py"
    mod = ctx.project.module(rel)
    env0 = minieval.module_env(mod.tree)
    for cname, kind in (("ShiftLsr", "right"), ("ShiftAsr", "right"), ("ShiftLsl", "left")):
        cls = ctx.cls(rel, cname)
        site = "%s:%s" % (rel, cname)
        pat = [n.value for n in cls.body if isinstance(n, ast.Assign) and norm(n.targets[0]) == "patterns" and isinstance(n.value, ast.Dict)]
        ctx.need(len(pat) == 1, "%s: patterns not found" % cname)
        items = {_tc8(k): v for k, v in zip(pat[0].keys, pat[0].values)}
        v = items.get("shift_imm")
        ctx.need(v is not None, "%s: no shift_imm pattern" % cname)
        if kind == "left":
            ctx.ob("C08.R11", site, "`lsl n` stores n itself in shift_imm", isinstance(v, ast.Name) and v.id == "n", construct="lsl-raw", detail=norm(v))
            continue
        if not (isinstance(v, ast.Call) and len(v.args) == 1 and norm(v.args[0]) == "n"):
            ctx.ob("C08.R11", site, "the amount of `%s` goes through a transform that maps 32 to 0 and rejects 0" % cname[5:].lower(), False, construct="shift-transform:" + cname, detail="shift_imm: %s" % norm(v))
            continue
        tcls = ctx.project.cls(rel, norm(v.func), optional=True)
        fw = [f for f in (tcls.body if tcls is not None else []) if isinstance(f, ast.FunctionDef) and f.name == "forwards"]
        bw = [f for f in (tcls.body if tcls is not None else []) if isinstance(f, ast.FunctionDef) and f.name == "backwards"]
        ctx.need(len(fw) == 1, "%s: forwards() of %s not found" % (cname, norm(v.func)))
        bad = []
        try:
            for amount in range(-2, 36):
                try:
                    got = minieval.call(fw[0], [amount], dict(env0))
                except minieval.Rejected:
                    got = None
                want = amount % 32 if 1 <= amount <= 32 else None
                if got != want:
                    bad.append((amount, got))
                if want is not None and got == want and bw:
                    back = minieval.call(bw[0], [got], dict(env0))
                    if back != amount:
                        bad.append((amount, "backwards(%r) = %r" % (got, back)))
        except minieval.Undecidable as e:
            ctx.undecided("C08.R11", site, "transform of %s: %s" % (cname, e))
            continue
        ctx.ob("C08.R11", site, "`%s n`: 1..31 stored as n, 32 stored as 0, anything else rejected; the decoder maps 0 back to 32" % cname[5:].lower(), not bad, construct="shift-amount:" + cname, detail="(amount, stored): %s" % bad[:5])
        ctx.ob("C08.R11", site, "the transform has a backwards() for the disassembler", bool(bw), construct="shift-backwards:" + cname)


# Thumb 16-bit load/store with an immediate offset (ARM ARM A8.8: LDR/STR T1 imm32 = ZeroExtend(imm5:'00'), LDRH/STRH imm5:'0', LDRB/STRB imm5,
# LDR/STR (SP relative) T2 imm32 = ZeroExtend(imm8:'00')): class -> (operand, access size the field is scaled by, field width, gate)
# gate "token": the value is stored through a Token slice (the setter rejects what does not fit; its leniency for negative numbers is the known finding
# C10.R4); gate "none": the halfword is assembled with integer arithmetic, so the encoder itself has to reject everything that does not fit.
THUMB_SCALED = {"Str2": ("imm5", 4, 5, "token"), "Ldr2": ("imm5", 4, 5, "token"), "Strh": ("imm5", 2, 5, "token"), "Ldrh": ("imm5", 2, 5, "token"),
                "Strb": ("imm5", 1, 5, "token"), "Ldrb": ("imm5", 1, 5, "token"), "Str1": ("offset", 4, 8, "none"), "Ldr1": ("offset", 4, 8, "none"),
                "AddSp": ("imm7", 4, 7, "none"), "SubSp": ("imm7", 4, 7, "none")}    # ADD/SUB (SP plus immediate) T2: imm32 = ZeroExtend(imm7:'00')


def _thumb_scaled_offsets(ctx):
    from .. import minieval
    ctx.rule("C08.R12", "Thumb load/store and sp adjustment with immediate: the field holds the printed byte offset divided by the access size; an offset that is not a multiple of the size is rejected, and where the halfword is built by integer arithmetic so is a negative or too large one (encode() evaluated for offsets -8..4*2^width)", floor=8)
    rel = "ppci/arch/arm/thumb_instructions.py"
    for cname, (opname, size, width, gate) in sorted(THUMB_SCALED.items()):
        cls = ctx.cls(rel, cname)
        enc = ctx.project.find_method(cls, "encode")
        ctx.need(enc is not None, "%s: encode() not found" % cname)
        site = "%s:%s" % (rel, cname)
        opc = [n.value for c in [cls] for n in c.body if isinstance(n, ast.Assign) and norm(n.targets[0]) == "opcode"]
        wrong, not_rejected = [], []
        undec = None
        for v in range(-8, size * (2 ** width) + 2 * size):
            env = {"self." + opname: v, "self.rt.num": 3, "self.rn.num": 5, "self.opcode": minieval.ev(opc[0], {}) if opc else 0, "__funcs__": {}}
            rejected, stored = False, None
            env0_ = dict(env)
            env0_["self." + opname] = 0
            for st in enc.body:
                try:
                    if isinstance(st, ast.Assert):
                        if not minieval.ev(st.test, env):
                            rejected = True
                            break
                    elif isinstance(st, ast.Assign) and isinstance(st.targets[0], ast.Name):
                        env[st.targets[0].id] = minieval.ev(st.value, env)
                    elif isinstance(st, ast.Assign) and isinstance(st.targets[0], ast.Subscript) and norm(st.targets[0].slice) == "6:11":
                        stored = minieval.ev(st.value, env)
                    elif isinstance(st, ast.Return) and isinstance(st.value, ast.Call) and norm(st.value.func) == "u16":
                        h = minieval.ev(st.value.args[0], env)
                        env0 = dict(env0_)
                        for st0 in enc.body:
                            if isinstance(st0, ast.Assign) and isinstance(st0.targets[0], ast.Name):
                                env0[st0.targets[0].id] = minieval.ev(st0.value, env0)
                        h0 = minieval.ev(st.value.args[0], env0)      # the same halfword for offset 0
                        if h < 0 or h >= 2 ** 16 or (h ^ h0) >= 2 ** width or h0 & (2 ** width - 1):
                            stored = ("corrupt", h)    # the offset spilled into the opcode / register bits
                        else:
                            stored = h & (2 ** width - 1)
                except minieval.Undecidable as e:
                    if isinstance(st, (ast.Assert, ast.Return)) or (isinstance(st, ast.Assign) and isinstance(st.targets[0], ast.Subscript) and norm(st.targets[0].slice) == "6:11"):
                        undec = str(e)
                    continue
            if undec:
                break
            fits = v >= 0 and v % size == 0 and v // size < 2 ** width
            if fits:
                if rejected or stored != v // size:
                    wrong.append((v, "rejected" if rejected else stored))
            else:
                token_rejects = gate == "token" and isinstance(stored, int) and stored >= 2 ** width
                lenient_negative = gate == "token" and v < 0 and v % size == 0      # Token accepts small negative numbers: known finding C10.R4
                if not rejected and not token_rejects and not lenient_negative:
                    not_rejected.append((v, stored))
        if undec:
            ctx.undecided("C08.R12", site, "encode(): %s" % undec)
            continue
        ctx.ob("C08.R12", site, "offset v (multiple of %d, 0 <= v/%d < %d) is stored as v/%d" % (size, size, 2 ** width, size), not wrong, construct="scaled:" + cname, node=enc, detail="(offset, stored): %s" % wrong[:5])
        ctx.ob("C08.R12", site, "an offset that is not a multiple of %d%s is rejected" % (size, "" if gate == "token" else ", negative or too large"), not not_rejected, construct="rejects:" + cname, node=enc, detail="(offset, stored) accepted: %s" % not_rejected[:6])


def _x86_high_byte_registers(ctx):
    """R13.  Intel SDM vol. 2, 2.2.1.2 / table 3-1: with ANY REX prefix present the byte-register numbers 4..7 select spl, bpl, sil, dil;
    ah, ch, dh, bh are only encodable without a REX prefix.  ppci's 8-bit instruction classes list RexToken in `tokens` unconditionally,
    so a high-byte register that the register file offers to the assembler is printed as `dh` and encoded as `sil`."""
    ctx.rule("C08.R13", "x86-64: an 8-bit register with number 4..7 that names a high byte (ah, ch, dh, bh) is only offered when 8-bit instructions can be encoded without a REX prefix", floor=1)
    rrel, irel = "ppci/arch/x86_64/registers.py", "ppci/arch/x86_64/instructions.py"
    high = []
    for n in ctx.project.module(rrel).tree.body:
        if isinstance(n, ast.Assign) and isinstance(n.value, ast.Call) and norm(n.value.func) == "Register8" and len(n.value.args) >= 2:
            name, num = _tc8(n.value.args[0]), _tc8(n.value.args[1])
            if isinstance(num, int) and 4 <= num <= 7 and isinstance(name, str) and name.endswith("h"):
                high.append((name, num, n))
    always_rex = []
    for c in [c for c in ctx.project.module(irel).tree.body if isinstance(c, ast.ClassDef)]:
        uses8 = any(isinstance(n, ast.Assign) and isinstance(n.value, ast.Call) and norm(n.value.func) == "Operand" and len(n.value.args) >= 2 and norm(n.value.args[1]) == "Register8" for n in c.body)
        toks = [n.value for n in c.body if isinstance(n, ast.Assign) and norm(n.targets[0]) == "tokens" and isinstance(n.value, ast.List)]
        if uses8 and toks and any(norm(e) == "RexToken" for e in toks[0].elts):
            always_rex.append(c.name)
    ctx.saw("x86-8bit-classes-with-rex", ", ".join(always_rex))
    if not high:
        ctx.ob("C08.R13", rrel, "no high-byte register is offered", True, construct="no-high-byte-registers")
    for name, num, node in high:
        ctx.ob("C08.R13", rrel + ":" + name, "`%s` (number %d) can be encoded: no 8-bit instruction class carries an unconditional REX prefix" % (name, num), not always_rex, construct="high-byte:" + name, node=node,
               detail="%d classes with a Register8 operand list RexToken unconditionally (e.g. %s): the bytes name %s" % (len(always_rex), ", ".join(always_rex[:3]), {4: "spl", 5: "bpl", 6: "sil", 7: "dil"}[num]))


# Intel SDM vol. 2, appendix A.4.2, table A-6 "Opcode extensions for one- and two-byte opcodes by group number": ModRM.reg selects the operation
X86_GROUP = {
    2: ({0xC0, 0xC1, 0xD0, 0xD1, 0xD2, 0xD3}, {"rol": 0, "ror": 1, "rcl": 2, "rcr": 3, "shl": 4, "sal": 4, "shr": 5, "sar": 7}),
    3: ({0xF6, 0xF7}, {"test": 0, "not": 2, "neg": 3, "mul": 4, "imul": 5, "div": 6, "idiv": 7}),
    5: ({0xFE, 0xFF}, {"inc": 0, "dec": 1, "call": 2, "jmp": 4, "push": 6}),
}


def _x86_opcode_extensions(ctx):
    """R14.  For the x86 opcode groups the operation is chosen by the 3-bit ModRM.reg field.  ppci passes that number as a literal next to the
    mnemonic (make_rm("shl", 0xD1, 5), class ShlCl: r = 6); the pair is compared with the manual's table.  /6 of group 2 is not a documented
    encoding (a reference disassembler rejects it), /5 is SHR."""
    ctx.rule("C08.R14", "x86-64 opcode groups 2, 3 and 5: the ModRM.reg extension written next to a mnemonic is the one Intel's table A-6 assigns to it (shl/sal /4, shr /5, sar /7, rol /0, ror /1, not /2, neg /3, dec /1, jmp /4 ...)", floor=12)
    rel = "ppci/arch/x86_64/instructions.py"
    mod = ctx.project.module(rel)
    n = 0
    def group_of(opcode):
        for g, (ops, table) in X86_GROUP.items():
            if opcode in ops:
                return g, table
        return None, None
    # factory calls: make_rm*(mnemonic, opcode, extension)
    for c in ast.walk(mod.tree):
        if isinstance(c, ast.Call) and norm(c.func).split(".")[-1].startswith("make_rm") and len(c.args) >= 3 and all(isinstance(_tc8(a), (str, int)) for a in c.args[:3]):
            mn, opc, ext = _tc8(c.args[0]), _tc8(c.args[1]), _tc8(c.args[2])
            if not (isinstance(mn, str) and isinstance(opc, int) and isinstance(ext, int)):
                continue
            g, table = group_of(opc)
            if g is None:
                continue
            n += 1
            ctx.ob("C08.R14", rel, "`%s` with opcode 0x%02X (group %d) uses /%s" % (mn, opc, g, table.get(mn, "?")), table.get(mn) == ext, construct="ext:%s:0x%02X" % (mn, opc), node=c, detail="written: /%d" % ext)
    # classes with a literal `r = N` whose base fixes the opcode
    classes = {c.name: c for c in ast.walk(mod.tree) if isinstance(c, ast.ClassDef)}
    def opcode_of(cls, depth=0):
        for st in cls.body:
            if isinstance(st, ast.Assign) and norm(st.targets[0]) == "patterns" and isinstance(st.value, ast.Dict):
                for k, v in zip(st.value.keys, st.value.values):
                    if _tc8(k) == "opcode" and isinstance(_tc8(v), int):
                        return _tc8(v)
            if isinstance(st, ast.Assign) and norm(st.targets[0]) == "opcode" and isinstance(_tc8(st.value), int):
                return _tc8(st.value)
        for b in cls.bases:
            if norm(b) in classes and depth < 4:
                o = opcode_of(classes[norm(b)], depth + 1)
                if o is not None:
                    return o
        return None
    for cls in classes.values():
        r = [st.value for st in cls.body if isinstance(st, ast.Assign) and norm(st.targets[0]) == "r" and isinstance(_tc8(st.value), int)]
        syn = [st.value for st in cls.body if isinstance(st, ast.Assign) and norm(st.targets[0]) == "syntax" and isinstance(st.value, ast.Call) and st.value.args and isinstance(st.value.args[0], ast.List)]
        if not r or not syn or not syn[0].args[0].elts:
            continue
        mn = _tc8(syn[0].args[0].elts[0])
        opc = opcode_of(cls)
        g, table = group_of(opc) if opc is not None else (None, None)
        if g is None or not isinstance(mn, str):
            continue
        n += 1
        ctx.ob("C08.R14", "%s:%s" % (rel, cls.name), "`%s` with opcode 0x%02X (group %d) uses /%s" % (mn, opc, g, table.get(mn, "?")), table.get(mn) == _tc8(r[0]), construct="ext:%s:%s" % (cls.name, mn), node=cls, detail="written: r = %d" % _tc8(r[0]))
    ctx.need(n >= 12, "x86 opcode-extension sites: %d found, 15 confirmed by reading" % n)


def _x86_factory_widths(ctx):
    """R15.  The x86-64 operand size is chosen by REX.W (64 bit), no prefix (32 bit) or the 0x66 prefix (16 bit); it comes from the
    `patterns` of the base class a factory builds its instruction on.  A factory make_*32 that builds on the 64-bit base prints `not ecx`
    and encodes `not rcx` (and a memory operand is read and written 8 bytes wide)."""
    ctx.rule("C08.R15", "x86-64 instruction factories: make_*64 builds on a base class with REX.W = 1, make_*32 on one with W = 0 and no prefix, make_*16 on one with W = 0 and the 0x66 operand-size prefix", floor=8)
    rel = "ppci/arch/x86_64/instructions.py"
    mod = ctx.project.module(rel)
    classes = {c.name: c for c in mod.tree.body if isinstance(c, ast.ClassDef)}
    def size_of(name, depth=0):
        """(w, prefix) the class chain fixes, or None"""
        cls = classes.get(name)
        if cls is None or depth > 5:
            return None
        for st in cls.body:
            if isinstance(st, ast.Assign) and norm(st.targets[0]) == "patterns" and isinstance(st.value, ast.Dict):
                d = {_tc8(k): _tc8(v) for k, v in zip(st.value.keys, st.value.values)}
                if "w" in d or "prefix" in d:
                    return (d.get("w", 0), d.get("prefix"))      # a token field that no pattern sets stays 0
        for b in cls.bases:
            r = size_of(norm(b), depth + 1)
            if r is not None:
                return r
        return None
    want = {"64": (1, None), "32": (0, None), "16": (0, 0x66)}
    n = 0
    for fn in [f for f in mod.tree.body if isinstance(f, ast.FunctionDef) and f.name.startswith("make_") and f.name[-2:] in want]:
        ty = [c for c in ast.walk(fn) if isinstance(c, ast.Call) and norm(c.func) == "type" and len(c.args) == 3 and isinstance(c.args[1], ast.Tuple) and c.args[1].elts]
        if not ty:
            continue
        base = norm(ty[0].args[1].elts[0])
        got = size_of(base)
        n += 1
        ctx.ob("C08.R15", "%s:%s" % (rel, fn.name), "%s builds on a base class of operand size %s" % (fn.name, fn.name[-2:]), got == want[fn.name[-2:]], construct="factory-width:" + fn.name, node=ty[0],
               detail="base %s fixes (W, prefix) = %s" % (base, got))
    ctx.need(n >= 8, "x86 factories with a width suffix: %d found, 9 confirmed by reading" % n)


# MIPS32 Architecture for Programmers vol. II, table A.2 (opcode field) and A.3 (SPECIAL function field)
MIPS_OPCODE = {"lb": 32, "lh": 33, "lwl": 34, "lw": 35, "lbu": 36, "lhu": 37, "lwr": 38, "sb": 40, "sh": 41, "swl": 42, "sw": 43, "swr": 46,
               "addi": 8, "addiu": 9, "slti": 10, "sltiu": 11, "andi": 12, "ori": 13, "xori": 14, "lui": 15, "beq": 4, "bne": 5, "blez": 6, "bgtz": 7}
MIPS_FUNCT = {"sll": 0, "srl": 2, "sra": 3, "sllv": 4, "srlv": 6, "srav": 7, "jr": 8, "jalr": 9, "mfhi": 16, "mflo": 18, "mult": 24, "multu": 25, "div": 26, "divu": 27,
              "add": 32, "addu": 33, "sub": 34, "subu": 35, "and": 36, "or": 37, "xor": 38, "nor": 39, "slt": 42, "sltu": 43}


def _mips_opcodes(ctx):
    ctx.rule("C08.R16", "mips: the opcode / function number written next to a mnemonic in a factory call is the one of the MIPS32 opcode tables (lw 35, sw 43, swr 46, sllv 4, srav 7 ...)", floor=25)
    rel = "ppci/arch/mips/instructions.py"
    n = 0
    for c in ast.walk(ctx.project.module(rel).tree):
        if not (isinstance(c, ast.Call) and isinstance(c.func, ast.Name) and c.func.id.startswith("make_") and c.args and isinstance(_tc8(c.args[0]), str)):
            continue
        mn = _tc8(c.args[0])
        nums = [_tc8(a) for a in c.args[1:] if isinstance(_tc8(a), int)]
        if c.func.id == "make_r" and mn in MIPS_FUNCT and len(nums) >= 2:
            n += 1
            ctx.ob("C08.R16", rel, "`%s` is SPECIAL (opcode 0) function %d" % (mn, MIPS_FUNCT[mn]), nums[0] == 0 and nums[1] == MIPS_FUNCT[mn], construct="mips-funct:" + mn, node=c, detail="written: %s" % nums[:2])
        elif c.func.id != "make_r" and mn in MIPS_OPCODE and nums:
            n += 1
            ctx.ob("C08.R16", rel, "`%s` has opcode %d" % (mn, MIPS_OPCODE[mn]), nums[0] == MIPS_OPCODE[mn], construct="mips-opcode:" + mn, node=c, detail="written: %d" % nums[0])
    ctx.need(n >= 25, "mips factory calls with a known mnemonic: %d found" % n)
    # variable shifts: SLLV rd, rt, rs computes rd = rt << rs (vol. II: "SLLV rd, rt, rs"); the printed operand order has to be that one
    mk = ctx.fn(rel, "make_r")
    syn = [c for c in ast.walk(mk) if isinstance(c, ast.Call) and norm(c.func) == "Syntax" and c.args and isinstance(c.args[0], ast.List)]
    orders = {}
    for c in syn:
        names = [norm(e) for e in c.args[0].elts if isinstance(e, ast.Name) and e.id in ("rd", "rs", "rt")]
        guard = [a for a in _ancestors8(c, mk) if isinstance(a, ast.If)]
        key = "shift" if guard and any(c is x for st in guard[0].body for x in ast.walk(st)) and "shift" in norm(guard[0].test) else "plain"
        orders[key] = names
    ctx.ob("C08.R16", rel + ":make_r", "a three-register instruction prints rd, rs, rt and a variable shift rd, rt, rs", orders.get("plain") == ["rd", "rs", "rt"] and orders.get("shift") == ["rd", "rt", "rs"], construct="mips-operand-order", detail=str(orders))
    for mn in ("sllv", "srlv", "srav"):
        calls = [c for c in ast.walk(ctx.project.module(rel).tree) if isinstance(c, ast.Call) and norm(c.func) == "make_r" and c.args and _tc8(c.args[0]) == mn]
        ok = len(calls) == 1 and any(k.arg == "shift" and _tc8(k.value) is True for k in calls[0].keywords)
        ctx.ob("C08.R16", rel, "`%s` is built with the variable-shift operand order" % mn, ok, construct="mips-shift-order:" + mn)


def _m68k_long_immediates(ctx):
    """R17.  M68000 PRM 2.2.15 (immediate data): a byte or word immediate takes one extension word, a LONG immediate two.  ppci has one
    immediate constructor for every operation size; it carries a 16-bit token."""
    ctx.rule("C08.R17", "m68k: an immediate source operand of a long (.l) operation is encoded with a 32-bit extension (two extension words)", floor=1)
    rel = "ppci/arch/m68k/instructions.py"
    mod = ctx.project.module(rel)
    imm = ctx.cls(rel, "ImmediateEa")
    toks = [norm(n.value) for n in imm.body if isinstance(n, ast.Assign) and norm(n.targets[0]) == "tokens"]
    sized = [c.name for c in mod.tree.body if isinstance(c, ast.ClassDef) and c.name != "ImmediateEa" and any(norm(b) == "Constructor" for b in c.bases)
             and any(isinstance(n, ast.Assign) and norm(n.targets[0]) == "syntax" and "'#'" in norm(n.value) for n in c.body) and any("Imm32Token" in norm(n.value) for n in c.body if isinstance(n, ast.Assign) and norm(n.targets[0]) == "tokens")]
    longs = sorted(_tc8(c.args[0]) for c in ast.walk(mod.tree) if isinstance(c, ast.Call) and norm(c.func) in ("make_ea_dn", "make_ea") and c.args and isinstance(_tc8(c.args[0]), str) and _tc8(c.args[0]).endswith("l"))
    ctx.ob("C08.R17", rel + ":ImmediateEa", "long operations (%s) have an immediate form with a 32-bit extension" % ", ".join(longs[:6]), bool(sized) or toks != ["[Imm16Token]"] or not longs, construct="m68k-long-immediate",
           node=imm, detail="the only `#imm` source constructor has tokens %s" % toks)


def _ancestors8(n, stop):
    out = []
    n = getattr(n, "_parent", None)
    while n is not None and n is not stop:
        out.append(n)
        n = getattr(n, "_parent", None)
    return out


def arm_addressing_bits(ctx, rid):
    """ARM A32 load/store with immediate offset, A5.2.8 / A5.3: P (bit 24) = 1 and W (bit 21) = 0 select plain
    offset addressing (no write-back of the base register); U (bit 23) = 1 adds the offset, 0 subtracts it, and the
    immediate holds the magnitude.  P = 0 would be the post-indexed form, which loads from [rn] and WRITES rn."""
    from ..core import try_const
    from ..flow import controlling
    ctx.rule(rid, "ARM load/store encoders with an immediate offset use offset addressing: bit 24 (P) is always 1, bit 21 (W) is never 1, bit 23 (U) is 1 exactly when the offset is >= 0 and the stored immediate is its magnitude", floor=12)
    rel = "ppci/arch/arm/arm_instructions.py"
    mod = ctx.project.module(rel)
    tokm = relocs.TokenModel(ctx.project, ctx.project.cls("ppci/arch/arm/isa.py", "ArmToken"))
    n_cls = 0
    for cls in [c for c in mod.tree.body if isinstance(c, ast.ClassDef)]:
        enc = [f for f in cls.body if isinstance(f, ast.FunctionDef) and f.name == "encode"]
        ops = {t.id for st in cls.body if isinstance(st, ast.Assign) and isinstance(st.value, ast.Call) and norm(st.value.func) == "Operand" for t in st.targets if isinstance(t, ast.Name)}
        if not enc or not {"rn", "offset"} <= ops:
            continue
        n_cls += 1
        site = "%s:%s" % (rel, cls.name)
        stores = []   # (bit range, value node, [(cond text, polarity)])
        for n in ast.walk(enc[0]):
            if not isinstance(n, ast.Assign):
                continue
            t = n.targets[0]
            rng = None
            if isinstance(t, ast.Subscript) and norm(t.value).startswith("tokens"):
                sl = t.slice
                if isinstance(sl, ast.Slice):
                    lo, hi = try_const(sl.lower), try_const(sl.upper)
                    rng = (lo, hi) if isinstance(lo, int) and isinstance(hi, int) else None
                elif isinstance(try_const(sl), int):
                    rng = (try_const(sl), try_const(sl) + 1)
            elif isinstance(t, ast.Attribute) and norm(t.value).startswith("tokens") and t.attr in tokm.fields and len(tokm.fields[t.attr]) == 1:
                rng = tuple(tokm.fields[t.attr][0])
            if rng is not None:
                stores.append((rng, n.value, [(" ".join(norm(c).split()), pol) for c, pol, _ in controlling(n, enc[0])]))
        def at(bit):
            return [(v, c) for r, v, c in stores if r == (bit, bit + 1)]
        p = at(24)
        ctx.ob(rid, site, "bit 24 (P) is set to 1 unconditionally (offset addressing, not post-indexed)", len(p) == 1 and try_const(p[0][0]) == 1 and not p[0][1], construct="arm-P:" + cls.name,
               detail="; ".join("%s under %s" % (norm(v), c) for v, c in p) or "bit 24 is never written")
        w = at(21)
        ctx.ob(rid, site, "bit 21 (W) stays 0 (no write-back: the base register is declared read-only)", all(try_const(v) == 0 for v, _ in w), construct="arm-W:" + cls.name, detail="; ".join(norm(v) for v, _ in w))
        u = at(23)
        if "self.offset" not in norm(enc[0]):
            # register-offset form (the declared `offset` operand is not encoded): U is the constant 1 (add the index register)
            ctx.ob(rid, site, "register-offset form: bit 23 (U) is 1 (the index register is added)", len(u) == 1 and try_const(u[0][0]) == 1 and not u[0][1], construct="arm-U:" + cls.name)
            continue
        # offset == 0 may go either way (adding or subtracting zero)
        POS = [("self.offset >= 0", True), ("self.offset > 0", True), ("self.offset < 0", False), ("self.offset <= 0", False), ("0 <= self.offset", True), ("0 < self.offset", True)]
        NEG = [(t, not pol) for t, pol in POS]
        is_pos = lambda c: any(x in c for x in POS)
        is_neg = lambda c: any(x in c for x in NEG)
        pos = [v for v, c in u if is_pos(c)]
        neg = [v for v, c in u if is_neg(c)]
        ok = len(u) == 2 and len(pos) == 1 and len(neg) == 1 and try_const(pos[0]) == 1 and try_const(neg[0]) == 0
        ctx.ob(rid, site, "bit 23 (U) is 1 when self.offset >= 0 and 0 otherwise", ok, construct="arm-U:" + cls.name, detail="; ".join("%s under %s" % (norm(v), c) for v, c in u))
        mags = [(n, [(" ".join(norm(c).split()), pol) for c, pol, _ in controlling(n, enc[0])]) for n in ast.walk(enc[0]) if isinstance(n, ast.Assign) and "self.offset" in norm(n.value) and not isinstance(n.value, ast.Compare)]
        okm = bool(mags)
        for n, c in mags:
            v = " ".join(norm(n.value).split())
            if is_pos(c):
                okm = okm and v == "self.offset"
            elif is_neg(c):
                okm = okm and v in ("-self.offset", "abs(self.offset)")
            else:
                okm = False
        ctx.ob(rid, site, "the immediate holds the magnitude: self.offset when adding, -self.offset when subtracting", okm, construct="arm-magnitude:" + cls.name, detail="; ".join(" ".join(norm(n).split()) for n, _ in mags))
    ctx.need(n_cls >= 4, "ARM load/store encoders with immediate offset not found (%d)" % n_cls)
