"""C08 - encodings: internal consistency of the declared bit patterns (no
reference decoder is available in this family, so agreement with the
architecture manual is NOT decided)."""
import ast

from ..core import norm
from .. import relocs

ARCHS_QUICK = ["arm", "arm:thumb", "riscv", "riscv:rvc", "x86_64", "msp430", "avr", "m68k", "mips", "or1k", "xtensa", "microblaze"]


def token_models(project):
    base = project.cls("ppci/arch/token.py", "Token")
    out = {}
    for c in project.subclasses(base):
        out.setdefault(c.name, []).append(relocs.TokenModel(project, c))
    return out


def pick_token(models, name, file_hint):
    cands = models.get(name, [])
    if not cands:
        return None
    if file_hint:
        pkg = "ppci/" + file_hint.rsplit("/", 1)[0]
        for c in cands:
            if c.cdef._module.rel.startswith(pkg):
                return c
    return cands[0]


def run(ctx):
    ctx.rule("C08.R1", "within one instruction the fields named in `patterns` occupy pairwise disjoint bits of their token", floor=400)
    ctx.rule("C08.R2", "every operand in the syntax reaches the bytes: through a pattern, a nested constructor, or an encode/set_user_patterns/relocations override", floor=400)
    ctx.rule("C08.R3", "every pattern field exists on one of the instruction's tokens", floor=400)
    ctx.rule("C08.R4", "no two instructions of one ISA have the same tokens, the same fixed bits and the same variable fields but a different syntax", floor=8)
    ctx.rule("C08.R5", "the parts of a concatenated token field are disjoint and inside the token", floor=30)
    dump = ctx.isa()
    ctx.need(not dump["errors"], "ISA dump reported errors: %s" % dump["errors"][:2])
    models = token_models(ctx.project)
    done_tokens = set()
    for arch in ARCHS_QUICK:
        a = dump["archs"][arch]
        seen_enc = {}
        by_uid = {c["uid"]: c for c in a["instructions"] + a["constructors"]}
        single_reg_classes = {rc["typ"] for rc in a["register_classes"] if len(rc["registers"]) == 1}
        for ins in a["instructions"] + a["constructors"]:
            site = "ppci/%s:%s" % (ins["file"], ins["name"])
            if ins["uid"] in done_tokens:
                continue
            done_tokens.add(ins["uid"])
            toks = [pick_token(models, t, ins["file"]) for t in ins["tokens"]]
            is_instruction = ins in a["instructions"]
            # tokens of nested constructors also belong to the instruction's token sequence
            for o in ins["operands"]:
                for uid in o.get("cls_uids") or []:
                    sub = by_uid.get(uid)
                    if sub:
                        toks += [pick_token(models, t, sub["file"]) for t in sub["tokens"]]
            pats = ins["patterns"] or []
            # R3 + R1
            used = {}
            for p in pats:
                f = p.get("field")
                if f is None:
                    continue
                owner = None
                for t in toks:
                    if t is not None and f in t.fields:
                        owner = t
                        break
                if is_instruction and toks and all(t is not None for t in toks):
                    ctx.ob("C08.R3", site, "pattern field `%s` is a field of one of the tokens %s" % (f, ins["tokens"]), owner is not None, construct="field:%s.%s" % (ins["name"], f))
                if owner is not None:
                    used.setdefault(owner.name, []).append((f, owner.fields[f]))
            for tname, fl in used.items():
                bits = {}
                clash = None
                for f, ranges in fl:
                    for lo, hi in ranges:
                        for b in range(lo, hi):
                            if b in bits and bits[b] != f:
                                clash = (bits[b], f, b)
                            bits[b] = f
                ctx.ob("C08.R1", site, "fields %s of %s do not overlap" % (sorted({f for f, _ in fl}), tname), clash is None, construct="overlap:%s" % ins["name"], detail="fields %s and %s share bit %d" % clash if clash else None)
            # R2
            patops = {p.get("operand") for p in pats if p.get("operand")}
            opinfo = {o["name"]: o for o in ins["operands"]}
            for e in ins["syntax"]:
                if not isinstance(e, dict):
                    continue
                o = opinfo.get(e["op"])
                if o is None:
                    continue
                implied = isinstance(o["cls"], str) and o["cls"] in single_reg_classes
                consumed = implied or e["op"] in patops or o["attr"] in patops or bool(o.get("cls_uids")) or ins["has_user_patterns"] or ins["has_encode"] or ins["has_relocations"] or ins["has_render"]
                ctx.ob("C08.R2", site, "syntax operand `%s` is encoded (pattern, nested constructor, or a custom encode/relocation)" % e["op"], consumed, construct="consumed:%s.%s" % (ins["name"], e["op"]))
        # R4 within the ISA's instruction list
        for ins in a["instructions"]:
            if not ins["syntax"] or ins["patterns"] is None or ins["has_user_patterns"] or ins["has_encode"] or ins["has_render"] or ins["has_relocations"]:
                continue
            fixed = tuple(sorted((p["field"], p["fixed"]) for p in ins["patterns"] if "fixed" in p))
            var = tuple(sorted((p["field"], p.get("transform")) for p in ins["patterns"] if "operand" in p))
            nested = tuple(sorted(str(o.get("cls_uids")) for o in ins["operands"] if o.get("cls_uids")))
            key = (tuple(ins["tokens"]), fixed, var, nested)
            syn = tuple(e if isinstance(e, str) else "<%s>" % e["op"] for e in ins["syntax"] if not (isinstance(e, str) and e.isspace()))
            if key in seen_enc and seen_enc[key][0] != syn and frozenset((syn[0], seen_enc[key][0][0])) in ALIASES:
                continue
            if key in seen_enc and seen_enc[key][0] != syn:
                other = seen_enc[key]
                ctx.ob("C08.R4", "ppci/%s:%s" % (ins["file"], ins["name"]), "encoding of `%s` differs from that of `%s`" % (" ".join(syn), " ".join(other[0])), False,
                       construct="same-encoding:%s:%s" % (arch, "|".join(sorted([" ".join(syn), " ".join(other[0])]))), detail="both: tokens %s fixed %s" % (ins["tokens"], fixed))
            else:
                seen_enc.setdefault(key, (syn, ins["name"]))
        ctx.ob("C08.R4", "isa:" + arch, "%d table-encoded instructions of %s compared pairwise for identical encodings" % (len(seen_enc), arch), True, construct="compared:" + arch)
    # R5
    for name, ms in sorted(models.items()):
        for t in ms:
            for f, ranges in t.fields.items():
                if len(ranges) > 1 or t.size:
                    bits = [b for lo, hi in ranges for b in range(lo, hi)]
                    ok = len(bits) == len(set(bits)) and (t.size is None or all(0 <= b < t.size for b in bits))
                    ctx.ob("C08.R5", "%s:%s" % (t.cdef._module.rel, t.name), "field `%s` %s: parts disjoint and inside the %s-bit token" % (f, ranges, t.size), ok, construct="field-bits:%s.%s" % (t.name, f))


# mnemonic pairs that are architecturally the same instruction (aliases)
ALIASES = {frozenset(p) for p in (("jnz", "jne"), ("jz", "jeq"), ("db", "."), ("dw", "."), ("dd", "."), ("dq", "."), ("dcd", "."), ("dcd", "dd"), ("jnc", "jlo"), ("jc", "jhs"))}
