"""C02 - optimizer: memory-effect exhaustiveness of the load/store forwarding
stop sets, replace-all discipline of replace_use overrides, CSE key
completeness, volatile guards.  Behaviour preservation of the individual
rewrites on every CFG is not decided."""
import ast

from ..core import norm, walk_no_nested, calls_in, last_name, attr_chain, params_of

IR = "ppci/ir.py"
LAS = "ppci/opt/load_after_store.py"
# memory effect of every concrete instruction class (reason per line)
EFFECT = {
    "Store": "W",          # writes [address]
    "CopyBlob": "RW",      # memcpy: reads src, writes dst
    "FunctionCall": "RW",  # callee may read and write anything
    "ProcedureCall": "RW",
    "InlineAsm": "RW",     # template is opaque, clobbers are not modelled
    "Load": "R",
    # no memory access:
    "AddressOf": "", "Cast": "", "Undefined": "", "Const": "", "LiteralData": "", "Unop": "", "Binop": "", "Phi": "",
    "Alloc": "", "Parameter": "", "Exit": "", "Return": "", "Jump": "", "CJump": "", "JumpTable": "",
    # abstract bases
    "LocalValue": None, "FinalInstruction": None, "JumpBase": None, "Instruction": None,
}


def _tuple_names(node):
    if isinstance(node, ast.Tuple):
        return {(attr_chain(e) or norm(e)).split(".")[-1] for e in node.elts}
    return None


def run(ctx):
    ctx.rule("C02.R1", "every instruction class that may write memory stops the backward store search; the dead-store search also stops at every class that may read memory", floor=10)
    ctx.rule("C02.R2", "replace_use replaces every occurrence of the old value (no first-occurrence .index) in every operand container", floor=5)
    ctx.rule("C02.R3", "CSE keys only pure classes and the key holds every value-determining field", floor=3)
    ctx.rule("C02.R7", "tail-call elimination only rewrites `r = call f(..); return r` of the function itself: the returned value is the call's result, the call directly precedes the return, the callee is the function being compiled", floor=5)
    ctx.rule("C02.R6", "volatile accesses are excluded from forwarding, dead-store removal and mem2reg promotion", floor=4)
    project = ctx.project
    inst = ctx.cls(IR, "Instruction")
    subs = [c for c in project.subclasses(inst, strict=False) if c._module.rel == IR]
    ctx.need(len(subs) >= 20, "ir.Instruction hierarchy not found (%d classes)" % len(subs))
    writers, readers = set(), set()
    for c in subs:
        if c.name not in EFFECT:
            ctx.undecided("C02.R1", IR + ":" + c.name, "instruction class has no line in the memory-effect table of sa/rules/c02.py")
            continue
        e = EFFECT[c.name]
        if e and "W" in e:
            writers.add(c.name)
        if e and "R" in e:
            readers.add(c.name)
    fsb = ctx.fn(LAS, "LoadAfterStorePass.find_store_backwards")
    ps = params_of(fsb)
    ctx.need("stop_on" in ps, "find_store_backwards has no stop_on parameter")
    defaults = dict(zip(reversed([a.arg for a in fsb.args.args]), reversed(fsb.args.defaults)))
    default_stop = _tuple_names(defaults.get("stop_on"))
    ctx.need(default_stop is not None, "default stop_on is not a tuple literal")
    # the scan returns at the first stop instance
    stops = [n for n in walk_no_nested(fsb) if isinstance(n, ast.If)]
    ok = False
    for n in ast.walk(fsb):
        if isinstance(n, ast.If) and "isinstance(i2, stop_on)" in norm(n.test):
            ok = any(isinstance(x, ast.Return) and norm(x.value) == "None" for x in n.body)
    ctx.ob("C02.R1", LAS + ":LoadAfterStorePass.find_store_backwards", "the backward scan gives up at the first instruction of a stop class", ok, construct="scan-stops")
    cls = ctx.cls(LAS, "LoadAfterStorePass")
    for meth in [m for m in cls.body if isinstance(m, ast.FunctionDef)]:
        for c in calls_in(meth, "find_store_backwards"):
            kw = [k.value for k in c.keywords if k.arg == "stop_on"]
            stop = _tuple_names(kw[0]) if kw else default_stop
            site = "%s:LoadAfterStorePass.%s" % (LAS, meth.name)
            if stop is None:
                ctx.undecided("C02.R1", site, "stop_on argument is not a tuple literal")
                continue
            removing = any(last_name(x) in ("remove_from_block", "delete", "remove_instruction") for x in calls_in(meth))
            need = writers | (readers if removing else set())
            for w in sorted(need):
                covered = w in stop or any(b.name in stop for b in project.mro(project.cls(IR, w)))
                ctx.ob("C02.R1", site, "%s (%s memory) stops the search that %s" % (w, "writes" if w in writers else "reads", "removes the earlier store" if removing else "forwards the stored value"),
                       covered, construct="stop:%s:%s" % ("dead-store" if removing else "forward", w), node=c)

    # R2
    n_over = 0
    for c in subs:
        for m in c.body:
            if isinstance(m, ast.FunctionDef) and m.name == "replace_use":
                n_over += 1
                site = "%s:%s.replace_use" % (IR, c.name)
                idx = [x for x in calls_in(m, "index")]
                ctx.ob("C02.R2", site, "no first-occurrence search (`.index(old)`): a value used twice must be replaced twice", not idx, construct="no-index", node=idx[0] if idx else m)
                # every `old in self.X` container test is followed by a loop over self.X
                for t in ast.walk(m):
                    if isinstance(t, ast.Compare) and len(t.ops) == 1 and isinstance(t.ops[0], ast.In) and norm(t.left) == "old":
                        cont = norm(t.comparators[0]).replace(".values()", "")
                        loops = [l for l in ast.walk(m) if isinstance(l, ast.For) and cont in norm(l.iter)]
                        if isinstance(t._parent, ast.Assert) or cont == "self.uses":
                            continue  # an assertion / the bookkeeping set itself is not an operand container
                        ctx.ob("C02.R2", site, "all slots of %s are visited" % cont, bool(loops), construct="loop:" + cont, node=t)
    ctx.need(n_over >= 4, "replace_use overrides not found")
    setter = None
    vu = project.func(IR, "value_use")
    for n in ast.walk(vu):
        if isinstance(n, ast.FunctionDef) and n.name == "setter":
            setter = n
    ctx.need(setter is not None, "value_use.setter not found")
    dels = [c for c in calls_in(setter, "del_use")]
    ok = bool(dels) and all(any(isinstance(a, ast.If) and "_var_map.values()" in norm(a.test) for a in _anc(d)) for d in dels)
    ctx.ob("C02.R2", IR + ":value_use.setter", "re-assigning one operand slot drops the use of the old value only if no other slot still holds it", ok, construct="setter-keeps-shared-use")

    rb = ctx.fn(IR, "Value.replace_by")
    site = IR + ":Value.replace_by"
    ctx.need(len(rb.args.args) == 2, "Value.replace_by(self, value) signature changed")
    newv = rb.args.args[1].arg
    loops = [l for l in walk_no_nested(rb) if isinstance(l, ast.For)]
    ok = len(loops) == 1 and norm(loops[0].iter) in ("list(self.used_by)", "tuple(self.used_by)", "set(self.used_by)", "list(self.used_by.copy())")
    ctx.ob("C02.R2", site, "replace_by walks a snapshot of ALL users of the value (replace_use edits used_by while it runs)", ok, construct="replace-by-snapshot", detail=norm(loops[0].iter) if loops else "")
    refuse = [n for n in ast.walk(rb) if isinstance(n, (ast.Raise, ast.Assert))]
    ctx.ob("C02.R2", site, "replace_by refuses nothing (no raise / assert on the types of the two values): the IR readers patch forward-reference placeholders, whose type is only guessed (ptr), through it", not refuse, construct="replace-by-total",
           node=refuse[0] if refuse else None, detail="; ".join(" ".join(norm(x).split())[:70] for x in refuse))
    if loops:
        u = norm(loops[0].target)
        calls = [c for c in ast.walk(loops[0]) if isinstance(c, ast.Call) and norm(c.func) == u + ".replace_use"]
        from ..flow import controlling
        ok = len(calls) == 1 and [norm(a) for a in calls[0].args] == ["self", newv] and not list(controlling(calls[0], loops[0])) \
            and not any(isinstance(x, (ast.Break, ast.Continue, ast.Return, ast.If, ast.Try)) for x in ast.walk(loops[0]))
        ctx.ob("C02.R2", site, "every user - whichever it is, the replacement itself included (a phi that feeds itself) - has its slots rewritten: replace_use(self, new) is called unconditionally", ok, construct="replace-by-every-user")
    # R3
    cse = ctx.fn("ppci/opt/cse.py", "CommonSubexpressionEliminationPass.on_block")
    from ..tables import isinstance_branches
    br = isinstance_branches(cse, "i")
    for cname, (ifn, body) in br.items():
        short_name = cname.split(".")[-1]
        site = "ppci/opt/cse.py:CommonSubexpressionEliminationPass.on_block"
        ctx.ob("C02.R3", site, "%s is free of memory effects (may be merged with an earlier equal instruction)" % short_name, EFFECT.get(short_name) == "", construct="pure:" + short_name, node=ifn)
        keys = [s.value for s in body if isinstance(s, ast.Assign) and isinstance(s.value, ast.Tuple)]
        cdef = project.cls(IR, short_name, optional=True)
        if not keys or cdef is None:
            ctx.undecided("C02.R3", site, "key tuple of %s not found" % short_name)
            continue
        have = {norm(e).split(".")[-1] for e in keys[0].elts}
        init = [m for m in cdef.body if isinstance(m, ast.FunctionDef) and m.name == "__init__"]
        want = set(params_of(init[0])) - {"self", "name"} if init else set()
        ctx.ob("C02.R3", site, "the key of %s holds every constructor field except the name: %s" % (short_name, sorted(want)), want <= have, construct="key:" + short_name,
               node=keys[0], detail="key has %s" % sorted(have))

    # R6
    rl = ctx.fn(LAS, "LoadAfterStorePass.replace_load_after_store")
    rs = ctx.fn(LAS, "LoadAfterStorePass.remove_redundant_stores")
    def comp_filters(fn, cls_name):
        for n in ast.walk(fn):
            if isinstance(n, ast.ListComp) and ("ir.%s" % cls_name) in norm(n):
                return " ".join(norm(i) for g in n.generators for i in g.ifs)
        return None
    f1 = comp_filters(rl, "Load")
    ctx.ob("C02.R6", LAS + ":LoadAfterStorePass.replace_load_after_store", "volatile loads are never replaced by a stored value", f1 is not None and "not ins.volatile" in f1.replace("not i.volatile", "not ins.volatile").replace("not load.volatile", "not ins.volatile"), construct="load-volatile", detail=f1)
    f2 = comp_filters(rs, "Store")
    rem = [c for c in calls_in(rs) if last_name(c) in ("remove_from_block", "delete")]
    ok = bool(rem) and all(any(isinstance(a, ast.If) and ("not %s.volatile" % norm(c.func.value)) in norm(a.test) for a in _anc(c)) for c in rem)
    ctx.ob("C02.R6", LAS + ":LoadAfterStorePass.remove_redundant_stores", "a volatile store is never removed as redundant", ok, construct="store-volatile-removed")
    ctx.ob("C02.R6", LAS + ":LoadAfterStorePass.remove_redundant_stores", "a volatile store does not make an earlier store redundant... (filter present)", f2 is not None and ".volatile" in f2, construct="store-volatile-filter", detail=f2)
    pr = ctx.fn("ppci/opt/mem2reg.py", "is_alloc_promotable")
    ok = False
    for n in walk_no_nested(pr):
        if isinstance(n, ast.If) and ".volatile" in norm(n.test) and "stores" in norm(n.test) and "loads" in norm(n.test):
            ok = any(isinstance(x, ast.Return) and norm(x.value) == "False" for x in n.body)
    ctx.ob("C02.R6", "ppci/opt/mem2reg.py:is_alloc_promotable", "an alloc with a volatile load or store is not promoted to a register", ok, construct="mem2reg-volatile")

    _tailcall(ctx)
    clean_pass(ctx, "C02.R8")
    dominance_frontier(ctx, "C02.R9")


def _tailcall(ctx):
    from .. import sym
    TC = "ppci/opt/tailcall.py"
    of = ctx.fn(TC, "TailCallOptimization.on_function")
    site = TC + ":TailCallOptimization.on_function"
    ctx.need(len(of.args.args) == 2, "on_function(self, function) signature changed")
    fparam = of.args.args[1].arg
    env = sym.single_assign_env(of)
    apps = [c for c in ast.walk(of) if isinstance(c, ast.Call) and last_name(c) == "append" and c.args and isinstance(c.args[0], ast.Tuple) and len(c.args[0].elts) == 2]
    ctx.need(len(apps) == 1, "on_function: collection of (return, call) candidates not found")
    r_, c_ = (norm(sym.deep_inline(e, env)) for e in apps[0].args[0].elts)
    conj = [(norm(e), pol, e) for e, pol in sym.conjuncts(apps[0], of, env)]
    def holds(*texts):
        return any(pol and t in texts for t, pol, _ in conj)
    def ident(a, b):
        return holds("%s is %s" % (a, b), "%s is %s" % (b, a), "%s == %s" % (a, b), "%s == %s" % (b, a))
    ctx.ob("C02.R7", site, "the candidate's first element is an ir.Return", holds("isinstance(%s, ir.Return)" % r_), construct="is-return", node=apps[0], detail=r_)
    ctx.ob("C02.R7", site, "the candidate's second element is an ir.FunctionCall", holds("isinstance(%s, ir.FunctionCall)" % c_), construct="is-call", node=apps[0], detail=c_)
    ctx.ob("C02.R7", site, "the value returned is the result of that call (a call whose result is discarded, followed by `return x`, is not a tail call)", ident(c_, r_ + ".result"), construct="returns-call-result", node=apps[0], detail="; ".join(t for t, p, _ in conj))
    ctx.ob("C02.R7", site, "the callee is the function under optimization", ident(c_ + ".callee", fparam), construct="self-recursive", node=apps[0])
    import re
    mr, mc = re.fullmatch(r"(\w+)\[-1\]", r_), re.fullmatch(r"(\w+)\[-2\]", c_)
    ctx.ob("C02.R7", site, "the return is the last instruction of the block and the call is the instruction directly before it (nothing with a side effect in between)", bool(mr and mc and mr.group(1) == mc.group(1)), construct="adjacent", node=apps[0], detail="%s, %s" % (r_, c_))
    if mr:
        ctx.ob("C02.R7", site, "the block has at least two instructions before block[-2] is inspected", holds("len(%s) >= 2" % mr.group(1), "len(%s) > 1" % mr.group(1), "2 <= len(%s)" % mr.group(1)), construct="len-guard", node=apps[0])
    rw = ctx.fn(TC, "TailCallOptimization.rewrite_tailcalls")
    z = [c for c in ast.walk(rw) if isinstance(c, ast.Call) and norm(c.func) == "zip"]
    ok = len(z) == 1 and len(z[0].args) == 2 and norm(z[0].args[0]) == "arg_phis" and norm(z[0].args[1]).endswith(".arguments")
    re_ = ctx.fn(TC, "TailCallOptimization._replace_entry")
    loops = [l for l in ast.walk(re_) if isinstance(l, ast.For) and norm(l.iter).endswith(".arguments")]
    okp = False
    if len(loops) == 1:
        l = loops[0]
        apps = [c for c in ast.walk(l) if isinstance(c, ast.Call) and last_name(c) == "append" and norm(c.func.value) == "arg_phis"]
        mk = [n for n in l.body if isinstance(n, ast.Assign) and isinstance(n.value, ast.Call) and norm(n.value.func) == "ir.Phi"]
        skips = [x for x in ast.walk(l) if isinstance(x, (ast.Continue, ast.Break, ast.If))]
        okp = len(apps) == 1 and len(mk) == 1 and not skips and apps[0]._parent in l.body
    ctx.ob("C02.R7", TC + ":TailCallOptimization._replace_entry", "exactly one phi per parameter, in parameter order, without exception (the phis are later paired with the call's arguments by position)", okp, construct="one-phi-per-parameter",
           node=loops[0] if loops else re_)
    ctx.ob("C02.R7", TC + ":TailCallOptimization.rewrite_tailcalls", "each argument phi receives the call's actual argument of the same position from the jumping block", ok, construct="phi-arguments", detail=norm(z[0]) if z else "")


def _anc(n):
    out = []
    n = getattr(n, "_parent", None)
    while n is not None:
        out.append(n)
        n = getattr(n, "_parent", None)
    return out


def clean_pass(ctx, rid):
    """CleanPass rewires edges.  A phi has ONE value per incoming BLOCK, so two edges from the same predecessor into a
    block with phis cannot carry different values, and replace_incoming(old, ..) must run once per block whose phis
    mention `old` (it raises KeyError the second time)."""
    from .. import sym
    C = "ppci/opt/clean.py"
    ctx.rule(rid, "CleanPass: an empty block is bypassed only when that does not give its target two edges from one predecessor while the target has phis; when two blocks are glued, the phis of every DISTINCT successor are re-pointed exactly once, the appended block's own phis are resolved first and the entry block is never appended", floor=6)
    rb = ctx.fn(C, "CleanPass.remove_empty_blocks")
    site = C + ":CleanPass.remove_empty_blocks"
    ri = [c for c in calls_in(rb, "replace_incoming")]
    ct = [c for c in calls_in(rb, "change_target")]
    ctx.need(len(ri) == 1 and len(ct) == 1, "remove_empty_blocks: replace_incoming / change_target not found")
    env = sym.single_assign_env(rb)
    conds = sym.conjuncts(ri[0], rb, {})
    def merges_guard(c, pol):
        """not (T.phis and any(p in T.predecessors for p in <preds>))  - in any arrangement of the two facts"""
        if pol is not False:
            return False
        parts = c.values if isinstance(c, ast.BoolOp) and isinstance(c.op, ast.And) else [c]
        txt = [" ".join(norm(x).split()) for x in parts]
        has_phis = any(t.endswith(".phis") or ".phis" in t for t in txt)
        has_shared = any((".predecessors" in t and (" in " in t or "&" in t or "intersection" in t or "isdisjoint" in t)) for t in txt)
        return has_phis and has_shared
    g = [c for c, pol in conds if merges_guard(c, pol)]
    ctx.ob(rid, site, "the block is left in place when its target has phis and one of the block's predecessors already jumps to that target (bypassing would merge two edges with possibly different phi values into one incoming block)", bool(g), construct="no-edge-merge-into-phis",
           node=ri[0], detail="conditions in force at replace_incoming: %s" % "; ".join("%s%s" % ("" if pol else "not ", " ".join(norm(c).split())[:70]) for c, pol in conds))
    selfloop = any((pol is False and " ".join(norm(c).split()) == "block in predecessors") or (pol is True and " ".join(norm(c).split()) == "block not in predecessors") for c, pol in conds)
    ctx.ob(rid, site, "a block that jumps to itself is left alone", selfloop, construct="no-self-loop")
    ok = norm(ri[0].args[0]) == "block" and norm(sym.deep_inline(ri[0].args[1], env)) == "block.predecessors" and ri[0].lineno < ct[0].lineno
    ctx.ob(rid, site, "the target's phis take the bypassed block's value for each of its predecessors, before the predecessors are retargeted", ok, construct="phis-before-retarget")
    gb = ctx.fn(C, "CleanPass.glue_blocks")
    site = C + ":CleanPass.glue_blocks"
    ri2 = [c for c in calls_in(gb, "replace_incoming")]
    ctx.need(len(ri2) == 1, "glue_blocks: replace_incoming not found")
    loop = [l for l in walk_no_nested(gb) if isinstance(l, ast.For) and any(x is ri2[0] for x in ast.walk(l))]
    ok, det = (False, "")
    if loop:
        ok, det = iterates_distinct(gb, loop[-1].iter)
    ctx.ob(rid, site, "replace_incoming runs once per distinct successor (Block.successors lists a block twice for `cjmp c ? S : S`; the second call raises KeyError)", ok, construct="distinct-successors", node=ri2[0], detail="iterates " + det)
    # the entry block is never appended to a predecessor (function.entry would name a removed block)
    fs = ctx.fn(C, "CleanPass.find_single_predecessor_block")
    rets = [r for r in walk_no_nested(fs) if isinstance(r, ast.Return) and r.value is not None and not (isinstance(r.value, ast.Constant) and r.value.value is None)]
    ctx.need(bool(rets), "find_single_predecessor_block: no block is returned")
    for r in rets:
        b = norm(r.value)
        cs = sym.conjuncts(r, fs, {})
        ok = any((pol is False and norm(c) in (b + ".is_entry", "%s is function.entry" % b, "%s is %s.function.entry" % (b, b))) or (pol is True and norm(c) in ("%s is not function.entry" % b,)) for c, pol in cs)
        ctx.ob(rid, C + ":CleanPass.find_single_predecessor_block", "the entry block is never chosen to be appended to its predecessor (a loop back to the entry block gives it one; function.entry would name a removed block)", ok, construct="entry-not-glued", node=r,
               detail="conditions in force: %s" % "; ".join("%s%s" % ("" if pol else "not ", " ".join(norm(c).split())[:50]) for c, pol in cs))
    # phis of the appended block are resolved to their single incoming value before its instructions are moved
    moves = [l for l in walk_no_nested(gb) if isinstance(l, ast.For) and any(isinstance(c, ast.Call) and isinstance(c.func, ast.Attribute) and c.func.attr == "add_instruction" for c in ast.walk(l))]
    ctx.need(len(moves) == 1, "glue_blocks: the loop that moves the instructions was not found")
    b1, b2 = [a.arg for a in gb.args.args if a.arg != "self"][:2]
    res = [l for l in walk_no_nested(gb) if isinstance(l, ast.For) and norm(l.iter) == b2 + ".phis" and l.lineno < moves[0].lineno]
    ok, det = False, "no loop over %s.phis before the instructions are moved" % b2
    if res:
        v = norm(res[0].target)
        rep = [c for c in ast.walk(res[0]) if isinstance(c, ast.Call) and norm(c.func) == v + ".replace_by" and norm(c.args[0]) in ("%s.get_value(%s)" % (v, b1), "%s.inputs[%s]" % (v, b1))]
        rem = [c for c in ast.walk(res[0]) if isinstance(c, ast.Call) and norm(c.func) in (v + ".remove_from_block", b2 + ".remove_instruction")]
        ok = len(rep) == 1 and len(rem) == 1 and rep[0].lineno < rem[0].lineno
        det = "replace_by(incoming value): %d, removal: %d" % (len(rep), len(rem))
    ctx.ob(rid, site, "a phi of the appended block is replaced by its value for the one predecessor and removed before the instructions are moved (it would end up in the middle of the merged block, naming that block as its own predecessor)", ok, construct="phis-resolved", detail=det)


def iterates_distinct(fn, it):
    """does a loop over `it` see every element once?  (a set / OrderedSet / dict.fromkeys of something, or a local list
    filled under a `not in` test).  Returns (ok, text)"""
    from .. import sym
    det = norm(it)
    if isinstance(it, ast.Call) and norm(it.func) in ("set", "OrderedSet", "dict.fromkeys", "frozenset"):
        return True, det
    if isinstance(it, ast.Call) and norm(it.func) in ("sorted", "list", "tuple", "reversed") and it.args:
        return iterates_distinct(fn, it.args[0])
    if isinstance(it, ast.Name):
        apps = [c for c in ast.walk(fn) if isinstance(c, ast.Call) and isinstance(c.func, ast.Attribute) and c.func.attr in ("append", "add") and norm(c.func.value) == it.id]
        inits = [n for n in ast.walk(fn) if isinstance(n, ast.Assign) and norm(n.targets[0]) == it.id]
        if len(inits) == 1 and not apps:
            return iterates_distinct(fn, inits[0].value)
        ok = bool(apps) and all(a.func.attr == "add" or any(pol is True and isinstance(c, ast.Compare) and isinstance(c.ops[0], ast.NotIn) and norm(c.comparators[0]) == it.id for c, pol in sym.conjuncts(a, fn, {})) for a in apps)
        ok = ok and len(inits) == 1 and norm(inits[0].value) in ("[]", "set()", "OrderedSet()")
        return ok, det + (" (filled by %s)" % "; ".join(" ".join(norm(a).split())[:40] for a in apps) if apps else "")
    return False, det


def dominance_frontier(ctx, rid):
    """mem2reg places phis on the iterated dominance frontier of the defining blocks.  DF(x) = { y : x dominates a
    predecessor of y but does not STRICTLY dominate y } (Cytron et al.): a loop header is in its own frontier."""
    G = "ppci/graph/cfg.py"
    ctx.rule(rid, "dominance frontier (Cytron): bottom-up over the dominator tree; a successor y of x (local) or a member y of a child's frontier (up) belongs to DF(x) unless x is y's immediate dominator - a test that is false for y == x, so a loop header is in its own frontier", floor=5)
    fn = ctx.fn(G, "ControlFlowGraph.calculate_dominance_frontier")
    site = G + ":ControlFlowGraph.calculate_dominance_frontier"
    outer = [l for l in walk_no_nested(fn) if isinstance(l, ast.For) and "bottom_up" in norm(l.iter)]
    ctx.need(len(outer) == 1, "calculate_dominance_frontier: bottom-up loop not found")
    x = norm(outer[0].target)
    init = [n for n in outer[0].body if isinstance(n, ast.Assign) and norm(n.targets[0]) == "self.df[%s]" % x and norm(n.value) in ("set()", "OrderedSet()")]
    ctx.ob(rid, site, "children are finished before their parent (bottom-up walk of the dominator tree) and every frontier starts empty", len(init) == 1 and "self.root_tree" in norm(outer[0].iter), construct="bottom-up")
    adds = [c for c in ast.walk(outer[0]) if isinstance(c, ast.Call) and norm(c.func) == "self.df[%s].add" % x]
    from ..sym import conjuncts
    def not_strictly_dominated(c, y):
        conds = [(" ".join(norm(t).split()), pol) for t, pol in conjuncts(c, fn, {})]
        good = {("self.get_immediate_dominator(%s) != %s" % (y, x), True), ("self.get_immediate_dominator(%s) == %s" % (y, x), False), ("%s != self.get_immediate_dominator(%s)" % (x, y), True),
                ("self.strictly_dominates(%s, %s)" % (x, y), False), ("self.get_immediate_dominator(%s) is not %s" % (y, x), True), ("self.get_immediate_dominator(%s) is %s" % (y, x), False)}
        return len(conds) == 1 and conds[0] in good, conds
    loc = [c for c in adds if any(isinstance(a, ast.For) and norm(a.iter) == "self.successors(%s)" % x for a in _anc(c))]
    up = [c for c in adds if any(isinstance(a, ast.For) and norm(a.iter) == "self.children(%s)" % x for a in _anc(c))]
    ok, det = (False, "")
    if len(loc) == 1:
        lp = [a for a in _anc(loc[0]) if isinstance(a, ast.For)][0]
        y = norm(lp.target)
        ok, det = not_strictly_dominated(loc[0], y)
        ok = ok and norm(loc[0].args[0]) == y
    ctx.ob(rid, site, "local rule: a successor y of x is in DF(x) exactly when idom(y) is not x", ok, construct="local-rule", detail=str(det))
    ok, det = (False, "")
    if len(up) == 1:
        loops = [a for a in _anc(up[0]) if isinstance(a, ast.For)]
        inner, mid = loops[0], loops[1]
        y, z = norm(inner.target), norm(mid.target)
        ok, det = not_strictly_dominated(up[0], y)
        ok = ok and norm(inner.iter) == "self.df[%s]" % z and norm(up[0].args[0]) == y
    ctx.ob(rid, site, "up rule: a member y of DF(z), z a child of x in the dominator tree, is in DF(x) exactly when idom(y) is not x (the non-strict `dominates(x, y)` would drop y == x: the header of a multi-block loop)", ok, construct="up-rule", detail=str(det))
    ctx.ob(rid, site, "nothing else adds to or removes from a frontier", len(adds) == 2 and not any(isinstance(c, ast.Call) and isinstance(c.func, ast.Attribute) and c.func.attr in ("remove", "discard", "clear", "pop") for c in ast.walk(fn)), construct="only-two-rules")
    ch = ctx.fn(G, "ControlFlowGraph.children")
    ctx.ob(rid, G + ":ControlFlowGraph.children", "children(n) are the nodes of the dominator-tree children of n", "self.tree_map[n]" in norm(ch).replace(ch.args.args[1].arg, "n") and ".children" in norm(ch), construct="tree-children")
