"""C23 - IR -> wasm: the declarative tables of IrToWasmCompiler map each
tree operator to the wasm opcode its key spells (operation, signedness,
carrier type), cast sequences are type-correct chains from the carrier of the
source type to the carrier of the destination type and truncate, and a
structuring failure propagates.  The behaviour of the produced module is not
decided; an absent table cell is a rejection."""
import ast
import re

from ..core import norm, walk_no_nested, dict_items, try_const, calls_in, last_name

F = "ppci/wasm/ppci2wasm.py"
# wasm value type that carries an IR type in this backend (U32 is kept in an i64: reviewed design decision of ppci2wasm)
CARRIER = {"I8": "i32", "U8": "i32", "I16": "i32", "U16": "i32", "I32": "i32", "U32": "i64", "I64": "i64", "U64": "i64", "F32": "f32", "F64": "f64"}
BITS = {"I8": 8, "U8": 8, "I16": 16, "U16": 16, "I32": 32, "U32": 32, "I64": 64, "U64": 64}
BINOP = {"ADD": "add", "SUB": "sub", "MUL": "mul", "AND": "and", "OR": "or", "XOR": "xor", "SHL": "shl"}
SIGNED_BINOP = {"DIV": "div", "REM": "rem", "SHR": "shr"}


def _table(cls, name):
    for n in cls.body:
        if isinstance(n, ast.Assign) and norm(n.targets[0]) == name and isinstance(n.value, (ast.Dict, ast.Set)):
            return n.value
    return None


def _sig(op):
    """(operand type, result type) of a wasm conversion opcode"""
    m = re.match(r"^(i32|i64|f32|f64)\.(trunc|trunc_sat|convert|extend|reinterpret)_(i32|i64|f32|f64)(_[su])?$", op)
    if m:
        return m.group(3), m.group(1)
    fixed = {"i32.wrap_i64": ("i64", "i32"), "f32.demote_f64": ("f64", "f32"), "f64.promote_f32": ("f32", "f64")}
    if op in fixed:
        return fixed[op]
    m = re.match(r"^(f32|f64)\.(nearest|floor|ceil|trunc|abs|neg|sqrt)$", op)
    if m:
        return m.group(1), m.group(1)
    return None


def run(ctx):
    ctx.rule("C23.R1", "binop_map: each key OP+TYPE maps to <carrier>.<op> with the signedness of TYPE", floor=70)
    ctx.rule("C23.R2", "load/store/const tables: carrier type, access width and sign extension agree with the key", floor=28)
    ctx.rule("C23.R3", "cast_operators2: a type-correct chain from the carrier of the source to the carrier of the destination; float->int truncates; signedness follows the integer side", floor=30)
    ctx.rule("C23.R4", "a failure to structure the control flow propagates out of ir_to_wasm", floor=4)
    cls = ctx.cls(F, "IrToWasmCompiler")
    site = F + ":IrToWasmCompiler."
    bm = _table(cls, "binop_map")
    ctx.need(bm is not None, "binop_map not found")
    ctx.saw("tables", "IrToWasmCompiler.binop_map")
    for k, v in dict_items(bm):
        key, op = try_const(k), try_const(v)
        m = re.match(r"^([A-Z]+?)([IUF]\d+)$", key or "")
        if not m:
            ctx.undecided("C23.R1", site + "binop_map", "key %r not OP+TYPE" % key)
            continue
        o, ty = m.groups()
        car = CARRIER.get(ty)
        if ty.startswith("F"):
            want = "%s.%s" % (car, {"ADD": "add", "SUB": "sub", "MUL": "mul", "DIV": "div"}.get(o, "?"))
        elif o in BINOP:
            want = "%s.%s" % (car, BINOP[o])
        elif o in SIGNED_BINOP:
            want = "%s.%s_%s" % (car, SIGNED_BINOP[o], "s" if ty.startswith("I") else "u")
        else:
            want = None
        ctx.ob("C23.R1", site + "binop_map", "%s -> %s" % (key, want), want is not None and op == want, construct="bin:" + key, node=v, detail=str(op))

    for tname, kind in (("load_opcodes", "LDR"), ("store_opcodes", "STR"), ("const_opcodes", "CONST")):
        t = _table(cls, tname)
        ctx.need(t is not None, tname + " not found")
        for k, v in dict_items(t):
            key, op = try_const(k), try_const(v)
            ty = key[len(kind):]
            car = CARRIER.get(ty)
            if kind == "CONST":
                want = {car + ".const"}
            elif ty.startswith("F"):
                want = {"%s.%s" % (car, "load" if kind == "LDR" else "store")}
            else:
                bits = BITS[ty]
                full = bits == int(car[1:])
                if kind == "LDR":
                    want = {"%s.load" % car} if full else {"%s.load%d_%s" % (car, bits, "s" if ty.startswith("I") else "u")}
                else:
                    want = {"%s.store" % car} if full else {"%s.store%d" % (car, bits)}
            ctx.ob("C23.R2", site + tname, "%s -> %s" % (key, sorted(want)), op in want, construct="mem:" + key, node=v, detail=str(op))

    c2 = _table(cls, "cast_operators2")
    ctx.need(c2 is not None, "cast_operators2 not found")
    for k, v in dict_items(c2):
        key, seq = try_const(k), try_const(v)
        m = re.match(r"^([IUF]\d+)TO([IUF]\d+)$", key or "")
        if not m or not isinstance(seq, list) or not seq:
            ctx.undecided("C23.R3", site + "cast_operators2", "entry %r not interpreted" % key)
            continue
        src, dst = m.groups()
        cur = CARRIER[src]
        ok = True
        why = ""
        for op in seq:
            sg = _sig(op)
            if sg is None or sg[0] != cur:
                ok, why = False, "%s expects %s, has %s" % (op, sg[0] if sg else "?", cur)
                break
            cur = sg[1]
        if ok and cur != CARRIER[dst]:
            ok, why = False, "chain ends in %s, %s is carried in %s" % (cur, dst, CARRIER[dst])
        ctx.ob("C23.R3", site + "cast_operators2", "%s: type-correct chain %s -> %s" % (key, CARRIER[src], CARRIER[dst]), ok, construct="chain:" + key, node=v, detail=why or str(seq))
        if src.startswith("F") and not dst.startswith("F"):
            rounding = [op for op in seq if re.search(r"\.(nearest|floor|ceil)$", op)]
            tr = [op for op in seq if ".trunc_" in op]
            sign = "s" if dst.startswith("I") else "u"
            ctx.ob("C23.R3", site + "cast_operators2", "%s truncates toward zero (no rounding step) with the signedness of %s" % (key, dst), not rounding and len(tr) == 1 and tr[0].endswith("_" + sign),
                   construct="trunc:" + key, node=v, detail=str(seq))
        if not src.startswith("F") and dst.startswith("F"):
            cv = [op for op in seq if ".convert_" in op]
            sign = "s" if src.startswith("I") else "u"
            ctx.ob("C23.R3", site + "cast_operators2", "%s converts with the signedness of %s" % (key, src), len(cv) == 1 and cv[0].endswith("_" + sign), construct="convert:" + key, node=v, detail=str(seq))
        if not src.startswith("F") and not dst.startswith("F"):
            ex = [op for op in seq if ".extend_" in op]
            if ex and CARRIER[src] == "i32":
                sign = "s" if src.startswith("I") else "u"
                ctx.ob("C23.R3", site + "cast_operators2", "%s extends with the signedness of %s" % (key, src), ex[0].endswith("_" + sign), construct="extend:" + key, node=v, detail=str(seq))

    # R4: no handler swallows the structuring failure
    mod = ctx.project.module(F)
    swallow = []
    for fn in [n for n in ast.walk(mod.tree) if isinstance(n, ast.FunctionDef)]:
        for t in [n for n in walk_no_nested(fn) if isinstance(n, ast.Try)]:
            calls = {last_name(c) for s in t.body for c in ast.walk(s) if isinstance(c, ast.Call)}
            if calls & {"find_structure", "do_function", "do_shape", "ir_to_wasm"}:
                for h in t.handlers:
                    if not any(isinstance(x, ast.Raise) for s in h.body for x in ast.walk(s)):
                        swallow.append(h)
    fs = [c for fn in ast.walk(mod.tree) if isinstance(fn, ast.FunctionDef) for c in calls_in(fn, "find_structure")]
    ctx.need(fs, "ppci2wasm no longer calls find_structure")
    ctx.ob("C23.R4", F, "no except clause around find_structure/do_function continues after a failure", not swallow, construct="no-swallow", node=swallow[0] if swallow else None)
    # the structure detector refuses, rather than guesses, when a loop has more than one exit target
    G = "ppci/graph/relooper.py"
    fl = ctx.fn(G, "StructureDetector.follows_loop")
    site = G + ":StructureDetector.follows_loop"
    loops = [l for l in walk_no_nested(fl) if isinstance(l, ast.For)]
    early = [r for l in loops for r in ast.walk(l) if isinstance(r, (ast.Return, ast.Break))]
    ctx.ob("C23.R4", site, "every exit edge of every loop node is examined before a follow-up node is chosen (no return from inside the scan: the first exit found is not necessarily the only one)", bool(loops) and not early,
           construct="all-exits-scanned", node=early[0] if early else fl)
    raises = [n for n in walk_no_nested(fl) if isinstance(n, ast.Raise)]
    from .. import sym
    ok = False
    for r in raises:
        cj = [" ".join(norm(e).split()) for e, pol in sym.conjuncts(r, fl, {}) if pol]
        if any(t.startswith("len(") and ("!= 1" in t or "> 1" in t) for t in cj):
            ok = True
    ctx.ob("C23.R4", site, "a loop that is left towards more than one node outside its dominance region is reported (ValueError), not structured around an arbitrary one of them", ok, construct="multi-exit-raises")
    rets = [r for r in walk_no_nested(fl) if isinstance(r, ast.Return) and r.value is not None]
    ok = bool(rets) and all(raises and r.lineno > raises[0].lineno for r in rets) if raises else False
    ctx.ob("C23.R4", site, "the follow-up node is returned only after the uniqueness check", ok, construct="return-after-check")
    dom = [c for c in ast.walk(fl) if isinstance(c, ast.Call) and last_name(c) == "strictly_dominates"]
    ok = len(dom) == 1 and norm(dom[0].args[0]).endswith(".header") and any(isinstance(a, ast.If) and isinstance(a.test, ast.UnaryOp) for a in [dom[0]._parent._parent, dom[0]._parent])
    ctx.ob("C23.R4", site, "only exits that the loop header does not strictly dominate count as follow-up candidates (dominated exits are part of the loop's own region)", ok, construct="dominance-filter")
    _components(ctx)
    _function_table(ctx)


def component_arity(ctx, rid, rels):
    """every `components.X(a, b, ...)` is called with as many positional arguments as X._from_args takes"""
    CO = "ppci/wasm/components.py"
    from .. import sym as sym_
    sig, names = {}, {}
    for c in ast.walk(ctx.project.module(CO).tree):
        if isinstance(c, ast.ClassDef):
            for f in c.body:
                if isinstance(f, ast.FunctionDef) and f.name == "_from_args":
                    n = len(f.args.args) - 1
                    sig[c.name] = (n - len(f.args.defaults), n if f.args.vararg is None else 99)
                    names[c.name] = [a.arg for a in f.args.args[1:]]
    ctx.need(len(sig) >= 12, "components._from_args signatures not found")
    n_calls = 0
    for rel in rels:
        mod = ctx.project.module(rel)
        for c in ast.walk(mod.tree):
            if not (isinstance(c, ast.Call) and isinstance(c.func, ast.Attribute) and norm(c.func.value) == "components" and c.func.attr in sig):
                continue
            if c.keywords or any(isinstance(a, ast.Starred) for a in c.args) or len(c.args) <= 1:
                continue   # single-argument forms go through _from_tuple/_from_string
            lo, hi = sig[c.func.attr]
            n_calls += 1
            params = names[c.func.attr]
            fn_ = c
            while fn_ is not None and not isinstance(fn_, ast.FunctionDef):
                fn_ = getattr(fn_, "_parent", None)
            env_ = sym_.single_assign_env(fn_) if fn_ is not None else {}

            def resolve(e, depth=0):
                e = sym_.deep_inline(e, env_)
                for _ in range(3):
                    if isinstance(e, ast.Name) and sym_.nearest_def(c, e.id) is not None:
                        e = sym_.nearest_def(c, e.id)
                    elif isinstance(e, ast.Subscript) and isinstance(e.value, ast.Name) and sym_.nearest_def(c, e.value.id) is not None:
                        e = ast.Subscript(value=sym_.nearest_def(c, e.value.id), slice=e.slice, ctx=ast.Load())
                if isinstance(e, ast.Subscript) and isinstance(e.value, ast.Tuple) and isinstance(e.slice, ast.Constant) and isinstance(e.slice.value, int) and e.slice.value < len(e.value.elts):
                    return e.value.elts[e.slice.value]
                return e
            for pname, a in zip(params, c.args):
                r = resolve(a)
                if pname == "id":
                    bad = isinstance(r, (ast.List, ast.Tuple, ast.Dict)) or (isinstance(r, ast.Call) and norm(r.func) in ("components.Instruction",))   # check_id accepts int, $name and Ref
                    ctx.ob(rid, rel, "the id of components.%s is an identifier (index, $name or Ref), not a pair or an instruction list" % c.func.attr, not bad, construct="id-kind:%s:%s" % (c.func.attr, " ".join(norm(a).split())[:40]), node=c)
                elif pname == "mode":
                    okm = (isinstance(r, ast.Tuple) and len(r.elts) == 2) or (isinstance(r, ast.Constant) and r.value is None) or isinstance(r, (ast.Name, ast.Attribute, ast.IfExp))
                    ctx.ob(rid, rel, "the mode of components.%s is a (ref, offset) pair or None" % c.func.attr, okm, construct="mode-kind:%s:%s" % (c.func.attr, " ".join(norm(a).split())[:40]), node=c)
            ctx.ob(rid, rel, "components.%s is constructed with %d arguments; %s._from_args takes %s" % (c.func.attr, len(c.args), c.func.attr, lo if lo == hi else "%d..%d" % (lo, hi)), lo <= len(c.args) <= hi,
                   construct="arity:%s:%s" % (c.func.attr, " ".join(norm(c).split())[:60]), node=c)
    return n_calls


def _components(ctx):
    ctx.rule("C23.R5", "every wasm definition built by the IR->wasm compiler is constructed with the argument shape of its class (id first, then the fields)", floor=8)
    n = component_arity(ctx, "C23.R5", [F])
    ctx.need(n >= 8, "component constructions in ppci2wasm not found (%d)" % n)


def _function_table(ctx):
    """R6: function pointers are indexes into the function table"""
    from ..tables import eq_branches
    from .. import sym
    ctx.rule("C23.R6", "function pointers: the address of a function is the index of ITS slot in the function table - a new slot when first taken, the remembered slot afterwards; the element segment lists the functions in slot order", floor=4)
    dt = ctx.fn(F, "IrToWasmCompiler.do_tree")
    site = F + ":IrToWasmCompiler.do_tree"
    apps = [c for c in ast.walk(dt) if isinstance(c, ast.Call) and norm(c.func) == "self.pointed_functions.append"]
    ctx.need(len(apps) == 1, "do_tree: function table growth not found")
    body = apps[0]._parent._parent
    stmts = body.body if apps[0]._parent in getattr(body, "body", []) else body.orelse
    idx = [s for s in stmts if isinstance(s, ast.Assign) and norm(s.value) == "len(self.pointed_functions)"]
    ok = len(idx) == 1 and idx[0].lineno < apps[0].lineno
    ctx.ob("C23.R6", site, "a function whose address is taken for the first time gets the next free slot: its index is len(table) BEFORE it is appended", ok, construct="new-slot-index", node=apps[0])
    addr = norm(idx[0].targets[0]) if idx else "addr"
    mem = [s for s in stmts if isinstance(s, ast.Assign) and isinstance(s.targets[0], ast.Subscript) and norm(s.value) == addr]
    ctx.ob("C23.R6", site, "the slot is remembered under the function's name", len(mem) == 1 and norm(mem[0].targets[0].slice) == "tree.value", construct="slot-remembered")
    if mem:
        reg = norm(mem[0].targets[0].value)
        cj = [(" ".join(norm(e).split()), pol) for e, pol in sym.conjuncts(apps[0], dt, {})]
        ctx.ob("C23.R6", site, "a function already in the table is not appended again: the remembered slot is used", any(((not pol) and t == "tree.value in %s" % reg) or (pol and t == "tree.value not in %s" % reg) for t, pol in cj), construct="slot-reused", detail=str(cj[:4]))
        look = [n for n in ast.walk(dt) if isinstance(n, ast.Assign) and norm(n.targets[0]) == addr and norm(n.value) == "%s[tree.value]" % reg]
        ctx.ob("C23.R6", site, "the remembered slot is what a later address-of yields", bool(look), construct="slot-lookup")
    ap = [c for c in ast.walk(apps[0]) if True]
    ctx.ob("C23.R6", site, "the table entry is the reference of the very function named by the label", norm(sym.deep_inline(apps[0].args[0], {s.targets[0].id: s.value for s in stmts if isinstance(s, ast.Assign) and isinstance(s.targets[0], ast.Name)})) == "self.function_refs[tree.value]", construct="slot-content")
    cm = ctx.fn(F, "IrToWasmCompiler.create_wasm_module")
    el = [c for c in ast.walk(cm) if isinstance(c, ast.Call) and norm(c.func) == "components.Elem"]
    env = sym.single_assign_env(cm)
    ok = len(el) == 1 and len(el[0].args) == 3 and norm(sym.deep_inline(el[0].args[2], env)) == "self.pointed_functions"
    tb = [c for c in ast.walk(cm) if isinstance(c, ast.Call) and norm(c.func) == "components.Table"]
    ok = ok and len(tb) == 1 and "len(" in norm(sym.deep_inline(tb[0].args[2], env)) and "pointed_functions" in norm(sym.deep_inline(tb[0].args[2], env))
    off = [c for c in ast.walk(cm) if isinstance(c, ast.Call) and norm(c.func) == "components.Instruction" and norm(c.args[0]) == "'i32.const'" and norm(c.args[1]) == "0"]
    ctx.ob("C23.R6", F + ":IrToWasmCompiler.create_wasm_module", "the element segment places the collected functions, in collection order, at table offset 0 of a table of exactly that size", ok and bool(off), construct="elem-in-slot-order")
    _memory_layout(ctx)


def _memory_layout(ctx):
    """R7: linear-memory layout of globals and literals"""
    ctx.rule("C23.R7", "linear memory: every global and every literal gets the address range [global_memory, global_memory + its full size); the size reserved is the size of the object as given (not of a shortened copy), so neighbours never overlap", floor=4)
    for q, coll, sizeexpr in (("IrToWasmCompiler.do_function", "frame.constants", None), ("IrToWasmCompiler.compile", "ir_module.variables", "amount")):
        fn = ctx.fn(F, q)
        site = F + ":" + q
        loops = [l for l in ast.walk(fn) if isinstance(l, ast.For) and norm(l.iter) == coll]
        if len(loops) != 1:
            ctx.ob("C23.R7", site, "the loop that places %s was found" % coll, False, construct="layout-loop:%s" % coll)
            continue
        l = loops[0]
        tv = [norm(e) for e in (l.target.elts if isinstance(l.target, ast.Tuple) else [l.target])]
        adv = [n for n in l.body if isinstance(n, ast.AugAssign) and norm(n.target) == "self.global_memory" and isinstance(n.op, ast.Add)]
        addr = [n for n in l.body if isinstance(n, ast.Assign) and norm(n.value) == "self.global_memory"]
        rebound = [n for n in ast.walk(l) if isinstance(n, (ast.Assign, ast.AugAssign)) and any(norm(t) in tv for t in (n.targets if isinstance(n, ast.Assign) else [n.target]))]
        ok_adv = len(adv) == 1 and (norm(adv[0].value) == "len(%s)" % tv[-1] if sizeexpr is None else norm(adv[0].value) == "%s.%s" % (tv[0], sizeexpr))
        ctx.ob("C23.R7", site, "the next free address advances by the full size of the object just placed (%s)" % ("len of the literal" if sizeexpr is None else "Variable.amount"),
               ok_adv and not rebound and bool(addr) and addr[0].lineno < adv[0].lineno, construct="advance-by-size:%s" % coll, node=(rebound[0] if rebound else (adv[0] if adv else l)),
               detail="advance by %s; loop variable re-bound: %s" % (norm(adv[0].value) if adv else "?", bool(rebound)))
        if sizeexpr is None:
            app = [c for c in ast.walk(l) if isinstance(c, ast.Call) and norm(c.func) == "self.initial_memory.append"]
            ok = len(app) == 1 and isinstance(app[0].args[0], ast.Tuple) and norm(app[0].args[0].elts[-1]) == tv[-1] and norm(app[0].args[0].elts[1]) == norm(addr[0].targets[0]) if addr else False
            ctx.ob("C23.R7", site, "the literal's bytes are placed at that address, unmodified", ok, construct="literal-data")
            lab = [n for n in l.body if isinstance(n, ast.Assign) and norm(n.targets[0]) == "self.global_labels[%s]" % tv[0]]
            ctx.ob("C23.R7", site, "the literal's label resolves to that address", bool(lab) and bool(addr) and norm(lab[0].value) == norm(addr[0].targets[0]), construct="literal-label")
    frame_slots(ctx, "C23.R8")
    _binop_lowering(ctx)
    _shape_stack(ctx)
    _no_silent_edge_drop(ctx)
    _return_lowering(ctx)


def _paths(stmts, state, fresh):
    """all straight-line paths through a statement list of assignments and ifs; values are sym.Aff over the inputs
    (a non-affine right-hand side such as `x % a` becomes a fresh atom).  Returns a list of final states."""
    from .. import sym
    states = [dict(state)]
    for st in stmts:
        nxt = []
        for s_ in states:
            if isinstance(st, (ast.Assign, ast.AugAssign)):
                tgt = norm(st.targets[0] if isinstance(st, ast.Assign) else st.target)
                env = {}
                def val(e):
                    a = _aff(e, s_)
                    if a is None:
                        fresh[0] += 1
                        return sym.atom("%s#%d" % (" ".join(norm(e).split())[:30], fresh[0]))
                    return a
                v = val(st.value)
                if isinstance(st, ast.AugAssign):
                    cur = s_.get(tgt, sym.atom(tgt))
                    v = cur + v if isinstance(st.op, ast.Add) else cur - v if isinstance(st.op, ast.Sub) else None
                    if v is None:
                        fresh[0] += 1
                        v = sym.atom("%s#%d" % (tgt, fresh[0]))
                n = dict(s_)
                n[tgt] = v
                nxt.append(n)
            elif isinstance(st, ast.If):
                nxt += _paths(st.body, s_, fresh)
                nxt += _paths(st.orelse, s_, fresh)
            elif isinstance(st, (ast.Expr, ast.Pass)):
                nxt.append(s_)
            else:
                return None
        states = nxt
        if any(x is None for x in states):
            return None
    return states


def _aff(e, state):
    """affine value of e with the current symbolic state substituted for names / self attributes"""
    from .. import sym
    if isinstance(e, (ast.Name, ast.Attribute)):
        k = norm(e)
        if k in state:
            return state[k]
        return sym.atom(k)
    if isinstance(e, ast.Constant) and isinstance(e.value, int) and not isinstance(e.value, bool):
        return sym.const(e.value)
    if isinstance(e, ast.UnaryOp) and isinstance(e.op, ast.USub):
        v = _aff(e.operand, state)
        return None if v is None else -v
    if isinstance(e, ast.BinOp) and isinstance(e.op, (ast.Add, ast.Sub)):
        a, b = _aff(e.left, state), _aff(e.right, state)
        if a is None or b is None:
            return None
        return a + b if isinstance(e.op, ast.Add) else a - b
    return None


def frame_slots(ctx, rid):
    """Frame.alloc hands out the stack slots of a function (for wasm: offsets from the frame pointer at the BOTTOM of
    the frame, which lives in linear memory).  Two slots must not overlap and the frame size that is reserved must
    cover the last slot: on every path  new stacksize == offset + size  (bottom) /  offset == -new stacksize  (top),
    and the slot starts at or after the old end."""
    from .. import sym
    S = "ppci/arch/stack.py"
    ctx.rule(rid, "Frame.alloc: on every path the frame grows to exactly the end of the new slot (bottom: stacksize' = offset + size; top: offset = -stacksize' and stacksize' >= stacksize + size), so slots never overlap and the reserved frame covers them", floor=3)
    fn = ctx.fn(S, "Frame.alloc")
    site = S + ":Frame.alloc"
    br = [n for n in fn.body if isinstance(n, ast.If) and "FramePointerLocation.TOP" in norm(n.test)]
    ctx.need(len(br) == 1 and br[0].orelse, "Frame.alloc: top / bottom branches not found")
    S0 = sym.atom("self.stacksize")
    size = sym.atom(fn.args.args[1].arg)
    for label, stmts in (("top", br[0].body), ("bottom", br[0].orelse)):
        fresh = [0]
        finals = _paths(stmts, {}, fresh)
        if finals is None:
            ctx.undecided(rid, site, "%s branch is not straight-line assignments and ifs" % label)
            continue
        oks, det = [], []
        for st in finals:
            off, new = st.get("offset"), st.get("self.stacksize", S0)
            if off is None:
                oks.append(False)
                continue
            if label == "bottom":
                oks.append(new - off == size)
                det.append("stacksize' - offset = %r" % (new - off,))
            else:
                oks.append(off + new == sym.const(0))
                det.append("offset + stacksize' = %r" % (off + new,))
        ctx.ob(rid, site, "%s frames: %s on every path (%d paths)" % (label, "the frame ends exactly where the new slot ends" if label == "bottom" else "the slot starts at the new (lower) end of the frame", len(finals)),
               bool(oks) and all(oks), construct="frame-covers-slot:" + label, detail="; ".join(det))
    # the slot never starts before the old end of the frame (bottom): offset - stacksize is 0 or a padding term that is added to BOTH
    finals = _paths(br[0].orelse, {}, [0]) or []
    ok = bool(finals) and all(st.get("offset") is not None and (st["offset"] - S0 == st.get("self.stacksize", S0) - S0 - size) for st in finals)
    ctx.ob(rid, site, "bottom frames: whatever padding precedes the slot is part of the frame (offset - old size == growth - size)", ok, construct="padding-in-frame")
    loc = [c for c in ast.walk(fn) if isinstance(c, ast.Call) and norm(c.func) == "StackLocation"]
    ctx.ob(rid, site, "the location handed out is (offset, size)", len(loc) == 1 and [norm(a) for a in loc[0].args] == ["offset", fn.args.args[1].arg], construct="location")


# opcode rewrites that are equivalent when the right operand is a constant power of two
SOUND_REWRITES = {("i32.div_u", "i32.shr_u"), ("i64.div_u", "i64.shr_u"), ("i32.mul", "i32.shl"), ("i64.mul", "i64.shl"), ("i32.rem_u", "i32.and"), ("i64.rem_u", "i64.and")}


def _binop_lowering(ctx):
    """R9: a binary IR operation becomes `<left> <right> <opcode>` with the opcode of binop_map.  A special case that
    swaps the opcode (strength reduction) must be an equivalence: signed division by 2^k is NOT an arithmetic shift
    (the shift rounds toward minus infinity, the division toward zero)."""
    from .. import minieval, sym
    ctx.rule("C23.R9", "binary operations are lowered as left operand, right operand, opcode from binop_map; any special case that emits another opcode is an equivalence for every operand value (table of sound power-of-two rewrites; signed division is never turned into a shift)", floor=3)
    cls = ctx.cls(F, "IrToWasmCompiler")
    fn = ctx.fn(F, "IrToWasmCompiler.do_tree")
    site = F + ":IrToWasmCompiler.do_tree"
    br = [n for n in fn.body if isinstance(n, ast.If) and " ".join(norm(n.test).split()) == "tree.name in self.binop_map"]
    ctx.need(len(br) == 1, "do_tree: binop branch not found")
    body = br[0].body
    table = _table(cls, "binop_map")
    ctx.need(table, "binop_map not found")
    opcodes = sorted({try_const(v) for v in table.values if isinstance(try_const(v), str)})
    kids = [c for st in body for c in ast.walk(st) if isinstance(c, ast.Call) and norm(c.func) == "self.do_tree"]
    args = [" ".join(norm(c.args[0]).split()) for c in kids]
    ctx.ob("C23.R9", site, "the left operand tree is emitted before the right one, each exactly once on every path that keeps it", args[:1] == ["tree[0]"] and "tree[0]" not in args[1:], construct="operand-order", detail=str(args))
    asg = [n for st in body for n in ast.walk(st) if isinstance(n, ast.Assign) and norm(n.targets[0]) == "opcode"]
    base = [n for n in asg if " ".join(norm(n.value).split()) == "self.binop_map[tree.name]"]
    ctx.ob("C23.R9", site, "the opcode is taken from binop_map[tree.name]", len(base) == 1, construct="opcode-from-table")
    em = [c for st in body for c in ast.walk(st) if isinstance(c, ast.Call) and norm(c.func) == "self.emit" and c.args and norm(c.args[0]) == "opcode"]
    ctx.ob("C23.R9", site, "and emitted after both operands", len(em) == 1 and all(k.lineno < em[0].lineno for k in kids), construct="opcode-last")
    # special cases: every other assignment to `opcode`
    bad, seen = [], 0
    for n in asg:
        if n in base:
            continue
        seen += 1
        conds = sym.conjuncts(n, fn, {})
        for o in opcodes:
            env = {"opcode": o}
            applies = True
            for c, pol in conds:
                if "binop_map" in norm(c):
                    continue
                try:
                    if bool(minieval.ev(c, env)) != pol:
                        applies = False
                        break
                except minieval.Undecidable:
                    continue          # a condition on the operand (constant, power of two): assumed satisfiable
            if not applies:
                continue
            try:
                o2 = minieval.ev(n.value, env)
            except minieval.Undecidable:
                bad.append("%s -> ? (%s)" % (o, norm(n.value)[:40]))
                continue
            if o2 != o and (o, o2) not in SOUND_REWRITES:
                bad.append("%s -> %s" % (o, o2))
    ctx.ob("C23.R9", site, "every opcode rewrite in the binop branch is in the table of equivalences (%d special case(s) found)" % seen, not bad, construct="rewrites-sound", detail="; ".join(bad[:4]))


def _shape_stack(ctx):
    """R10: the comparison of a conditional jump leaves an i32 on the wasm operand stack, which the `if` of an IfShape
    consumes.  `cjmp c ? S : S` (the optimizer produces it from `if (b) { }`) has ONE successor, so the structurer
    returns a BasicShape for that block: nothing consumes the i32, and the function body is ill-typed (ppci's own
    stack assertion fires).  The BasicShape branch has to discard it."""
    ctx.rule("C23.R10", "IR -> wasm, operand stack: an IfShape consumes the comparison its block leaves on the stack; a BasicShape whose block ends in a conditional jump (both targets the same block) drops it; every shape starts and ends with an empty stack", floor=3)
    fn = ctx.fn(F, "IrToWasmCompiler.do_shape")
    site = F + ":IrToWasmCompiler.do_shape"
    from ..tables import isinstance_branches
    br = {}
    node = fn.body[-1] if isinstance(fn.body[-1], ast.If) else next((n for n in fn.body if isinstance(n, ast.If)), None)
    while isinstance(node, ast.If):
        t = " ".join(norm(node.test).split())
        br[t] = node.body
        node = node.orelse[0] if len(node.orelse) == 1 and isinstance(node.orelse[0], ast.If) else None
    basic = br.get("isinstance(shape, relooper.BasicShape)")
    ifs = br.get("isinstance(shape, relooper.IfShape)")
    ctx.need(basic is not None and ifs is not None, "do_shape: BasicShape / IfShape branches not found")
    drops = [n for st in basic for n in ast.walk(st) if isinstance(n, ast.If) and " ".join(norm(n.test).split()).startswith("isinstance(") and "ir.CJump" in norm(n.test) and "last_instruction" in norm(n.test)]
    ok = len(drops) == 1 and any(isinstance(c, ast.Call) and norm(c.func) == "self.emit" and try_const(c.args[0]) == "drop" for c in ast.walk(drops[0])) \
        and any(isinstance(a, ast.AugAssign) and norm(a.target) == "self.stack" and isinstance(a.op, ast.Sub) for a in ast.walk(drops[0]))
    ctx.ob("C23.R10", site, "BasicShape: after the block's trees, a conditional-jump terminator's comparison result is dropped (and the stack counter decremented)", ok, construct="basic-shape-drops-condition")
    cons = [n for st in ifs for n in ast.walk(st) if isinstance(n, ast.AugAssign) and norm(n.target) == "self.stack" and isinstance(n.op, ast.Sub)]
    em = [c for st in ifs for c in ast.walk(st) if isinstance(c, ast.Call) and norm(c.func) == "self.emit" and c.args and try_const(c.args[0]) == "if"]
    ctx.ob("C23.R10", site, "IfShape: the `if` instruction consumes exactly the one value the block left", len(cons) == 1 and len(em) == 1 and cons[0].lineno < em[0].lineno, construct="if-consumes-condition")
    asserts = [n for n in ast.walk(fn) if isinstance(n, ast.Assert) and "self.stack == 0" in norm(n.test)]
    ctx.ob("C23.R10", site, "loops, breaks and continues are only emitted with an empty operand stack (asserted)", len(asserts) >= 4, construct="empty-stack-asserted", detail="%d assertions" % len(asserts))


def _no_silent_edge_drop(ctx):
    """R11: the structurer realises every CFG edge as code, `continue`, `break` or as the fall-through to the follow-up
    of the if it is shaping.  StructureDetector.test decides this for edges to nodes that were structured already
    (marked).  An edge to a marked node that is none of these three cannot be expressed; it has to be refused -
    returning None ("nothing to emit") makes the branch fall out of the enclosing construct."""
    RL = "ppci/graph/relooper.py"
    ctx.rule("C23.R11", "relooper: an edge to an already structured node is a continue (loop header), a break (loop follow-up) or the fall-through to the pending if follow-up; any other such edge is refused with an error, never dropped silently", floor=3)
    fn = ctx.fn(RL, "StructureDetector.test")
    site = RL + ":StructureDetector.test"
    br = [n for n in fn.body if isinstance(n, ast.If) and " ".join(norm(n.test).split()) == "%s in self.marked" % fn.args.args[1].arg]
    ctx.need(len(br) == 1, "StructureDetector.test: marked branch not found")
    rets = [r for st in br[0].body for r in ast.walk(st) if isinstance(r, ast.Return)]
    kinds = [norm(r.value) if r.value is not None else "None" for r in rets]
    ctx.ob("C23.R11", site, "an edge to the header of the loop being shaped is a continue", any(k.startswith("ContinueShape(") for k in kinds), construct="continue")
    ctx.ob("C23.R11", site, "an edge to the follow-up of the loop being shaped is a break", any(k.startswith("BreakShape(") for k in kinds), construct="break")
    from ..sym import conjuncts
    none_rets = [r for r in rets if r.value is None or norm(r.value) == "None"]
    guarded = True
    for r in none_rets:
        conds = [" ".join(norm(c).split()) for c, pol in conjuncts(r, fn, {})]
        if not any("follow" in c and "loop_stack" not in c for c in conds):
            guarded = False
    raises = [x for st in br[0].body for x in ast.walk(st) if isinstance(x, ast.Raise)]
    ctx.ob("C23.R11", site, "`nothing to emit` is returned only for the pending follow-up of an if; any other marked target raises (an inner loop header reached from a second branch, a join that is not the post-dominator ...)", bool(none_rets) and guarded and bool(raises),
           construct="no-silent-drop", node=none_rets[0] if none_rets else br[0], detail="None returned %s; raises in the branch: %d" % ("only under a follow-up test" if guarded else "without testing that the node is the pending follow-up", len(raises)))


def _return_lowering(ctx):
    """R12.  An IR return/exit reaches the wasm generator as a jump to the epilog label.  Shapes only structure the edges
    between blocks; leaving the FUNCTION from the middle of a loop or an if needs the wasm `return` instruction - without
    it the path falls out of the enclosing construct and runs whatever follows (the follow-up shape, the next loop
    iteration).  So the epilog-jump branch emits `return` on every path, after the frame was released and the result,
    if there is one, was pushed."""
    ctx.rule("C23.R12", "IR -> wasm, return: the jump to the epilog label emits the wasm `return` on every path (value or not), after the stack pointer is restored and the result register, if any, is pushed", floor=3)
    dt = ctx.fn(F, "IrToWasmCompiler.do_tree")
    br = [n for n in ast.walk(dt) if isinstance(n, ast.If) and norm(n.test) in ("tree.value is self.fi.epilog_label", "self.fi.epilog_label is tree.value")]
    ctx.need(len(br) == 1, "do_tree: the branch for the jump to the epilog label was not found")
    site = F + ":IrToWasmCompiler.do_tree"
    def paths(body):
        """list of event sequences, one per path through body"""
        seqs = [[]]
        for st in body:
            if isinstance(st, ast.If):
                a, b = paths(st.body), paths(st.orelse)
                seqs = [x + y for x in seqs for y in a + b]
                continue
            ev = []
            for c in ast.walk(st):
                if isinstance(c, ast.Call) and norm(c.func) == "self.emit" and c.args and isinstance(c.args[0], ast.Constant):
                    ev.append("emit:" + str(c.args[0].value))
                elif isinstance(c, ast.Call) and norm(c.func) == "self.decrement_stack_pointer":
                    ev.append("restore-sp")
            # calls are found innermost-last by ast.walk on one statement; one emit per statement in this code
            seqs = [x + ev for x in seqs]
        return seqs
    ps = paths(br[0].body)
    ctx.ob("C23.R12", site, "every path through the epilog-jump branch ends with the wasm `return`", all(p and p[-1] == "emit:return" and p.count("emit:return") == 1 for p in ps), construct="return-on-every-path", node=br[0],
           detail="paths: %s" % ps)
    ctx.ob("C23.R12", site, "the frame is released (stack pointer restored) before the return on every path", all("restore-sp" in p and p.index("restore-sp") < len(p) - 1 for p in ps if p), construct="sp-restored-before-return", node=br[0])
    withv = [p for p in ps if "emit:local.get" in p]
    guard = [n for n in ast.walk(br[0]) if isinstance(n, ast.If) and n is not br[0] and "rv_vreg" in norm(n.test)]
    ctx.ob("C23.R12", site, "the result register is pushed right before the return when the function has one", len(withv) >= 1 and all(p[-2] == "emit:local.get" for p in withv) and len(guard) == 1, construct="result-pushed", node=br[0])
