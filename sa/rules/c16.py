"""C16 - IR JSON round trip: per record kind the keys written = keys read,
read keys reach the field they were written from, every instruction class is
handled on both sides, class fields are covered."""
import ast

from ..core import norm, walk_no_nested, calls_in, call_name, attr_chain, try_const, init_fields, params_of
from .. import tables

F = "ppci/irutils/io.py"
IR = "ppci/ir.py"
# instruction classes that never occur in a finished module's blocks
NOT_IN_BLOCKS = {
    "Instruction": "abstract", "LocalValue": "abstract", "FinalInstruction": "abstract", "JumpBase": "abstract",
    "Parameter": "function parameter, serialized with the subroutine",
    "JumpTable": "constructor raises NotImplementedError",
}
# keys that need not be read, with reason
UNREAD_OK = {("alloc", "type"): "Alloc is always of pointer type; its constructor takes no type"}
# fields that carry no serializable state, with reason
FIELD_OK = {"Phi": {"inputs": "written as the `inputs` list through .inputs.items()"}}
FIELD_DERIVED = {"targets": "successor list of a terminator, rebuilt by the constructor (always empty for Exit/Return)"}


def kind_records(writer, wvar):
    """{kind: (class names, {key: Written})} of an isinstance-dispatched writer"""
    out = {}
    for cname, (ifn, body) in tables.isinstance_branches(writer, wvar).items():
        ws = tables.dict_writes(body, "json_subroutine")
        kinds = [(try_const(w.value), w.node) for w in ws if w.key == "kind"]
        if len(kinds) == 1 and isinstance(kinds[0][0], str):
            rec = out.setdefault(kinds[0][0], ([], {}))
            rec[0].append(cname)
            for w in ws:
                # keys of the record itself: the dict literal carrying "kind", or stores into it
                if w.key != "kind" and (w.node is kinds[0][1] or isinstance(w.node, ast.Assign)):
                    rec[1].setdefault(w.key, w)
    return out


def run(ctx):
    _scope_rule(ctx)
    ctx.rule("C16.R1", "every IR instruction class that can occur in a block is written and read", floor=18)
    ctx.rule("C16.R2", "per record kind: keys written = keys read", floor=60)
    ctx.rule("C16.R3", "each key read reaches the constructor parameter of the field it was written from", floor=25)
    ctx.rule("C16.R4", "plain records (module, variable, block, subroutine, parameter): keys written = keys read; fields covered", floor=15)
    project = ctx.project
    W = lambda n: ctx.fn(F, "DictWriter." + n)
    R = lambda n: ctx.fn(F, "DictReader." + n)

    # ---- R1 -----------------------------------------------------------
    base = ctx.cls(IR, "Instruction")
    wi, ri = W("write_instruction"), R("construct_instruction")
    wrec = kind_records(wi, "instruction")
    rb = tables.eq_branches(ri, "itype")
    written_classes = {c.split(".")[-1]: k for k, (cs, _) in wrec.items() for c in cs}
    for c in sorted(project.subclasses(base), key=lambda c: c.name):
        if c._module.rel != IR or c.name in NOT_IN_BLOCKS:
            continue
        ctx.saw("classes", "%s:%s" % (IR, c.name))
        ctx.ob("C16.R1", F + ":DictWriter.write_instruction", "instruction class ir.%s has a writer branch" % c.name, c.name in written_classes, construct="class:" + c.name)
    for k in sorted(set(wrec) | set(rb)):
        ctx.ob("C16.R1", F + ":DictReader.construct_instruction", "instruction kind %r is written and read" % k, k in wrec and k in rb, construct="kind:%s" % k)

    # ---- R2/R3 for kind-dispatched records ------------------------------
    groups = [
        ("write_instruction", "instruction", "construct_instruction", "json_instruction", "itype", ["json_phi_input"]),
        ("write_external", "external", "construct_external", "json_external", "etype", []),
        ("write_type", "ty", "get_type", "json_type", "tkind", []),
        ("write_initial_value", "part", "construct_initial_value", "json_part", "pkind", []),
    ]
    for wname, wvar, rname, rvar, kvar, extra in groups:
        wf, rf = W(wname), R(rname)
        wrec = kind_records(wf, wvar)
        rb = tables.eq_branches(rf, kvar)
        site = "%s:%s<->%s" % (F, wname, rname)
        # keys read before the dispatch (e.g. name = json_external["name"]) count for every kind
        common = set(tables.key_reads([s for s in rf.body if not isinstance(s, ast.If)], rvar)) - {"kind"}
        if wname != "write_instruction":
            for k in sorted(set(wrec) | set(rb)):
                ctx.ob("C16.R1", site, "record kind %r is written and read" % k, k in wrec and k in rb, construct="kind:%s" % k)
        for k in sorted(set(wrec) & set(rb)):
            cnames, wkeys = wrec[k]
            reads = tables.key_reads(rb[k][1], rvar)
            rkeys = set(reads) | common
            inner_w = set()
            for key in sorted(set(wkeys) | set(reads)):
                if (k, key) in UNREAD_OK and key in wkeys:
                    continue
                ctx.ob("C16.R2", site, "kind %r: key %r written and read" % (k, key), key in wkeys and key in rkeys, construct="%s:%s" % (k, key),
                       detail="written=%s read=%s" % (key in wkeys, key in rkeys))
            # sinks
            cls = None
            for cn in cnames:
                r = project.resolve_name(wf._module, cn)
                if isinstance(r, ast.ClassDef):
                    cls = r
            for key, w in wkeys.items():
                if key not in reads:
                    continue
                rn = [n for n in reads[key] if isinstance(n, ast.Subscript)]
                src = tables.source_field(w.value, wvar)
                if not rn or not src:
                    continue
                sinks = tables.sink_of(project, rf, rn[0])
                names = {n for kind, n in sinks if kind in ("param", "attr")}
                if names:
                    ctx.ob("C16.R3", site, "kind %r: key %r (written from .%s) is read into the same field" % (k, key, src), src in names, construct="sink:%s:%s" % (k, key), detail="reaches %s" % sorted(names))
            # class fields covered by the writer branch
            if cls is not None and wname == "write_instruction":
                fields = init_fields(project, cls, own_only=True)
                branch_attrs = set()
                for cn, (ifn, body) in tables.isinstance_branches(wf, wvar).items():
                    if cn in cnames:
                        for st in body:
                            for n in walk_no_nested(st):
                                ch = attr_chain(n) if isinstance(n, ast.Attribute) else None
                                if ch and ch.startswith(wvar + "."):
                                    branch_attrs.add(ch.split(".")[1])
                for f in sorted(fields):
                    if (f in FIELD_OK.get(cls.name, {}) and f in branch_attrs) or f in FIELD_DERIVED:
                        continue
                    ctx.ob("C16.R2", site, "field ir.%s.%s is written" % (cls.name, f), f in branch_attrs, construct="field:%s.%s" % (cls.name, f))
    # phi inputs inner record
    wphi = [w for w in tables.dict_writes(tables.isinstance_branches(W("write_instruction"), "instruction")["ir.Phi"][1]) if w.key in ("block", "value")]
    rphi = tables.key_reads(tables.eq_branches(R("construct_instruction"), "itype")["phi"][1], "json_phi_input")
    ctx.ob("C16.R2", F + ":phi-input", "phi input record: keys written = keys read", {w.key for w in wphi} == set(rphi) == {"block", "value"}, construct="phi-input")

    # ---- R4 plain records -------------------------------------------------
    plain = [
        ("write_module", "construct", ["d"], ("Module", "module", {"debug_db": "debug database is not part of the JSON format", "_function_map": "index", "_variables": "via .variables", "_externals": "via .externals", "_functions": "via .functions"})),
        ("write_variable", "construct_variable", ["json_variable"], ("Variable", "variable", {})),
        ("write_block", "construct_block", ["json_block"], None),
        ("write_subroutine", "construct_subroutine", ["json_subroutine", "json_parameter"], None),
    ]
    for wname, rname, rvars, clsinfo in plain:
        wf, rf = W(wname), R(rname)
        wk = {w.key for w in tables.dict_writes(wf.body, "json_subroutine")}
        rk = set()
        for v in rvars:
            rk |= set(tables.key_reads(rf.body, v))
        site = "%s:%s<->%s" % (F, wname, rname)
        for key in sorted(wk | rk):
            ctx.ob("C16.R4", site, "key %r written and read" % key, key in wk and key in rk, construct="key:" + key, detail="written=%s read=%s" % (key in wk, key in rk))
        if clsinfo:
            cname, var, exc = clsinfo
            cls = ctx.cls(IR, cname)
            attrs = {attr_chain(n).split(".")[1] for n in ast.walk(wf) if isinstance(n, ast.Attribute) and (attr_chain(n) or "").startswith(var + ".")}
            for f in sorted(init_fields(project, cls)):
                if f in exc or f in ("used_by", "name", "ty") and f not in attrs and f != "name":
                    continue
                ctx.ob("C16.R4", site, "field ir.%s.%s is written" % (cname, f), f in attrs or f.lstrip("_") in attrs, construct="field:%s.%s" % (cname, f))
    # variable: sinks
    rf = R("construct_variable")
    reads = tables.key_reads(rf.body, "json_variable")
    for key, field in (("amount", "amount"), ("alignment", "alignment"), ("value", "value"), ("binding", "binding"), ("name", "name")):
        rn = [n for n in reads.get(key, []) if isinstance(n, ast.Subscript)]
        if rn:
            names = {n for kind, n in tables.sink_of(project, rf, rn[0]) if kind in ("param", "attr")}
            ctx.ob("C16.R3", F + ":construct_variable", "variable key %r reaches ir.Variable.%s" % (key, field), field in names, construct="sink:variable:" + key, detail=str(sorted(names)))
    _types_and_placeholders(ctx)

    _typed_placeholders(ctx)

def _scope_rule(ctx):
    """name resolution must search the innermost scope first (locals shadow
    module-level names) and define into the innermost scope"""
    import ast as _a
    from ..core import norm as _n, walk_no_nested as _w
    rid = "C16.R9"
    ctx.rule(rid, "value names resolve innermost scope first; definitions go to the innermost scope", floor=2)
    lk = ctx.fn("ppci/irutils/io.py", "DictReader.get_value_ref")
    loops = [x for x in _w(lk) if isinstance(x, _a.For) and "scopes" in _n(x.iter)]
    ok = bool(loops) and _n(loops[0].iter) in ("reversed(self.scopes)", "self.scopes[::-1]")
    ctx.ob(rid, "ppci/irutils/io.py:DictReader.get_value_ref", "lookup walks the scope stack from the innermost scope outwards", ok, construct="innermost-first", detail=_n(loops[0].iter) if loops else "no loop over scopes")
    df = ctx.fn("ppci/irutils/io.py", "DictReader.register_value")
    st = [x for x in _w(df) if isinstance(x, _a.Assign) and "value_map" in _n(x.targets[0])]
    ok = bool(st) and _n(st[0].targets[0]).startswith("self.scopes[-1].value_map[")
    ctx.ob(rid, "ppci/irutils/io.py:DictReader.register_value", "a new value is defined in the innermost scope", ok, construct="define-innermost")


def _types_and_placeholders(ctx):
    import ast as _a
    from ..core import norm as _n, walk_no_nested as _w, last_name as _l
    from ..tables import eq_branches
    from ..shapes import get_or_create
    from .. import sym
    IO = "ppci/irutils/io.py"
    ctx.rule("C16.R5", "types: a blob type read back is determined by BOTH its size and its alignment (construction and any cache key); basic types are looked up by name among ir.all_types", floor=3)
    gt = ctx.fn(IO, "DictReader.get_type")
    site = IO + ":DictReader.get_type"
    br = eq_branches(gt, "tkind") or eq_branches(gt, "json_type['kind']")
    ctx.need("blob" in br and "basic" in br, "get_type: kind dispatch not found")
    body = br["blob"][1]
    env = {}
    for s in body:
        if isinstance(s, _a.Assign) and isinstance(s.targets[0], _a.Name) and s.targets[0].id not in env:
            env[s.targets[0].id] = s.value
    mk = [c for s in body for c in _a.walk(s) if isinstance(c, _a.Call) and _n(c.func) == "ir.BlobDataTyp"]
    ok = len(mk) >= 1
    for c in mk:
        args = [_n(sym.deep_inline(a, env)) for a in c.args]
        ok = ok and len(args) == 2 and "['size']" in args[0] and "['alignment']" in args[1]
    ctx.ob("C16.R5", site, "a blob type is built as BlobDataTyp(size, alignment) from the two keys of the record", ok, construct="blob-from-size-and-alignment", detail=str([_n(c) for c in mk]))
    keys = [n.slice for s in body for n in _a.walk(s) if isinstance(n, _a.Subscript) and not _n(n.value).startswith("json_type") and not isinstance(n.slice, _a.Constant)]
    keys += [c.args[0] for s in body for c in _a.walk(s) if isinstance(c, _a.Call) and _l(c) in ("get", "setdefault") and c.args and not _n(c.func.value).startswith("json_type")]
    if keys:
        full = all("['size']" in _n(sym.deep_inline(k, env)) and "['alignment']" in _n(sym.deep_inline(k, env)) for k in keys)
        ctx.ob("C16.R5", site, "a cache of decoded blob types is keyed by size AND alignment (two blobs of one size may differ in alignment)", full, construct="blob-cache-key", detail=str([_n(sym.deep_inline(k, env)) for k in keys]))
    else:
        ctx.ob("C16.R5", site, "blob types are not cached (nothing to key)", True, construct="blob-cache-key")
    bb = br["basic"][1]
    ok = any("ir.all_types" in _n(s) for s in bb) and any("json_type['name']" in _n(s) for s in bb)
    ctx.ob("C16.R5", site, "a basic type is found by its name among ir.all_types", ok, construct="basic-by-name")
    # forward references (same idiom as the text reader)
    rid = "C16.R6"
    ctx.rule(rid, "forward references: one registered placeholder per undefined name, replaced when the value is registered", floor=4)
    fv = ctx.fn(IO, "DictReader.get_value_ref")
    g = get_or_create(fv, lambda c: _n(c.func) == "ir.Undefined")
    ctx.need(g is not None, "get_value_ref: creation of the placeholder not found")
    site = IO + ":DictReader.get_value_ref"
    ctx.ob(rid, site, "a placeholder is created only when none is registered for the name", g["guarded"], construct="create-only-if-absent", node=g["node"])
    ctx.ob(rid, site, "the new placeholder is registered under the name", g["stored"], construct="registered", node=g["node"])
    ctx.ob(rid, site, "a second use of the name returns the registered placeholder", g["reused"], construct="registered-one-reused", node=g["node"])
    rv = ctx.fn(IO, "DictReader.register_value")
    rep = [c for c in _a.walk(rv) if isinstance(c, _a.Call) and _l(c) == "replace_by"]
    pops = [n for n in _a.walk(rv) if isinstance(n, _a.Assign) and isinstance(n.value, _a.Call) and _l(n.value) == "pop" and g["registry"] and _n(n.value.func.value) == g["registry"]]
    ok = len(rep) == 1 and len(pops) == 1 and _n(rep[0].func.value) == _n(pops[0].targets[0]) and _n(rep[0].args[0]) == rv.args.args[1].arg
    ctx.ob(rid, IO + ":DictReader.register_value", "registering a value takes its placeholder out of the registry and replaces all its uses", ok, construct="patch-on-register")


def _typed_placeholders(ctx):
    """R7: a value that is used before the block that defines it is read (block order need not be dominance order)
    is represented by an ir.Undefined placeholder until its definition arrives.  ir.Binop / ir.Unop check the types of
    their operands in the constructor, so a placeholder created for such an operand must carry the instruction's type
    (the default, ptr, makes `Binop type mismatch ptr != i32`)."""
    F_ = "ppci/irutils/io.py"
    ctx.rule("C16.R7", "JSON reader: operands of a binop are looked up with the binop's own type, so that a forward-reference placeholder created for them passes the constructor's type check", floor=2)
    fn = ctx.fn(F_, "DictReader.construct_instruction")
    import ast
    br = None
    for n in ast.walk(fn):
        if isinstance(n, ast.If) and " ".join(norm(n.test).split()) in ("itype == 'binop'", 'itype == "binop"'):
            br = n
    ctx.need(br is not None, "construct_instruction: binop branch not found")
    calls = [c for st in br.body for c in ast.walk(st) if isinstance(c, ast.Call) and norm(c.func) == "self.get_value_ref"]
    tyv = [n for st in br.body for n in ast.walk(st) if isinstance(n, ast.Assign) and isinstance(n.value, ast.Call) and norm(n.value.func) == "self.get_type"]
    tname = norm(tyv[0].targets[0]) if tyv else None
    for c in calls:
        key = norm(c.args[0])
        ok = tname is not None and any(k.arg == "ty" and norm(k.value) == tname for k in c.keywords)
        ctx.ob("C16.R7", F_ + ":DictReader.construct_instruction", "binop operand %s is looked up with ty=<the binop's type>" % key, ok, construct="typed-operand:" + key, node=c)
    ctx.need(len(calls) == 2, "construct_instruction: the two operand lookups of binop not found")
