"""C06 - register allocation: shape obligations that are necessary for "no
live value is clobbered": the liveness equations, interference edges between
everything live across or defined by an instruction (and its clobbers),
colour exclusion through the alias table, spill code placement.  Colouring
correctness for every graph, coalescing safety and the worklist invariants
are not decided."""
import ast

from ..core import norm, walk_no_nested, calls_in, last_name
from .. import setalg

FG = "ppci/codegen/flowgraph.py"
IG = "ppci/codegen/interferencegraph.py"
RA = "ppci/codegen/registerallocator.py"


def _anc(n):
    out = []
    n = getattr(n, "_parent", None)
    while n is not None:
        out.append(n)
        n = getattr(n, "_parent", None)
    return out


def run(ctx):
    ctx.rule("C06.R1", "liveness: in = gen | (out - kill), out = union of the successors' in, iterated until neither changes; the same equation per instruction inside a block", floor=8)
    ctx.rule("C06.R2", "interference: every pair of registers live after or defined by an instruction interferes, and each interferes with the instruction's clobbers", floor=4)
    ctx.rule("C06.R3", "colouring: a node may not take the colour of a neighbour nor of any register aliasing a neighbour's colour; without a free register the node is spilled", floor=4)
    ctx.rule("C06.R4", "spilling: a reload is inserted before every reading instruction and a store after every writing instruction, through the same stack slot", floor=4)
    cl = ctx.fn(FG, "FlowGraph.calculate_liveness")
    s = FG + ":FlowGraph.calculate_liveness"
    eqs = [n for n in ast.walk(cl) if isinstance(n, ast.Assign) and norm(n.targets[0]).endswith(".live_in") and isinstance(n.value, ast.BinOp)]
    ctx.need(len(eqs) >= 3, "liveness equations not found")
    for i, e in enumerate(eqs):
        x = norm(e.targets[0])[: -len(".live_in")]
        want = "%s.gen | (%s.live_out - %s.kill)" % (x, x, x)
        try:
            ok = setalg.equivalent(setalg.term(e.value), setalg.parse(want))
        except setalg.NotSetAlgebra:
            ok = False
        ctx.ob("C06.R1", s, "%s.live_in = %s.gen | (%s.live_out - %s.kill)" % (x, x, x, x), ok, construct="in-eq:%d:%s" % (i, x), node=e, detail=norm(e.value))
    outs = [n for n in ast.walk(cl) if isinstance(n, ast.Assign) and norm(n.targets[0]) == "node.live_out" and isinstance(n.value, ast.Call) and norm(n.value.func) == "set.union"]
    ok = bool(outs) and "s.live_in for s in node.successors" in norm(outs[0].value)
    ctx.ob("C06.R1", s, "node.live_out is the union of live_in over node.successors", ok, construct="out-eq", detail=norm(outs[0].value) if outs else "")
    loops = [n for n in walk_no_nested(cl) if isinstance(n, ast.While) and norm(n.test) == "change"]
    ch = [n for l in loops for n in ast.walk(l) if isinstance(n, ast.Assign) and norm(n.targets[0]) == "change" and isinstance(n.value, ast.BoolOp)]
    ok = bool(ch) and "_in != node.live_in" in norm(ch[0].value) and "_out != node.live_out" in norm(ch[0].value) and "change or" in norm(ch[0].value)
    ctx.ob("C06.R1", s, "iteration continues while any live_in or live_out changed", ok, construct="fixpoint", detail=norm(ch[0].value) if ch else "")
    # the fixed point is taken over EVERY node: nodes outside the worklist keep empty live sets (a region that cannot reach an exit - for(;;) - still has live values)
    def all_nodes(e):
        t = norm(e)
        if t in ("self", "self.nodes"):
            return True
        if isinstance(e, ast.Call) and norm(e.func) in ("list", "tuple", "sorted", "reversed") and e.args and all_nodes(e.args[0]):
            return True
        return False
    fl = [f for l in loops for f in walk_no_nested(l) if isinstance(f, ast.For) and any(isinstance(x, ast.Assign) and norm(x.targets[0]).endswith(".live_in") for x in ast.walk(f))]
    ok = len(fl) == 1
    det = ""
    if ok:
        it = fl[0].iter
        if isinstance(it, ast.Name):
            defs = [n for n in walk_no_nested(cl) if (isinstance(n, ast.Assign) and any(isinstance(t, ast.Name) and t.id == it.id for t in n.targets)) or (isinstance(n, ast.AugAssign) and norm(n.target) == it.id)]
            muts = [c for c in ast.walk(cl) if isinstance(c, ast.Call) and isinstance(c.func, ast.Attribute) and norm(c.func.value) == it.id and c.func.attr in ("append", "extend", "remove", "pop", "insert", "clear")]
            ok = bool(defs) and all(isinstance(n, ast.Assign) and all_nodes(n.value) for n in defs) and not muts
            det = "; ".join(" ".join(norm(n).split())[:70] for n in defs) + ("; mutated by %s" % ", ".join(c.func.attr for c in muts) if muts else "")
        else:
            ok = all_nodes(it)
            det = norm(it)
    ctx.ob("C06.R1", s, "the fixed-point loop visits every node of the flow graph (its worklist is the whole node set, in any order)", ok, construct="worklist-all-nodes", detail=det)
    chain = [n for n in ast.walk(cl) if isinstance(n, ast.Assign) and norm(n.targets[0]) == "ins1.live_out"]
    ctx.ob("C06.R1", s, "inside a block an instruction's live_out is its successor's live_in", bool(chain) and norm(chain[0].value) == "ins2.live_in", construct="chain")
    last = [n for n in ast.walk(cl) if isinstance(n, ast.Assign) and norm(n.targets[0]) == "ins2.live_out"]
    ctx.ob("C06.R1", s, "the last instruction of a block takes the block's live_out", bool(last) and norm(last[0].value) == "node.live_out", construct="block-out")
    ai = ctx.fn(FG, "FlowGraphNode.add_instruction")
    sa_ = FG + ":FlowGraphNode.add_instruction"
    ctx.need(len(ai.args.args) == 2, "add_instruction(self, ins) signature changed")
    me, p = ai.args.args[0].arg, ai.args.args[1].arg
    G, K, g, k = me + ".gen", me + ".kill", p + ".gen", p + ".kill"
    try:
        locs = {t.id for n in ast.walk(ai) if isinstance(n, ast.Assign) for t in n.targets if isinstance(t, ast.Name)}
        env = setalg.run_straight_line(ai.body, tracked={G, K, g, k} | locs)
        ienv = {x: env[x] for x in (g, k) if x in env}
        ctx.ob("C06.R1", sa_, "gen = used registers, kill = defined registers",
               setalg.equivalent(env.get(g, ("atom", g)), setalg.parse(p + ".used_registers")) and setalg.equivalent(env.get(k, ("atom", k)), setalg.parse(p + ".defined_registers")),
               construct="gen-kill", detail="%s; %s" % (setalg.show(env.get(g, ("atom", g))), setalg.show(env.get(k, ("atom", k)))))
        ctx.ob("C06.R1", sa_, "appending an instruction to a node: node.gen' = node.gen | (ins.gen - node.kill), with node.kill as it was BEFORE this instruction's definitions are added (a register the instruction both reads and writes is upward exposed)",
               G in env and setalg.equivalent(env[G], setalg.parse("%s | (%s - %s)" % (G, g, K), ienv)), construct="compose-gen", detail=setalg.show(env.get(G, ("atom", G))))
        ctx.ob("C06.R1", sa_, "appending an instruction to a node: node.kill' = node.kill | ins.kill",
               K in env and setalg.equivalent(env[K], setalg.parse("%s | %s" % (K, k), ienv)), construct="compose-kill", detail=setalg.show(env.get(K, ("atom", K))))
    except setalg.NotSetAlgebra as e:
        ctx.undecided("C06.R1", sa_, "gen/kill composition is not a straight-line set expression: %s" % e)
    app = [c for c in ast.walk(ai) if isinstance(c, ast.Call) and norm(c.func) == me + ".instructions.append" and norm(c.args[0]) == p]
    ctx.ob("C06.R1", sa_, "the instruction is recorded in the node (per-instruction liveness walks node.instructions)", bool(app), construct="recorded")

    ci = ctx.fn(IG, "InterferenceGraph.calculate_interference")
    s = IG + ":InterferenceGraph.calculate_interference"
    edge_calls = [c for c in ast.walk(ci) if isinstance(c, ast.Call) and norm(c.func) == "self.add_edge"]
    ctx.need(edge_calls, "calculate_interference adds no edges")
    # the loop nest that adds edges: outer loop variable set S, inner loop over S again
    nests = []
    for c in edge_calls:
        fors = [a for a in _anc(c) if isinstance(a, ast.For)]
        if len(fors) >= 2:
            nests.append((c, fors[0], fors[1]))
    pair = [(c, i, o) for c, i, o in nests if norm(i.iter) == norm(o.iter)]
    ctx.ob("C06.R2", s, "an edge is added for every ordered pair of members of one set", bool(pair), construct="pair-edges")
    setvar = norm(pair[0][2].iter) if pair else None
    lad = [n for n in ast.walk(ci) if isinstance(n, ast.Assign) and setvar is not None and norm(n.targets[0]) == setvar]
    src = norm(lad[0].value) if len(lad) == 1 else (setvar or "")
    ok = ".live_out" in src and ".kill" in src and "|" in src
    ctx.ob("C06.R2", s, "that set is live_out | kill of the instruction (a dead definition still occupies its register)", ok, construct="live-and-def", detail=src)
    if pair:
        c, inner, outer = pair[0]
        guards = [a for a in _anc(c) if isinstance(a, ast.If) and any(a is x for x in ast.walk(inner))]
        a1, a2 = norm(outer.target), norm(inner.target)
        okg = all(norm(g.test) in ("%s is not %s" % (a2, a1), "%s is not %s" % (a1, a2), "%s != %s" % (a2, a1), "%s != %s" % (a1, a2)) for g in guards)
        minus = norm(inner.iter) != norm(outer.iter)
        ctx.ob("C06.R2", s, "only the register itself is exempt from interfering", okg, construct="self-exempt", detail=str([norm(g.test) for g in guards]))
    clob = [(c, i, o) for c, i, o in nests if norm(i.iter).endswith(".clobbers") and setvar is not None and norm(o.iter) == setvar]
    ctx.ob("C06.R2", s, "every member of the set interferes with every clobbered register of the instruction", bool(clob), construct="clobber-edges")
    allins = [n for n in ast.walk(ci) if isinstance(n, ast.For) and norm(n.iter) == "n.instructions"]
    ctx.ob("C06.R2", s, "all instructions of all flow graph nodes are visited", bool(allins) and any(isinstance(a, ast.For) and norm(a.iter) == "flowgraph" for a in _anc(allins[0])), construct="all-instructions")

    ac = ctx.fn(RA, "GraphColoringRegisterAllocator.assign_colors")
    s = RA + ":GraphColoringRegisterAllocator.assign_colors"
    nb = [n for n in ast.walk(ac) if isinstance(n, ast.For) and norm(n.iter) == "node.adjecent"]
    ctx.need(nb, "assign_colors: neighbour loop not found")
    body = nb[0]
    cand = [n for n in ast.walk(ac) if isinstance(n, ast.Assign) and isinstance(n.value, ast.BinOp) and isinstance(n.value.op, ast.Sub) and "cls_regs[" in norm(n.value.left)]
    ctx.need(len(cand) == 1, "assign_colors: candidate register computation not found")
    okv, taken = norm(cand[0].targets[0]), norm(cand[0].value.right)
    nbv = norm(body.target)
    alias_loop = [n for n in ast.walk(body) if isinstance(n, ast.For) and norm(n.iter) == "self.alias[%s.reg]" % nbv]
    add_alias = [c for l in alias_loop for c in ast.walk(l) if isinstance(c, ast.Call) and norm(c.func) == taken + ".add" and norm(c.args[0]) == norm(l.target)]
    add_self = [c for c in ast.walk(body) if isinstance(c, ast.Call) and norm(c.func) == taken + ".add" and norm(c.args[0]) == nbv + ".reg"]
    ctx.ob("C06.R3", s, "for each neighbour every register aliasing its colour is excluded", bool(alias_loop) and bool(add_alias), construct="alias-excluded")
    ctx.ob("C06.R3", s, "a neighbour colour without alias entry is itself excluded", bool(add_self), construct="color-excluded")
    ctx.ob("C06.R3", s, "candidates are the registers of the node's class minus the excluded ones", norm(cand[0].value.left) == "self.cls_regs[node.reg_class]", construct="candidates", detail=norm(cand[0].value))
    fresh = [n for n in ast.walk(ac) if isinstance(n, ast.Assign) and norm(n.targets[0]) == taken]
    ctx.ob("C06.R3", s, "the excluded set starts empty for every node", len(fresh) == 1 and norm(fresh[0].value) in ("set()", "OrderedSet()") and any(a is x for x in _anc(fresh[0]) for a in [n for n in ast.walk(ac) if isinstance(n, ast.For) and "select_stack" in norm(n.iter)]), construct="fresh-exclusion")
    iff = [n for n in ast.walk(ac) if isinstance(n, ast.If) and norm(n.test) == okv]
    ok = bool(iff) and any(isinstance(x, ast.Assign) and norm(x.targets[0]) == "node.reg" and (norm(x.value) == okv + "[0]" or any(isinstance(y, ast.Assign) and norm(y.targets[0]) == norm(x.value) and norm(y.value) == okv + "[0]" for y in ast.walk(iff[0]))) for x in ast.walk(iff[0])) and \
        any(isinstance(c, ast.Call) and last_name(c) == "append" for o in iff[0].orelse for c in ast.walk(o))
    ctx.ob("C06.R3", s, "a node gets a candidate register or is recorded as spilled", ok, construct="assign-or-spill")
    unm = [c for c in calls_in(ac, "unmask_node")]
    ctx.ob("C06.R3", s, "the node is put back into the graph (its neighbours restored) before its neighbours are consulted", bool(unm) and unm[0].lineno < nb[0].lineno, construct="unmask-first")
    alias_src = ctx.fn(RA, "GraphColoringRegisterAllocator.__init__", optional=True) or ctx.fn(RA, "GraphColoringRegisterAllocator.init_data")
    al = [n for n in ast.walk(ctx.cls(RA, "GraphColoringRegisterAllocator")) if isinstance(n, ast.Assign) and norm(n.targets[0]) == "self.alias"]
    ctx.ob("C06.R3", RA + ":GraphColoringRegisterAllocator", "the alias table comes from the architecture description", bool(al) and "alias" in norm(al[0].value), construct="alias-source", detail=norm(al[0].value) if al else "")

    rp = ctx.fn(RA, "GraphColoringRegisterAllocator.rewrite_program")
    s = RA + ":GraphColoringRegisterAllocator.rewrite_program"
    slot = [n for n in walk_no_nested(rp) if isinstance(n, ast.Assign) and norm(n.targets[0]) == "slot"]
    slot_in_loop = any(isinstance(a, (ast.For, ast.While)) for n in slot for a in _anc(n) if a is not rp)
    ctx.ob("C06.R4", s, "one stack slot is allocated per spilled node, outside the loops", len(slot) == 1 and not slot_in_loop and "self.frame.alloc" in norm(slot[0].value), construct="one-slot")
    rd = [n for n in ast.walk(rp) if isinstance(n, ast.If) and "reads_register(vreg2)" in norm(n.test)]
    wr = [n for n in ast.walk(rp) if isinstance(n, ast.If) and "writes_register(vreg2)" in norm(n.test)]
    def has(ifs, gen, ins):
        return bool(ifs) and any(isinstance(c, ast.Call) and last_name(c) == gen and norm(c.args[-1]) == "slot" for c in ast.walk(ifs[0])) and \
            any(isinstance(c, ast.Call) and last_name(c) == ins and norm(c.args[0]) == "instruction" for c in ast.walk(ifs[0]))
    ctx.ob("C06.R4", s, "an instruction reading the register is preceded by a load from the slot", has(rd, "gen_load", "insert_code_before"), construct="load-before-read")
    ctx.ob("C06.R4", s, "an instruction writing the register is followed by a store to the slot", has(wr, "gen_store", "insert_code_after"), construct="store-after-write")
    rep = [c for c in calls_in(rp, "replace_register")]
    ctx.ob("C06.R4", s, "the spilled register is replaced by a fresh register in the instruction before the spill code is chosen", bool(rep) and bool(rd) and rep[0].lineno < rd[0].lineno and norm(rep[0].args[0]) == "tmp" and norm(rep[0].args[1]) == "vreg2", construct="replace-first")
    cover = [n for n in ast.walk(rp) if isinstance(n, ast.Assign) and norm(n.targets[0]) == "instructions"]
    ok = bool(cover) and "self.frame.ig.uses(tmp)" in norm(cover[0].value) and "self.frame.ig.defs(tmp)" in norm(cover[0].value)
    ctx.ob("C06.R4", s, "every use and every definition of every register of the node is rewritten", ok and any(isinstance(n, ast.For) and norm(n.iter) == "node.temps" for n in ast.walk(rp)), construct="all-uses-defs")
    # ---- R5: alias-aware interference test used by coalescing ----------
    ctx.rule("C06.R5", "has_edge (the interference test of coalescing): besides the direct edge, EVERY register aliasing a pre-coloured operand is consulted - a missing graph node is skipped, it never ends the scan - for both operands", floor=5)
    he = ctx.fn(RA, "GraphColoringRegisterAllocator.has_edge")
    s = RA + ":GraphColoringRegisterAllocator.has_edge"
    pt, pr = he.args.args[1].arg, he.args.args[2].arg
    first = [n for n in he.body if isinstance(n, ast.If)]
    ok = bool(first) and "self.frame.ig.has_edge(%s, %s)" % (pt, pr) in norm(first[0].test) and any(isinstance(x, ast.Return) and norm(x.value) == "True" for x in first[0].body)
    ctx.ob("C06.R5", s, "a direct interference edge answers True", ok, construct="direct-edge")
    loops = [l for l in ast.walk(he) if isinstance(l, ast.For) and norm(l.iter).startswith("self.alias[")]
    sides = set()
    for l in loops:
        side = norm(l.iter)[len("self.alias["):-1].split(".")[0]
        sides.add(side)
        brk = [x for x in ast.walk(l) if isinstance(x, ast.Break)]
        rets = [x for x in ast.walk(l) if isinstance(x, ast.Return)]
        ok = not brk and all(norm(x.value) == "True" for x in rets) and bool(rets)
        ctx.ob("C06.R5", s, "the scan over the aliases of `%s` runs to the end unless an edge was found (no break; a register without graph node is skipped)" % side, ok, construct="alias-scan-complete:%s" % side,
               node=brk[0] if brk else l)
        guard = [a for a in ast.walk(l) if isinstance(a, ast.If) and "has_node" in norm(a.test)]
        pre = any(isinstance(a, ast.If) and norm(a.test) == "%s in self.precolored" % side for a in _anc(l))
        ctx.ob("C06.R5", s, "aliases are consulted when `%s` is pre-coloured, through the node of each aliasing register" % side, pre and bool(guard) and any("get_node" in norm(x) for x in ast.walk(l)), construct="alias-scan-guard:%s" % side)
    ctx.ob("C06.R5", s, "both operands get the alias treatment", sides == {pt, pr}, construct="both-sides", detail=str(sorted(sides)))
    last = he.body[-1]
    ctx.ob("C06.R5", s, "only after all of that the answer is False", isinstance(last, ast.Return) and norm(last.value) == "False", construct="false-last")
    # ---- R6: the instruction-level facts liveness is computed from ----------
    from .c07 import register_api
    register_api(ctx, "C06.R6")
    _driver(ctx)
    _use_def_maps(ctx)
    from .c23 import frame_slots
    frame_slots(ctx, "C06.R8")      # spill slots are Frame.alloc slots: two that overlap are two values sharing storage


def _driver(ctx):
    """R7: the driver of iterated register coalescing (Appel/George): build - {simplify | coalesce | freeze | select
    spill}* - select - on actual spills rewrite and START OVER from build."""
    from .. import sym
    ctx.rule("C06.R7", "alloc_frame: colours are assigned only when all four worklists are empty; after actual spills every spilled node is rewritten and liveness/interference are rebuilt from the rewritten program; colours are applied only after a round without spills; init_data puts every uncoloured node on exactly one worklist (the ORDER in which the worklists are served and which moves are offered for coalescing only affect code quality and are not checked)", floor=9)
    af = ctx.fn(RA, "GraphColoringRegisterAllocator.alloc_frame")
    s = RA + ":GraphColoringRegisterAllocator.alloc_frame"
    outer = [l for l in af.body if isinstance(l, ast.While) and norm(l.test) == "True"]
    ctx.need(len(outer) == 1, "alloc_frame: outer `while True` not found")
    outer = outer[0]
    inner = [l for l in outer.body if isinstance(l, ast.While) and norm(l.test) == "True"]
    ctx.need(len(inner) == 1, "alloc_frame: worklist loop not found")
    inner = inner[0]
    first = outer.body[0]
    ctx.ob("C06.R7", s, "every round starts by rebuilding the data (init_data(frame)): a round after spilling sees the rewritten program", isinstance(first, ast.Expr) and norm(first.value) == "self.init_data(frame)", construct="rebuild-each-round", detail=norm(first)[:60])
    # the if / elif chain of the worklist loop
    chain, node = [], inner.body[0] if len(inner.body) == 1 and isinstance(inner.body[0], ast.If) else None
    while isinstance(node, ast.If):
        chain.append((norm(node.test), [norm(x) for x in node.body]))
        if len(node.orelse) == 1 and isinstance(node.orelse[0], ast.If):
            node = node.orelse[0]
        else:
            chain.append(("else", [norm(x) for x in node.orelse]))
            node = None
    want = {"self.simplify_worklist": "self.simplify()", "self.worklistMoves": "self.coalesc()", "self.freeze_worklist": "self.freeze()", "self.spill_worklist": "self.select_spill()"}
    got = {t: b[0] for t, b in chain if t != "else" and len(b) == 1}
    ctx.ob("C06.R7", s, "each non-empty worklist is served by its own step (simplify, coalesce, freeze, select spill)", got == want, construct="worklist-steps", detail=str(got))
    brk = [b for b in ast.walk(inner) if isinstance(b, ast.Break)]
    ctx.ob("C06.R7", s, "the worklist loop is left only when all four worklists are empty (the single break sits in the final else)", len(brk) == 1 and chain and chain[-1] == ("else", ["break"]) and len(chain) == 5, construct="exit-when-all-empty")
    ac = [n for n in outer.body if isinstance(n, ast.Assign) and isinstance(n.value, ast.Call) and norm(n.value.func) == "self.assign_colors"]
    ok = len(ac) == 1 and outer.body.index(ac[0]) > outer.body.index(inner)
    ctx.ob("C06.R7", s, "assign_colors runs after the worklist loop and its result (the actual spills) is kept", ok, construct="select-after-worklists")
    sp = norm(ac[0].targets[0]) if ac else None
    br = [n for n in outer.body if isinstance(n, ast.If) and sp and norm(n.test) == sp]
    ok = len(br) == 1
    if ok:
        rw = [l for l in br[0].body if isinstance(l, ast.For) and norm(l.iter) == sp]
        ok = len(rw) == 1 and any(isinstance(c, ast.Call) and norm(c.func) == "self.rewrite_program" and norm(c.args[0]) == norm(rw[0].target) for c in ast.walk(rw[0])) and \
            not any(isinstance(x, (ast.Break, ast.Continue, ast.If)) for x in ast.walk(rw[0]))
        ctx.ob("C06.R7", s, "every actually spilled node is rewritten (loads/stores around each use) before the next round", ok, construct="rewrite-all-spills")
        nobreak = not any(isinstance(x, ast.Break) for st in br[0].body for x in ast.walk(st))
        done = [x for st in br[0].orelse for x in ast.walk(st) if isinstance(x, ast.Break)]
        ctx.ob("C06.R7", s, "the outer loop ends only after a round without spills", nobreak and len(done) == 1, construct="done-only-without-spills")
    else:
        ctx.ob("C06.R7", s, "the result of assign_colors decides between rewriting and finishing", False, construct="rewrite-all-spills")
    tail = [norm(x) for x in af.body[af.body.index(outer) + 1:]]
    ctx.ob("C06.R7", s, "colours are applied to the instructions only after the loop (coalesced moves removed first)", tail == ["self.remove_redundant_moves()", "self.apply_colors()"], construct="apply-after-loop", detail=str(tail))
    idt = ctx.fn(RA, "GraphColoringRegisterAllocator.init_data")
    s = RA + ":GraphColoringRegisterAllocator.init_data"
    calls = [norm(c.func) for c in ast.walk(idt) if isinstance(c, ast.Call)]
    fg = [n for n in walk_no_nested(idt) if isinstance(n, ast.Assign) and isinstance(n.value, ast.Call) and norm(n.value.func) == "FlowGraph"]
    ok = len(fg) == 1 and norm(fg[0].value.args[0]) == "self.frame.instructions" and (norm(fg[0].targets[0]) + ".calculate_liveness") in calls and "self.frame.ig.calculate_interference" in calls
    ig = [n for n in walk_no_nested(idt) if isinstance(n, ast.Assign) and norm(n.targets[0]) == "self.frame.ig"]
    ok = ok and len(ig) == 1 and norm(ig[0].value) == "InterferenceGraph()" and any(st is ig[0] for st in idt.body) and any(st is fg[0] for st in idt.body)
    ctx.ob("C06.R7", s, "liveness and a fresh interference graph are computed from the frame's CURRENT instructions", ok, construct="rebuild-liveness-interference")
    part = [l for l in walk_no_nested(idt) if isinstance(l, ast.For) and norm(l.iter) == "self.frame.ig.nodes"]
    ok = len(part) == 1
    if ok:
        n = norm(part[0].target)
        ch, node = [], part[0].body[0] if len(part[0].body) == 1 and isinstance(part[0].body[0], ast.If) else None
        while isinstance(node, ast.If):
            adds = [norm(c.func.value) for st in node.body for c in ast.walk(st) if isinstance(c, ast.Call) and isinstance(c.func, ast.Attribute) and c.func.attr == "add" and norm(c.args[0]) == n]
            ch.append((" ".join(norm(node.test).split()), adds))
            if len(node.orelse) == 1 and isinstance(node.orelse[0], ast.If):
                node = node.orelse[0]
            else:
                adds = [norm(c.func.value) for st in node.orelse for c in ast.walk(st) if isinstance(c, ast.Call) and isinstance(c.func, ast.Attribute) and c.func.attr == "add" and norm(c.args[0]) == n]
                ch.append(("else", adds))
                node = None
        wantp = [("%s.is_colored" % n, ["self.precolored"]), ("not self.is_colorable(%s)" % n, ["self.spill_worklist"]), ("self.is_move_related(%s)" % n, ["self.freeze_worklist"]), ("else", ["self.simplify_worklist"])]
        ok = ch == wantp
        ctx.ob("C06.R7", s, "every node goes to exactly one set: precoloured; not trivially colourable -> spill candidates; move related -> freeze; else simplify", ok, construct="partition", detail=str(ch))
    else:
        ctx.ob("C06.R7", s, "the nodes of the interference graph are partitioned over the worklists", False, construct="partition")
    fresh = {norm(n.targets[0]): norm(n.value) for n in walk_no_nested(idt) if isinstance(n, ast.Assign) and len(n.targets) == 1}
    need = ["self.select_stack", "self.coalescedMoves", "self.constrainedMoves", "self.frozenMoves", "self.activeMoves", "self.worklistMoves", "self.spill_worklist", "self.freeze_worklist", "self.simplify_worklist", "self.precolored"]
    ok = all(fresh.get(k) in ("[]", "OrderedSet()") for k in need)
    ctx.ob("C06.R7", s, "every worklist, move set and the select stack start empty in each round (nothing of the round before the spill survives)", ok, construct="fresh-worklists", detail=str([k for k in need if fresh.get(k) not in ("[]", "OrderedSet()")]))


def _use_def_maps(ctx):
    """R9: spilling rewrites the instructions listed by ig.uses(tmp) / ig.defs(tmp).  Those lists are filled while the
    interference graph is built; an instruction missing from them keeps reading the old register after its
    definitions were redirected to the spill slot."""
    ctx.rule("C06.R9", "calculate_interference records EVERY instruction under each register it reads (uses) and writes (defs), whatever its live sets are; uses()/defs() return those lists and rewrite_program rewrites their union", floor=4)
    ci = ctx.fn(IG, "InterferenceGraph.calculate_interference")
    s = IG + ":InterferenceGraph.calculate_interference"
    inner = [l for l in ast.walk(ci) if isinstance(l, ast.For) and norm(l.iter).endswith(".instructions")]
    ctx.need(len(inner) == 1, "calculate_interference: loop over the instructions not found")
    ins = norm(inner[0].target)
    from ..sym import conjuncts
    rec = {}
    for l in inner[0].body:
        if isinstance(l, ast.For) and norm(l.iter) in ("%s.defined_registers" % ins, "%s.used_registers" % ins):
            kind = "defs" if "defined" in norm(l.iter) else "uses"
            apps = [c for c in ast.walk(l) if isinstance(c, ast.Call) and isinstance(c.func, ast.Attribute) and c.func.attr == "append" and norm(c.args[0]) == ins]
            if apps and norm(apps[0].func.value) == "self._%s_map[%s]" % ("def" if kind == "defs" else "use", norm(l.target)) and not list(conjuncts(apps[0], ci, {})):
                rec[kind] = l
    ctx.ob("C06.R9", s, "each instruction is appended to _use_map[r] for every register r it reads and to _def_map[r] for every register it writes, directly in the instruction loop", set(rec) == {"defs", "uses"}, construct="record-uses-defs", detail=str(sorted(rec)))
    skips = [x for st in inner[0].body for x in ast.walk(st) if isinstance(x, (ast.Continue, ast.Break, ast.Return))]
    ctx.ob("C06.R9", s, "nothing in the instruction loop skips the rest of the body (a `continue` for instructions without live registers would leave them out of the use/def lists)", not skips, construct="no-skip", node=skips[0] if skips else None)
    for meth, mp in (("uses", "_use_map"), ("defs", "_def_map")):
        f = ctx.fn(IG, "InterferenceGraph." + meth)
        rets = [" ".join(norm(r.value).split()) for r in ast.walk(f) if isinstance(r, ast.Return)]
        ctx.ob("C06.R9", IG + ":InterferenceGraph." + meth, "%s(tmp) is the recorded list of tmp" % meth, rets == ["self.%s[%s]" % (mp, f.args.args[1].arg)], construct="accessor:" + meth, detail=str(rets))
