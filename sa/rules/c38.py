"""C38 - constant folding: operator table vs IR semantics, every folded
constant normalised to its type, wrap function shape, chain-fold algebra."""
import ast

from ..core import (norm, walk_no_nested, calls_in, call_name, last_name, dict_items, try_const,
                    derives, attrs_in, assigned_values)
from .. import intsem
from ..shapes import check_wrap_function

F = "ppci/opt/constantfolding.py"
SPEC = {"+": "+", "-": "-", "*": "*", "<<": "<<", ">>": ">>", "&": "&", "|": "|", "^": "^"}


def find_ops_table(ctx, rel, cls, attr="ops"):
    """dict literal assigned to self.<attr> in __init__ or at class level"""
    c = ctx.cls(rel, cls)
    for n in ast.walk(c):
        if isinstance(n, ast.Assign) and isinstance(n.value, ast.Dict):
            for t in n.targets:
                if (isinstance(t, ast.Attribute) and t.attr == attr) or (isinstance(t, ast.Name) and t.id == attr):
                    return n.value
    return None


def check_fold_table(ctx, rid, project, module, table, site, binop_ops, need_wrap="correct"):
    for k, v in dict_items(table):
        key = try_const(k)
        if not isinstance(key, str):
            ctx.undecided(rid, site, "non-literal key %s" % norm(k))
            continue
        d = intsem.resolve_callable(project, module, v)
        if need_wrap:
            ctx.ob(rid, site, "fold of `%s` is normalised by %s()" % (key, need_wrap), need_wrap in d.wrappers, construct="wrap:" + key, node=v, detail=repr(d))
        ctx.ob(rid, site, "folded operator `%s` is an IR binary operator" % key, key in binop_ops, construct="key:" + key, node=k)
        if key in SPEC:
            if d.kind == "operator":
                ctx.ob(rid, site, "`%s` folds with Python `%s`" % (key, SPEC[key]), d.op == SPEC[key], construct="sem:" + key, node=v, detail=repr(d))
            elif d.kind in ("func", "lambda"):
                used = intsem.python_ops_used(d)
                ctx.ob(rid, site, "`%s` folds with Python `%s`" % (key, SPEC[key]), SPEC[key] in used and len(used - {SPEC[key], "neg"}) == 0, construct="sem:" + key, node=v, detail="%r uses %s" % (d, sorted(used)))
            else:
                ctx.undecided(rid, site, "callable for `%s` not resolved: %s" % (key, norm(v)))
        elif key in ("/", "%"):
            verdict, why = intsem.div_verdict(project, d, "div" if key == "/" else "rem")
            if verdict == "undecided":
                ctx.undecided(rid, site, "`%s`: %s" % (key, why))
            else:
                ctx.ob(rid, site, "`%s` folds with truncating (toward zero) semantics" % key, verdict == "trunc", construct="sem:" + key, node=v, detail="%s: %s" % (verdict, why))
        else:
            ctx.ob(rid, site, "no fold is registered for `%s` (its Python meaning differs from IR / needs the type width)" % key, False, construct="sem:" + key, node=v, detail=repr(d))


def run(ctx):
    ctx.rule("C38.R1", "ConstantFolder.ops: keys are IR operators, each value has the IR meaning and is wrapped by correct()", floor=12)
    ctx.rule("C38.R2", "every ir.Const built by the folder carries a value normalised by correct()/cast() or taken from the table", floor=3)
    ctx.rule("C38.R3", "correct()/cast() implement the two's complement wrap of the type", floor=5)
    ctx.rule("C38.R4", "chain folding algebra and integer-only gating", floor=3)
    project = ctx.project
    mod = project.module(F)
    binop = ctx.cls("ppci/ir.py", "Binop")
    binop_ops = try_const(project.class_attr(binop, "ops"))
    ctx.need(isinstance(binop_ops, list) and binop_ops, "ir.Binop.ops is not a literal list")
    table = find_ops_table(ctx, F, "ConstantFolder")
    ctx.need(table is not None, "ConstantFolder.ops dict literal not found")
    ctx.saw("tables", "ConstantFolder.ops")
    check_fold_table(ctx, "C38.R1", project, mod, table, F + ":ConstantFolder.ops", binop_ops)

    # R2
    cf = ctx.cls(F, "ConstantFolder")
    for meth in [m for m in cf.body if isinstance(m, ast.FunctionDef)]:
        site = "%s:ConstantFolder.%s" % (F, meth.name)
        for c in calls_in(meth):
            if call_name(c) in ("ir.Const", "Const") and c.args:
                v = c.args[0]
                vals = assigned_values(meth, v.id) if isinstance(v, ast.Name) else [v]
                ok = bool(vals)
                for x in vals:
                    good = isinstance(x, ast.Call) and (call_name(x) in ("correct", "cast") or
                                                        (isinstance(x.func, ast.Subscript) and "ops" in attrs_in(x.func.value)))
                    ok = ok and good
                ctx.ob("C38.R2", site, "value of the new Const passes correct()/cast() or comes from the wrapped operator table", ok,
                       construct="const:" + norm(v), node=c, detail=norm(c))
    # R3
    check_wrap_function(ctx, "C38.R3", ctx.fn(F, "correct"), F + ":correct")
    cast = ctx.fn(F, "cast")
    ok = False
    for n in walk_no_nested(cast):
        if isinstance(n, ast.If) or True:
            pass
    for r in [n for n in walk_no_nested(cast) if isinstance(n, ast.Return) and n.value is not None]:
        if isinstance(r.value, ast.Call) and call_name(r.value) == "correct":
            a0 = r.value.args[0]
            if isinstance(a0, ast.Call) and call_name(a0) == "int":
                # guarded by is_integer ?
                p = getattr(r, "_parent", None)
                while p is not None and not isinstance(p, ast.If):
                    p = getattr(p, "_parent", None)
                ok = p is not None and "is_integer" in attrs_in(p.test)
    ctx.ob("C38.R3", F + ":cast", "cast to an integer type truncates (int()) and wraps (correct())", ok, construct="cast-int")

    # R4 chain folding
    ob = ctx.fn(F, "ConstantFolder.on_block")
    site = F + ":ConstantFolder.on_block"
    from .. import sym as _sym
    n_chain = 0
    for i in [n for n in walk_no_nested(ob) if isinstance(n, ast.If)]:
        conj = _sym.flatten_bool(i.test)
        pairs = set()       # (inner op, outer op) shapes this branch rewrites
        outer_ops, inner_ops, same = None, None, False
        for t in conj:
            if isinstance(t, ast.Compare) and len(t.ops) == 1:
                l, r = norm(t.left), t.comparators[0]
                vals = None
                if isinstance(t.ops[0], ast.Eq) and isinstance(r, ast.Constant):
                    vals = {r.value}
                elif isinstance(t.ops[0], ast.In) and isinstance(r, (ast.Tuple, ast.List, ast.Set)) and all(isinstance(e, ast.Constant) for e in r.elts):
                    vals = {e.value for e in r.elts}
                if vals is not None and l == "instruction.operation":
                    outer_ops = vals
                elif vals is not None and l == "instruction.a.operation":
                    inner_ops = vals
                elif isinstance(t.ops[0], ast.Eq) and {l, norm(r)} == {"instruction.operation", "instruction.a.operation"}:
                    same = True
        if same and (outer_ops or inner_ops):
            for o in (outer_ops or inner_ops):
                pairs.add((o, o))
        elif outer_ops and inner_ops:
            pairs = {(a_, b_) for a_ in inner_ops for b_ in outer_ops}
        if not pairs:
            continue
        n_chain += 1
        # how are the two constants combined?
        env = _sym.single_assign_env(ob)
        benv = {}
        for st in i.body:
            if isinstance(st, ast.Assign) and isinstance(st.targets[0], ast.Name) and st.targets[0].id not in ("a", "b"):
                benv.setdefault(st.targets[0].id, st.value)
        comb = None
        for c in [c for st in i.body for c in calls_in(st)]:
            if call_name(c) in ("ir.Const", "Const") and c.args:
                e = _sym.deep_inline(c.args[0], benv)
                for n in ast.walk(e):
                    if isinstance(n, ast.BinOp) and {norm(n.left), norm(n.right)} == {"a.value", "b.value"}:
                        comb = "Add" if isinstance(n.op, ast.Add) else type(n.op).__name__
                    elif isinstance(n, ast.Call) and isinstance(n.func, ast.Subscript) and norm(n.func.value) == "self.ops" and any(norm(x) in ("a.value", "b.value") for x in n.args):
                        k = n.func.slice
                        comb = "Add" if (isinstance(k, ast.Constant) and k.value == "+") else "ops[%s]" % norm(k)
                    elif isinstance(n, ast.Call) and norm(n.func) in ("operator.add", "add") and {norm(x) for x in n.args} == {"a.value", "b.value"}:
                        comb = "Add"
        for inner, outer in sorted(pairs):
            if inner == outer and inner in ("+", "-"):
                ctx.ob("C38.R4", site, "(y %s c1) %s c2 == y %s (c1 + c2): the two constants are ADDED whatever the operator of the chain" % (inner, outer, inner), comb == "Add",
                       construct="chain:%s%s" % (inner, outer), node=i, detail="constants combined with %s" % comb)
            else:
                ctx.ob("C38.R4", site, "only chains of one and the same operator (+,+ or -,-) are re-associated", False, construct="chain:%s%s" % (inner, outer), node=i, detail="branch also matches (y %s c1) %s c2" % (inner, outer))
        if ("-", "-") in pairs:
            # subtraction does not commute: only (y - c1) - c2 may be re-associated, never (c1 - y) - c2
            right_const = any(isinstance(t, ast.Call) and norm(t) == "self.is_const(instruction.a.b)" for t in conj)
            keeps = [st for st in ast.walk(ast.Module(body=i.body, type_ignores=[])) if isinstance(st, ast.Assign) and norm(st.targets[0]) == "instruction.a"]
            newa = norm(_sym.deep_inline(keeps[0].value, _sym.single_assign_env(ast.Module(body=i.body, type_ignores=[])))) if len(keeps) == 1 else None
            ctx.ob("C38.R4", site, "a `-` chain is folded only in the form (y - c1) - c2: the guard requires the inner RIGHT operand to be the constant and the new left operand is the inner left operand (with (c1 - y) - c2 the result would be y - (c1 + c2) instead of (c1 - c2) - y)",
                   right_const and newa == "instruction.a.a", construct="sub-chain-constant-on-the-right", node=i, detail="guard has is_const(instruction.a.b): %s; instruction.a = %s" % (right_const, newa))
    ctx.need(n_chain >= 1, "ConstantFolder.on_block: re-association branches not found")
    ic = ctx.fn(F, "ConstantFolder.is_const")
    ok = False
    for n in walk_no_nested(ic):
        if isinstance(n, ast.BoolOp) and isinstance(n.op, ast.And):
            txt = [norm(v) for v in n.values]
            if any("in self.ops" in t for t in txt):
                ok = any("is_integer" in t for t in txt)
    ctx.ob("C38.R4", F + ":ConstantFolder.is_const", "binary folding is gated on the operator being in the table and the type being an integer", ok, construct="int-gate")
    _every_cast_applied(ctx)


def _every_cast_applied(ctx):
    """R5: a cast chain (T2)(T1)x is evaluated inside out, EVERY conversion applied: the narrowing or sign change of
    an inner cast is not undone by an outer, wider one ((i32)(u8)(i8)-1 is 255)."""
    from ..tables import isinstance_branches
    from .. import sym
    ctx.rule("C38.R5", "eval_const of a Cast converts the value of the cast's own source operand: the recursion goes to value.src itself (no inner cast is skipped) and the result is cast(<that value>, value.ty)", floor=3)
    fn = ctx.fn(F, "ConstantFolder.eval_const")
    site = F + ":ConstantFolder.eval_const"
    br = [n for n in ast.walk(fn) if isinstance(n, ast.If) and " ".join(norm(n.test).split()) == "isinstance(value, ir.Cast)"]
    ctx.need(len(br) == 1, "eval_const: Cast branch not found")
    body = br[0].body
    loops = [x for st in body for x in ast.walk(st) if isinstance(x, (ast.While, ast.For))]
    ctx.ob("C38.R5", site, "the Cast branch has no loop that walks down a chain of casts", not loops, construct="no-chain-skipping", node=loops[0] if loops else None)
    rec = [c for st in body for c in ast.walk(st) if isinstance(c, ast.Call) and norm(c.func) == "self.eval_const"]
    env = sym.single_assign_env(ast.Module(body=body, type_ignores=[]))
    ok = len(rec) == 1 and norm(sym.deep_inline(rec[0].args[0], env)) == "value.src"
    ctx.ob("C38.R5", site, "the operand evaluated is value.src", ok, construct="evaluates-own-source", detail=norm(rec[0]) if rec else "")
    cs = [c for st in body for c in ast.walk(st) if isinstance(c, ast.Call) and norm(c.func) == "cast"]
    ok = len(cs) == 1 and len(cs[0].args) == 2 and norm(cs[0].args[1]) == "value.ty" and rec and norm(sym.deep_inline(cs[0].args[0], env)) in ("self.eval_const(value.src).value",)
    ctx.ob("C38.R5", site, "its value is converted with cast(..., value.ty) - the type of THIS cast", ok, construct="cast-to-own-type", detail=norm(cs[0]) if cs else "")
    isc = ctx.fn(F, "ConstantFolder.is_const")
    brc = [n for n in ast.walk(isc) if isinstance(n, ast.If) and " ".join(norm(n.test).split()) == "isinstance(value, ir.Cast)"]
    ok = len(brc) == 1 and [" ".join(norm(x).split()) for x in brc[0].body] == ["return self.is_const(value.src)"]
    ctx.ob("C38.R5", F + ":ConstantFolder.is_const", "a cast is constant exactly when its own source is", ok, construct="is-const-own-source")
