"""C22 - wasm execution: runtime helper siblings (32/64 bit) are isomorphic,
the runtime registry is complete and self-consistent, float helpers honour
NaN and signed zero, the wasm -> IR operator tables map every opcode to the
IR operator of its meaning with unsigned routing.  Traps and the translation
of control flow are not decided."""
import ast
import re

from ..core import norm, walk_no_nested, dict_items, try_const, calls_in, call_name

R = "ppci/wasm/execution/runtime.py"
W = "ppci/wasm/wasm2ppci.py"
O = "ppci/wasm/opcodes.py"
BIN_SPEC = {"add": "+", "sub": "-", "mul": "*", "div": "/", "div_s": "/", "div_u": "/", "rem_s": "%", "rem_u": "%", "and": "&", "or": "|",
            "xor": "^", "shl": "<<", "shr_u": ">>", "shr_s": ">>"}
CMP_SPEC = {"eqz": "==", "eq": "==", "ne": "!=", "ge": ">=", "ge_u": ">=", "ge_s": ">=", "le": "<=", "le_u": "<=", "le_s": "<=", "gt": ">",
            "gt_u": ">", "gt_s": ">", "lt": "<", "lt_u": "<", "lt_s": "<"}


def _canon(fn):
    """body text with every width token mapped to the 32-bit spelling"""
    txt = " ; ".join(norm(s) for s in fn.body if not (isinstance(s, ast.Expr) and isinstance(s.value, ast.Constant)))
    txt = txt.replace("'<q'", "'<i'").replace("'<d'", "'<f'")
    txt = re.sub(r"(?<![0-9])64(?![0-9])", "32", txt)
    return txt


def _sig(fn):
    t = [norm(a.annotation) if a.annotation is not None else "?" for a in fn.args.args] + [norm(fn.returns) if fn.returns is not None else "?"]
    return [x.replace("64", "32") for x in t]


def run(ctx):
    ctx.rule("C22.R1", "every width-specific runtime helper has a sibling of the other width with the same body modulo the width", floor=25)
    ctx.rule("C22.R2", "create_runtime registers every helper under its own name", floor=50)
    ctx.rule("C22.R3", "float helpers: min/max propagate NaN and order signed zeros; floor/ceil/trunc/nearest pass NaN and infinities through and keep the sign of a zero result; truncations to integer use int() (toward zero)", floor=12)
    ctx.rule("C22.R4", "wasm -> IR: every binary/compare opcode has a table entry with the IR operator of its meaning; *_u opcodes are computed on the unsigned IR type", floor=40)
    project = ctx.project
    mod = project.module(R)
    funcs = {f.name: f for f in mod.tree.body if isinstance(f, ast.FunctionDef)}
    typed = {n: f for n, f in funcs.items() if re.match(r"^[if](32|64)_", n)}
    ctx.need(len(typed) >= 50, "runtime helpers not found")
    seen = set()
    for n, f in sorted(typed.items()):
        sib = re.sub(r"(32|64)", lambda m: "64" if m.group(1) == "32" else "32", n)
        if n in seen:
            continue
        site = "%s:%s" % (R, n)
        if sib not in typed:
            # conversions that exist in one direction only (promote/demote, i64.extend32)
            if n in ("f64_promote_f32", "f32_demote_f64", "i64_extend32_s"):
                continue
            ctx.ob("C22.R1", site, "sibling %s exists" % sib, False, construct="sibling-exists")
            continue
        seen |= {n, sib}
        g = typed[sib]
        ctx.ob("C22.R1", site, "body equals %s modulo the width" % sib, _canon(f) == _canon(g), construct="iso", node=f, detail="%s  <>  %s" % (_canon(f)[:90], _canon(g)[:90]))
        ctx.ob("C22.R1", site, "signature equals %s modulo the width" % sib, _sig(f) == _sig(g), construct="sig", node=f)
    # the width a helper names is the width it computes with
    for n, f in sorted(typed.items()):
        m = re.match(r"^[if](32|64)_(rotl|rotr|clz|ctz|popcnt)$", n)
        if m:
            lits = {c.value for c in ast.walk(f) if isinstance(c, ast.Constant) and isinstance(c.value, int)}
            ctx.ob("C22.R1", "%s:%s" % (R, n), "computes with its own width %s" % m.group(1), lits == {int(m.group(1))}, construct="own-width", detail=str(sorted(lits)))
        m = re.match(r"^i(32|64)_trunc_sat_f(32|64)_([su])$", n)
        if m:
            names = {x.id for x in ast.walk(f) if isinstance(x, ast.Name)}
            want = {"MIN_%s%s" % ("I" if m.group(3) == "s" else "U", m.group(1)), "MAX_%s%s" % ("I" if m.group(3) == "s" else "U", m.group(1))}
            ctx.ob("C22.R1", "%s:%s" % (R, n), "saturates at %s" % sorted(want), want <= names and not ({x for x in names if x.startswith(("MIN_", "MAX_"))} - want), construct="sat-limits")
    consts = {}
    for s in mod.tree.body:
        if isinstance(s, ast.Assign) and isinstance(s.targets[0], ast.Name) and s.targets[0].id.startswith(("MIN_", "MAX_")):
            consts[s.targets[0].id] = try_const(s.value)
    want = {"MAX_I32": 2 ** 31 - 1, "MIN_I32": -2 ** 31, "MAX_U32": 2 ** 32 - 1, "MIN_U32": 0, "MAX_I64": 2 ** 63 - 1, "MIN_I64": -2 ** 63, "MAX_U64": 2 ** 64 - 1, "MIN_U64": 0}
    for k, v in want.items():
        ctx.ob("C22.R1", R + ":" + k, "%s == %d" % (k, v), consts.get(k) == v, construct="limit", detail=str(consts.get(k)))

    # R2
    cr = ctx.fn(R, "create_runtime")
    table = [n for n in ast.walk(cr) if isinstance(n, ast.Dict)]
    ctx.need(table, "create_runtime dict not found")
    reg = {}
    for k, v in dict_items(table[0]):
        reg[try_const(k)] = norm(v)
    for k, v in sorted(reg.items()):
        ctx.ob("C22.R2", R + ":create_runtime", "entry %r refers to the function of that name" % k, k == v and k in funcs, construct="entry:" + str(k), detail=v)
    for n in sorted(typed):
        ctx.ob("C22.R2", R + ":create_runtime", "helper %s is registered" % n, n in reg, construct="registered:" + n)

    # R3
    for w in ("32", "64"):
        for op in ("min", "max"):
            f = funcs.get("f%s_%s" % (w, op))
            if f is None:
                continue
            body = f
            inner = [c for c in calls_in(f) if call_name(c) in funcs and call_name(c).startswith("_")]
            if inner:
                body = funcs[call_name(inner[0])]
            txt = norm(body)
            nan = "isnan(x)" in txt and "isnan(y)" in txt
            zero = "copysign" in txt or "signbit" in txt
            ctx.ob("C22.R3", "%s:f%s_%s" % (R, w, op), "NaN in either operand gives NaN", nan, construct="nan")
            ctx.ob("C22.R3", "%s:f%s_%s" % (R, w, op), "equal operands are ordered by sign (-0.0 < +0.0)", zero, construct="signed-zero")
            if inner:
                last = [c for c in calls_in(body) if call_name(c) in ("min", "max")]
                ctx.ob("C22.R3", "%s:f%s_%s" % (R, w, op), "the general case uses Python %s" % op, bool(last) and all(call_name(c) == op for c in last), construct="direction")
        for op, py in (("floor", "math.floor"), ("ceil", "math.ceil"), ("trunc", "math.trunc"), ("nearest", "round")):
            f = funcs.get("f%s_%s" % (w, op))
            if f is None:
                continue
            txt = norm(f)
            ctx.ob("C22.R3", "%s:f%s_%s" % (R, w, op), "NaN and infinities are returned unchanged", "isnan(x)" in txt and "isinf(x)" in txt, construct="nan-inf")
            ctx.ob("C22.R3", "%s:f%s_%s" % (R, w, op), "rounds with %s and keeps the sign of x on a zero result" % py, (py + "(x)") in txt and "copysign" in txt, construct="round-fn")
    for n, f in sorted(typed.items()):
        if re.match(r"^i(32|64)_trunc_f(32|64)_s$", n):
            rets = [norm(r.value) for r in ast.walk(f) if isinstance(r, ast.Return) and r.value is not None]
            ctx.ob("C22.R3", "%s:%s" % (R, n), "signed truncation is int(value): toward zero", "int(value)" in rets and not any("round" in r or "floor" in r for r in rets), construct="trunc-int", detail=str(rets))

    # R5: non-saturating truncation must trap outside the target range
    ctx.rule("C22.R5", "non-saturating float->int truncation rejects NaN, infinities and values outside the target range (the reference engine traps)", floor=8)
    for n, f in sorted(typed.items()):
        if re.match(r"^i(32|64)_trunc_f(32|64)_[su]$", n):
            raises = [x for x in ast.walk(f) if isinstance(x, ast.Raise)]
            ranged = [x for x in ast.walk(f) if isinstance(x, ast.Compare) and any(isinstance(o, (ast.Lt, ast.Gt, ast.LtE, ast.GtE)) for o in x.ops)]
            ctx.ob("C22.R5", "%s:%s" % (R, n), "out-of-range input raises instead of returning a value", bool(raises) and bool(ranged), construct="trap-range")

    # R4
    ops_mod = project.module(O)
    sets = {}
    for s in ops_mod.tree.body:
        if isinstance(s, ast.Assign) and isinstance(s.targets[0], ast.Name) and s.targets[0].id in ("BINOPS", "CMPOPS"):
            sets[s.targets[0].id] = try_const(s.value)
    ctx.need(all(isinstance(sets.get(k), (set, list, tuple)) for k in ("BINOPS", "CMPOPS")), "opcodes.BINOPS/CMPOPS not literal")
    gb = ctx.fn(W, "WasmToIrCompiler.gen_binop")
    bm = {}
    for n in walk_no_nested(gb):
        if isinstance(n, ast.Assign) and isinstance(n.value, ast.Dict):
            bm = {try_const(k): try_const(v) for k, v in dict_items(n.value)}
    for opc in sorted(sets["BINOPS"]):
        ty, name = opc.split(".")
        if name in ("rotl", "rotr", "min", "max", "copysign"):
            continue
        ctx.ob("C22.R4", W + ":WasmToIrCompiler.gen_binop", "%s -> IR `%s`" % (opc, BIN_SPEC.get(name)), name in BIN_SPEC and bm.get(name) == BIN_SPEC[name], construct="bin:" + opc, detail=str(bm.get(name)))
    cls = ctx.cls(W, "WasmToIrCompiler")
    cm = {}
    for n in cls.body:
        if isinstance(n, ast.Assign) and norm(n.targets[0]) == "OPMAP" and isinstance(n.value, ast.Dict):
            cm = {try_const(k): try_const(v) for k, v in dict_items(n.value)}
    for opc in sorted(sets["CMPOPS"]):
        ty, name = opc.split(".")
        ctx.ob("C22.R4", W + ":WasmToIrCompiler.OPMAP", "%s -> IR `%s`" % (opc, CMP_SPEC.get(name)), name in CMP_SPEC and cm.get(name) == CMP_SPEC[name], construct="cmp:" + opc, detail=str(cm.get(name)))
    for q, var in (("WasmToIrCompiler.gen_binop", "do_unsigned"), ("WasmToIrCompiler.gen_cmpop", "is_unsigned")):
        fn = ctx.fn(W, q)
        asg = [n for n in walk_no_nested(fn) if isinstance(n, ast.Assign) and norm(n.targets[0]) == var]
        ok = len(asg) == 1 and isinstance(asg[0].value, ast.Compare) and norm(asg[0].value).startswith("'_u' in ")
        ifs = [n for n in walk_no_nested(fn) if isinstance(n, ast.If) and norm(n.test) == var]
        casts = [c for i in ifs for s in i.body for c in ast.walk(s) if isinstance(c, ast.Call) and norm(c.func) == "ir.Cast" and "u_ir_typ" in norm(c)]
        umap = [n for i in ifs for s in i.body for n in ast.walk(s) if isinstance(n, ast.Dict)]
        um_ok = bool(umap) and {norm(k): norm(v) for k, v in dict_items(umap[0])} == {"ir.i32": "ir.u32", "ir.i64": "ir.u64"}
        ctx.ob("C22.R4", W + ":" + q, "*_u opcodes cast both operands to the unsigned type of the same width before the operation", ok and len(casts) >= 2 and um_ok, construct="unsigned-routing")
    # signed result restored for binops
    fn = ctx.fn(W, "WasmToIrCompiler.gen_binop")
    back = [c for c in ast.walk(fn) if isinstance(c, ast.Call) and norm(c.func) == "ir.Cast" and norm(c.args[2]) == "ir_typ"]
    ctx.ob("C22.R4", W + ":WasmToIrCompiler.gen_binop", "the unsigned result is cast back to the wasm value type", bool(back), construct="cast-back")
    order = [n for n in walk_no_nested(fn) if isinstance(n, ast.Assign) and "self.pop_value" in norm(n.value)]
    ctx.ob("C22.R4", W + ":WasmToIrCompiler.gen_binop", "operands are popped right operand first (b, then a)", [norm(n.targets[0]) for n in order] == ["b", "a"], construct="pop-order")
    _conditions(ctx)
    _br_table(ctx)
    _sign_wrap(ctx)
    _fresh_accesses(ctx)


def _conditions(ctx):
    """R6: wasm truthiness.  if / br_if / select take an i32 that is true iff non-zero (including negative)."""
    from ..core import last_name
    ctx.rule("C22.R6", "wasm conditions: a plain i32 operand is true iff it is != 0; if, br_if and select branch on the popped condition with the true target first; eqz compares with a zero of the operand's type", floor=7)
    pc = ctx.fn(W, "WasmToIrCompiler.pop_condition")
    site = W + ":WasmToIrCompiler.pop_condition"
    rets = [r for r in ast.walk(pc) if isinstance(r, ast.Return) and isinstance(r.value, ast.Tuple) and len(r.value.elts) == 3]
    ctx.need(len(rets) == 1, "pop_condition: construction of the (op, a, b) triple not found")
    op, a, b = rets[0].value.elts
    from .. import sym
    env = sym.single_assign_env(pc)
    bt = norm(sym.deep_inline(b, env))
    at = norm(sym.deep_inline(a, env))
    ctx.ob("C22.R6", site, "a plain value v becomes the comparison v != 0 (a negative i32 is true)", try_const(op) == "!=", construct="truthiness-op", node=rets[0], detail=norm(op))
    ctx.ob("C22.R6", site, "the right-hand side is the i32 constant 0 and the left-hand side is the popped value", "ir.Const(0," in bt and "ir.i32" in bt and at == "self.stack.pop()", construct="truthiness-zero", detail="%s / %s" % (at, bt))
    passthru = [r for r in ast.walk(pc) if isinstance(r, ast.Return) and r.value is not None and norm(sym.deep_inline(r.value, env)) == "self.stack.pop()"]
    ctx.ob("C22.R6", site, "a pending comparison triple is handed on unchanged", len(passthru) == 1, construct="comparison-passthrough")
    for q, want in (("WasmToIrCompiler.gen_br_if_instruction", "branch-target"), ("WasmToIrCompiler.gen_select_instruction", "select"), ("WasmToIrCompiler.gen_if_instruction", "if")):
        fn = ctx.fn(W, q)
        pops = [n for n in ast.walk(fn) if isinstance(n, ast.Assign) and isinstance(n.value, ast.Call) and last_name(n.value) == "pop_condition" and isinstance(n.targets[0], ast.Tuple)]
        cj = [c for c in ast.walk(fn) if isinstance(c, ast.Call) and norm(c.func) == "ir.CJump"]
        ok = len(pops) == 1 and len(cj) >= 1
        if ok:
            o, x, y = (norm(e) for e in pops[0].targets[0].elts)
            ok = [norm(v) for v in cj[0].args[:3]] == [x, o, y]
        ctx.ob("C22.R6", W + ":" + q, "the conditional jump is built from the popped (a, op, b) in that order", ok, construct="cjump-from-condition:" + want, detail=norm(cj[0])[:80] if cj else "")
    bi = ctx.fn(W, "WasmToIrCompiler.gen_br_if_instruction")
    cj = [c for c in ast.walk(bi) if isinstance(c, ast.Call) and norm(c.func) == "ir.CJump"]
    tgt = [n for n in ast.walk(bi) if isinstance(n, ast.Assign) and isinstance(n.value, ast.Call) and last_name(n.value) == "get_jump_target_block"]
    ok = bool(cj) and bool(tgt) and len(cj[0].args) == 5 and norm(cj[0].args[3]) == norm(tgt[0].targets[0]) and any(isinstance(c, ast.Call) and last_name(c) == "set_block" and norm(c.args[0]) == norm(cj[0].args[4]) for c in ast.walk(bi))
    ctx.ob("C22.R6", W + ":WasmToIrCompiler.gen_br_if_instruction", "br_if: a true condition goes to the label's block, a false one falls through into a fresh block that becomes current", ok, construct="br-if-targets")
    se = ctx.fn(W, "WasmToIrCompiler.gen_select_instruction")
    pv = [n for n in walk_no_nested(se) if isinstance(n, ast.Assign) and isinstance(n.targets[0], ast.Tuple) and "self.pop_value()" in norm(n.value)]
    cj = [c for c in ast.walk(se) if isinstance(c, ast.Call) and norm(c.func) == "ir.CJump"]
    inc = [c for c in ast.walk(se) if isinstance(c, ast.Call) and last_name(c) == "set_incoming"]
    ok = False
    if len(pv) == 1 and cj and len(inc) == 2:
        second, first = (norm(e) for e in pv[0].targets[0].elts)   # popped first = val2 (taken when the condition is false)
        yes, no = norm(cj[0].args[3]), norm(cj[0].args[4])
        m = {norm(c.args[0]): norm(c.args[1]) for c in inc}
        ok = m.get(yes) == first and m.get(no) == second
    ctx.ob("C22.R6", W + ":WasmToIrCompiler.gen_select_instruction", "select: the operand pushed first is chosen when the condition is true, the one pushed second when it is false", ok, construct="select-operands")
    gc = ctx.fn(W, "WasmToIrCompiler.gen_cmpop")
    ez = [n for n in walk_no_nested(gc) if isinstance(n, ast.If) and "eqz" in norm(n.test)]
    ok = len(ez) == 1 and any(isinstance(s, ast.Assign) and norm(s.targets[0]) == "b" and "ir.Const(0," in norm(s.value) and "ir_typ" in norm(s.value) for s in ez[0].body) and \
        any(isinstance(s, ast.Assign) and norm(s.targets[0]) == "a" and "pop_value" in norm(s.value) for s in ez[0].body)
    ctx.ob("C22.R6", W + ":WasmToIrCompiler.gen_cmpop", "eqz compares the popped operand (left) with a zero constant of the operand's own type (right)", ok, construct="eqz-zero")
    shortcut = [x for b in (ez[0].body if ez else []) for x in ast.walk(b) if isinstance(x, (ast.Return, ast.If))]
    ctx.ob("C22.R6", W + ":WasmToIrCompiler.gen_cmpop", "eqz always materialises `operand == 0`: no path of the eqz branch rewrites a pending comparison instead (not(a < b) is a >= b only without NaN)", bool(ez) and not shortcut,
           construct="eqz-no-shortcut", node=shortcut[0] if shortcut else None)
    # a table that maps every comparison to its complement is only sound for integers
    NEG = {"==": "!=", "!=": "==", "<": ">=", ">=": "<", ">": "<=", "<=": ">"}
    ctl = ast.parse("T = {'==': '!=', '<': '>=', '>': '<='}")
    def neg_tables(tree):
        out = []
        for d in ast.walk(tree):
            if isinstance(d, ast.Dict) and len(d.keys) >= 2:
                kv = [(try_const(k), try_const(v)) for k, v in zip(d.keys, d.values) if k is not None]
                if kv and all(k in NEG and NEG[k] == v for k, v in kv):
                    out.append(d)
        return out
    ctx.need(len(neg_tables(ctl)) == 1, "C22.R6 positive control lost")
    hits = []
    for rel in ("ppci/wasm/wasm2ppci.py", "ppci/wasm/ppci2wasm.py"):
        hits += [(rel, d) for d in neg_tables(ctx.project.module(rel).tree)]
    ctx.ob("C22.R6", "ppci/wasm/*", "no table of complemented comparisons is used to fold a negation into a comparison (float comparisons with NaN are not complementary)", not hits, construct="no-complement-table",
           node=hits[0][1] if hits else None, detail="; ".join("%s:%d" % (r, d.lineno) for r, d in hits))


MUTATORS = {"pop", "append", "extend", "insert", "remove", "clear", "sort", "reverse", "update", "setdefault", "popitem", "add", "discard"}
# parameters that are not part of the wasm module being translated
NOT_MODULE_DATA = {("WasmToIrCompiler.generate_function", "ppci_function"): "the IR function under construction"}


def _br_table(ctx):
    """R7: br_table is a compare chain over the label table; the translator reads the module, it never edits it."""
    from ..core import last_name
    from .. import sym
    ctx.rule("C22.R7", "br_table: entry i of the complete label table is taken when the operand equals i, in table order, the last label is the default; translating a module does not modify it (a module is instantiated for both targets)", floor=5)
    q = "WasmToIrCompiler.gen_br_table_instruction"
    fn = ctx.fn(W, q)
    site = W + ":" + q
    loops = [l for l in walk_no_nested(fn) if isinstance(l, ast.For) and isinstance(l.iter, ast.Call) and norm(l.iter.func) == "enumerate"]
    ctx.need(len(loops) == 1 and isinstance(loops[0].target, ast.Tuple) and len(loops[0].target.elts) == 2, "gen_br_table_instruction: enumerate loop over the label table not found")
    loop = loops[0]
    idx, lab = (norm(e) for e in loop.target.elts)
    ctx.ob("C22.R7", site, "entries are numbered from 0 (enumerate without a start value)", len(loop.iter.args) == 1 and not loop.iter.keywords, construct="numbered-from-zero")
    tab = loop.iter.args[0]
    ok_tab = isinstance(tab, ast.Name)
    assigns = [n for n in walk_no_nested(fn) if isinstance(n, ast.Assign) and ok_tab and any(isinstance(t, ast.Name) and t.id == tab.id for t in n.targets)]
    def table_expr(e):
        """kinds of expressions that denote the label table (possibly less its last element), in table order"""
        t = norm(e)
        if t == "instruction.args[0]":
            return "table"
        if isinstance(e, ast.Call) and norm(e.func) in ("list", "tuple") and len(e.args) == 1 and table_expr(e.args[0]) == "table":
            return "table"
        if isinstance(e, ast.Subscript) and isinstance(e.slice, ast.Slice) and e.slice.lower is None and e.slice.step is None and e.slice.upper is not None and norm(e.slice.upper) == "-1":
            inner = e.value
            if (ok_tab and isinstance(inner, ast.Name) and inner.id == tab.id) or table_expr(inner) == "table":
                return "table-less-last"
        return None
    kinds = [table_expr(n.value) for n in assigns]
    pops = [c for c in ast.walk(fn) if isinstance(c, ast.Call) and isinstance(c.func, ast.Attribute) and c.func.attr == "pop" and ok_tab and norm(c.func.value) == tab.id]
    pops_last = [c for c in pops if len(c.args) == 1 and norm(c.args[0]) == "-1" or not c.args]
    removed = len(pops_last) + kinds.count("table-less-last")
    ok = ok_tab and bool(assigns) and all(kinds) and len(pops) == len(pops_last) and removed == 1
    ctx.ob("C22.R7", site, "the chain runs over the complete label table less its last entry, in table order (not filtered, de-duplicated, sorted or reversed: the compared index is the position in the table)", ok, construct="chain-over-whole-table",
           detail="; ".join(" ".join(norm(n).split())[:90] for n in assigns) + "; removals of the last entry: %d" % removed)
    cons = [c for c in ast.walk(loop) if isinstance(c, ast.Call) and norm(c.func) == "ir.Const"]
    cj = [c for c in ast.walk(loop) if isinstance(c, ast.Call) and norm(c.func) == "ir.CJump"]
    fenv = sym.single_assign_env(fn)
    env = dict(fenv)
    env.update(sym.single_assign_env(loop))
    ok = len(cons) == 1 and len(cj) == 1 and norm(cons[0].args[0]) == idx and len(cj[0].args) == 5
    if ok:
        a, op, b, yes, no = cj[0].args
        ok = try_const(op) == "==" and norm(sym.deep_inline(a, env)) == "self.pop_value()" and "ir.Const(%s," % idx in norm(sym.deep_inline(b, env))
        yes_t = norm(sym.deep_inline(yes, env))
        ok = ok and "get_jump_target_block(%s)" % lab in yes_t
        ok = ok and any(isinstance(c, ast.Call) and last_name(c) == "set_block" and norm(c.args[0]) == norm(no) for c in ast.walk(loop)) and "new_block" in norm(sym.deep_inline(no, env))
        ok = ok and not any(isinstance(x, (ast.If, ast.Continue, ast.Break)) for x in ast.walk(loop))
    ctx.ob("C22.R7", site, "every entry tests `operand == index` (index typed like the operand), jumps to that entry's label when equal and continues the chain in a fresh block otherwise", ok, construct="compare-chain", detail=norm(cj[0])[:90] if cj else "")
    after = [st for st in fn.body if st.lineno > loop.lineno]
    jm = [c for st in after for c in ast.walk(st) if isinstance(c, ast.Call) and norm(c.func) == "ir.Jump"]
    dflt = [n for n in walk_no_nested(fn) if isinstance(n, ast.Assign) and isinstance(n.value, (ast.Call, ast.Subscript)) and (n.value in pops_last or (isinstance(n.value, ast.Subscript) and norm(n.value.slice) == "-1" and table_expr(n.value.value) == "table" or (isinstance(n.value, ast.Subscript) and norm(n.value.slice) == "-1" and ok_tab and norm(n.value.value) == tab.id)))]
    ok = len(jm) == 1 and len(dflt) == 1
    if ok:
        envd = dict(fenv)
        envd.update(sym.single_assign_env(ast.Module(body=after, type_ignores=[])))
        d = norm(dflt[0].targets[0])
        t = norm(sym.deep_inline(jm[0].args[0], envd))
        ok = "get_jump_target_block(" in t and (d in t or norm(dflt[0].value) in t or norm(sym.deep_inline(dflt[0].value, envd)) in t)
    ctx.ob("C22.R7", site, "an operand that matches no entry (>= table length) jumps to the label stored last in the table", ok, construct="default-is-last", detail=norm(jm[0])[:80] if jm else "")
    # the translator does not edit the module
    mod = ctx.project.module(W)
    n_methods = 0
    bad = []
    for qq, f in mod.defs.items():
        if not qq.startswith("WasmToIrCompiler.") or not isinstance(f, ast.FunctionDef):
            continue
        n_methods += 1
        params = {a.arg for a in f.args.args + f.args.kwonlyargs} - {"self"}
        if not params:
            continue
        fenv = sym.single_assign_env(f)
        for n in ast.walk(f):
            recvs = []
            if isinstance(n, ast.Call) and isinstance(n.func, ast.Attribute) and n.func.attr in MUTATORS:
                recvs.append(n.func.value)
            elif isinstance(n, (ast.Assign, ast.AugAssign, ast.Delete)):
                ts = n.targets if not isinstance(n, ast.AugAssign) else [n.target]
                recvs += [t.value for t in ts if isinstance(t, (ast.Subscript, ast.Attribute))]
            for r in recvs:
                full = sym.deep_inline(r, fenv)
                root = full
                while isinstance(root, (ast.Attribute, ast.Subscript)):
                    root = root.value
                if isinstance(root, ast.Name) and root.id in params and (qq, root.id) not in NOT_MODULE_DATA:
                    bad.append((qq, n, "%s (is %s)" % (norm(r), norm(full))))
    ctx.need(n_methods >= 40, "WasmToIrCompiler: only %d methods scanned" % n_methods)
    ctx.ob("C22.R7", W + ":WasmToIrCompiler", "no method modifies, in place, data reached from its parameters (instructions, their argument lists, components of the module): the same Module object is translated again for the other target and written out again",
           not bad, construct="module-not-mutated", node=bad[0][1] if bad else None, detail="; ".join("%s line %d: %s" % (a, b.lineno, c) for a, b, c in bad[:4]))


def _sign_wrap(ctx):
    """R8: wasm integers are kept as SIGNED Python ints.  make_int(v, bits) is what turns the unsigned result of
    *.trunc_*_u (and an unsigned literal of the text format) into that representation."""
    from .. import sym
    U = "ppci/wasm/util.py"
    ctx.rule("C22.R8", "make_int(v, bits) maps an unsigned value to the signed representation: exactly the values >= 2^(bits-1) have 2^bits subtracted (2^(bits-1) itself becomes the most negative number)", floor=3)
    fn = ctx.fn(U, "make_int")
    site = U + ":make_int"
    env = sym.single_assign_env(fn)
    subs = [n for n in ast.walk(fn) if isinstance(n, ast.AugAssign) and isinstance(n.op, ast.Sub) and norm(n.target) == "v"]
    ctx.need(len(subs) == 1, "make_int: the wrap `v -= ...` was not found")
    amount = sym.pow2_exp(subs[0].value, env)
    ctx.ob("C22.R8", site, "the amount subtracted is 2^bits", amount is not None and amount == sym.atom("bits"), construct="wrap-amount", detail=norm(subs[0]))
    conds = [(c, pol) for c, pol in sym.conjuncts(subs[0], fn, env) if "v" in {x.id for x in ast.walk(c) if isinstance(x, ast.Name)}]
    ok = False
    det = "; ".join("%s%s" % ("" if pol else "not ", " ".join(norm(c).split())) for c, pol in conds)
    if len(conds) == 1 and isinstance(conds[0][0], ast.Compare) and len(conds[0][0].ops) == 1:
        c, pol = conds[0]
        op = type(c.ops[0])
        if not pol:
            op = {ast.Lt: ast.GtE, ast.LtE: ast.Gt, ast.Gt: ast.LtE, ast.GtE: ast.Lt}.get(op, op)
        left, right = c.left, c.comparators[0]
        if norm(right) == "v":      # T <= v  ->  v >= T
            left, right = right, left
            op = {ast.Lt: ast.Gt, ast.LtE: ast.GtE, ast.Gt: ast.Lt, ast.GtE: ast.LtE}.get(op, op)
        if norm(left) == "v":
            half = sym.atom("bits") - sym.const(1)
            if op is ast.GtE:
                e = sym.pow2_exp(right, env)
                ok = e is not None and e == half
            elif op is ast.Gt and isinstance(right, ast.BinOp) and isinstance(right.op, ast.Sub) and norm(right.right) == "1":
                e = sym.pow2_exp(right.left, env)
                ok = e is not None and e == half
    ctx.ob("C22.R8", site, "it is subtracted exactly when v >= 2^(bits-1) (the bound is inclusive: 0x80000000 is INT_MIN)", ok, construct="wrap-threshold", detail=det)
    guard = any(pol is True and " ".join(norm(c).split()) == "bits is not None" for c, pol in sym.conjuncts(subs[0], fn, {}))
    ctx.ob("C22.R8", site, "the wrap is applied whenever a width is given", guard, construct="wrap-when-bits")
    rt = ctx.project.module("ppci/wasm/execution/runtime.py")
    uses = [c for c in ast.walk(rt.tree) if isinstance(c, ast.Call) and norm(c.func) == "make_int"]
    widths = sorted({norm(c.args[1]) for c in uses if len(c.args) == 2})
    ctx.ob("C22.R8", "ppci/wasm/execution/runtime.py", "the unsigned truncations hand their result to make_int with the width of the result type (%d uses)" % len(uses), len(uses) >= 8 and widths == ["32", "64"], construct="runtime-uses", detail=str(widths))


def _reaching(body, env, events):
    """reaching definitions over a statement list with if/else: env maps a local name to the set of expression nodes
    it may hold; events collects (call node, copy of env) for every self.push_value / self.emit call in program order.
    Returns the env after the list, or None when every path left the function."""
    for st in body:
        if env is None:
            return None
        if isinstance(st, ast.If):
            a = _reaching(st.body, {k: set(v) for k, v in env.items()}, events)
            b = _reaching(st.orelse, {k: set(v) for k, v in env.items()}, events)
            if a is None or b is None:
                env = a if b is None else b
            else:
                env = {k: a.get(k, set()) | b.get(k, set()) for k in set(a) | set(b)}
            continue
        if isinstance(st, (ast.Return, ast.Raise)):
            return None
        for c in ast.walk(st):
            if isinstance(c, ast.Call) and norm(c.func) in ("self.push_value", "self.emit"):
                events.append((c, {k: set(v) for k, v in env.items()}))
        if isinstance(st, ast.Assign) and len(st.targets) == 1:
            t = st.targets[0]
            if isinstance(t, ast.Name):
                env[t.id] = {st.value}
            elif isinstance(t, ast.Tuple):
                for e in t.elts:
                    if isinstance(e, ast.Name):
                        env[e.id] = {st.value}
        elif isinstance(st, (ast.For, ast.While, ast.With, ast.Try)):
            for n in ast.walk(st):
                if isinstance(n, ast.Name) and isinstance(n.ctx, ast.Store):
                    env[n.id] = {st}
    return env


def _is_emit_of(e, kinds):
    return isinstance(e, ast.Call) and norm(e.func) == "self.emit" and len(e.args) == 1 and isinstance(e.args[0], ast.Call) and norm(e.args[0].func) in kinds


def _fresh_accesses(ctx):
    """C22.R9.  A wasm local, global, table slot or memory cell can be written between two reads by anything that runs
    in between - a call, call_indirect or an imported function included.  The translation is therefore only right when
    each read instruction emits its own ir.Load and pushes that load's result, and each write instruction emits an
    ir.Store, on every path through its generator."""
    ctx.rule("C22.R9", "every read instruction reads and every write instruction writes: the value pushed by local.get / global.get / table.get / *.load is, on every path, the result of an ir.Load emitted by that very generator call (nothing remembered from an earlier instruction), and local.set / global.set / table.set / *.store emit exactly one ir.Store on every path; the memory base is loaded per access", floor=12)
    def resolve(e, env, depth=0):
        """set of 'origins' of a pushed expression: 'load' (fresh emit(ir.Load)), 'other:<text>'"""
        if _is_emit_of(e, ("ir.Load",)):
            return {"load"}
        if _is_emit_of(e, ("ir.Cast",)) and e.args[0].args:
            return resolve(e.args[0].args[0], env, depth + 1)
        if isinstance(e, ast.Name) and e.id in env and depth < 6:
            out = set()
            for d in env[e.id]:
                out |= resolve(d, env_at.get(id(d), {}), depth + 1) if isinstance(d, ast.AST) and id(d) in env_at else {"other:" + norm(d)[:50]}
            return out
        return {"other:" + norm(e)[:50]}
    for q in ("gen_local_get", "gen_global_get", "gen_table_get", "gen_load"):
        fn = ctx.fn(W, "WasmToIrCompiler." + q)
        events = []
        env_at = {}
        # record, for every assigned value expression, the env that was current when it was evaluated
        def rec(body, env):
            for st in body:
                if isinstance(st, ast.If):
                    rec(st.body, dict(env)); rec(st.orelse, dict(env))
                    for n in ast.walk(st):
                        if isinstance(n, ast.Assign) and isinstance(n.targets[0], ast.Name):
                            env[n.targets[0].id] = env.get(n.targets[0].id, set()) | {n.value}
                    continue
                if isinstance(st, ast.Assign) and len(st.targets) == 1 and isinstance(st.targets[0], ast.Name):
                    env_at[id(st.value)] = {k: set(v) for k, v in env.items()}
                    env[st.targets[0].id] = {st.value}
        rec(fn.body, {})
        end = _reaching(fn.body, {}, events)
        pushes = [(c, env) for c, env in events if norm(c.func) == "self.push_value"]
        site = "%s:WasmToIrCompiler.%s" % (W, q)
        ctx.ob("C22.R9", site, "the generator pushes one value", len(pushes) >= 1, construct="pushes:" + q)
        for c, env in pushes:
            org = resolve(c.args[0], env)
            ctx.ob("C22.R9", site, "the pushed value is on every path the result of an ir.Load this call emitted", org == {"load"}, construct="fresh-load:" + q, node=c, detail="origins: %s" % sorted(org))
        stores_attr = [n for n in ast.walk(fn) if isinstance(n, (ast.Assign, ast.AugAssign)) and any(isinstance(t, (ast.Attribute, ast.Subscript)) and norm(t).startswith("self.") for t in (n.targets if isinstance(n, ast.Assign) else [n.target]))]
        ctx.ob("C22.R9", site, "the generator keeps nothing on the compiler object for a later instruction", not stores_attr, construct="no-memo:" + q, node=stores_attr[0] if stores_attr else fn, detail="; ".join(norm(n)[:60] for n in stores_attr))
    for q in ("gen_local_set", "gen_global_set", "gen_table_set", "gen_store"):
        fn = ctx.fn(W, "WasmToIrCompiler." + q)
        site = "%s:WasmToIrCompiler.%s" % (W, q)
        def count(body):
            """set of possible numbers of emitted stores over the paths through body"""
            tot = {0}
            for st in body:
                if isinstance(st, ast.If):
                    a, b = count(st.body), count(st.orelse)
                    tot = {x + y for x in tot for y in a | b}
                    continue
                n = sum(1 for c in ast.walk(st) if _is_emit_of(c, ("ir.Store",)))
                tot = {x + n for x in tot}
            return tot
        cnt = count(fn.body)
        ctx.ob("C22.R9", site, "exactly one ir.Store is emitted on every path", cnt == {1}, construct="stores:" + q, detail="stores per path: %s" % sorted(cnt))
        stores_attr = [n for n in ast.walk(fn) if isinstance(n, (ast.Assign, ast.AugAssign)) and any(isinstance(t, (ast.Attribute, ast.Subscript)) and norm(t).startswith("self.") for t in (n.targets if isinstance(n, ast.Assign) else [n.target]))]
        ctx.ob("C22.R9", site, "the generator keeps nothing on the compiler object for a later instruction", not stores_attr, construct="no-memo:" + q, node=stores_attr[0] if stores_attr else fn, detail="; ".join(norm(n)[:60] for n in stores_attr))
    ma = ctx.fn(W, "WasmToIrCompiler.get_memory_address")
    lo = [c for c in ast.walk(ma) if _is_emit_of(c, ("ir.Load",)) and norm(c.args[0].args[0]) == "self.memory_base_address"]
    ctx.ob("C22.R9", W + ":WasmToIrCompiler.get_memory_address", "the memory base is loaded for every access (memory.grow in a callee may move the memory)", len(lo) == 1 and not any(isinstance(a, (ast.If, ast.For, ast.While)) for a in _anc22(lo[0], ma)), construct="fresh-base")


def _anc22(n, stop):
    out = []
    n = getattr(n, "_parent", None)
    while n is not None and n is not stop:
        out.append(n)
        n = getattr(n, "_parent", None)
    return out
