"""Analysis of instruction-selection pattern functions against the declared
operand read/write flags (contradiction rule, DESIGN.md C07/R1)."""
import ast

from .core import norm, walk_no_nested, call_name, last_name, params_of, attr_chain, names_in


class IsaModel:
    def __init__(self, dump, arch):
        self.arch = arch
        a = dump["archs"][arch]
        self.a = a
        self.by_class = {}
        for c in a["instructions"] + a["constructors"]:
            self.by_class.setdefault(c["uid"], c)
        self.module_names = dump.get("module_names", {})

    def resolve(self, module, varname):
        """declaration of the instruction/constructor that `varname` denotes in `module`"""
        modname = module.modname
        cname = self.module_names.get(modname, {}).get(varname)
        if cname is None:
            # imported name: search all arch modules of the same package
            pkg = modname.rsplit(".", 1)[0]
            for mn, d in self.module_names.items():
                if mn.startswith(pkg) and varname in d:
                    cname = d[varname]
                    break
        if cname is None:
            return None
        return self.by_class.get(cname)

    @staticmethod
    def formal(decl):
        """operand names in syntax (constructor argument) order"""
        return [e["op"] for e in decl["syntax"] if isinstance(e, dict)]

    @staticmethod
    def operand(decl, name):
        for o in decl["operands"]:
            if o["name"] == name or o["attr"] == name:
                return o
        return None


def find_pattern_function(project, pat):
    """FunctionDef for a dumped pattern record"""
    rel = "ppci/" + pat["file"] if pat["file"] else None
    m = project.modules.get(rel)
    if m is None:
        return None
    best = None
    for n in ast.walk(m.tree):
        if isinstance(n, ast.FunctionDef) and n.name == pat["method"]:
            first = n.decorator_list[0].lineno if n.decorator_list else n.lineno
            d = abs(first - (pat["line"] or first))
            if best is None or d < best[0]:
                best = (d, n)
    if best is None:
        return None
    fn = best[1]
    if not hasattr(fn, "_module"):
        fn._module = m
        fn._qualname = fn.name
    return fn


class RegUse:
    """one register argument at one emitted instruction"""
    def __init__(self, var, origin, read, write, call, cls, opname):
        self.var, self.origin, self.read, self.write, self.call, self.cls, self.opname = var, origin, read, write, call, cls, opname


def analyse_pattern(model, fn):
    """Walk the pattern function in source order.  Returns (events, returns,
    problems) where events are ('new', var) / ('move', dst, src) /
    ('emit', [RegUse...]) in order."""
    ps = params_of(fn)
    children = set(ps[2:]) if len(ps) > 2 else set()
    events = []
    unresolved = []

    def origin_of(name, fresh):
        if name in children:
            return "child"
        if name in fresh:
            return "fresh"
        return "other"

    fresh = set()

    def uses_of_call(call, depth=0):
        """register uses of Cls(args) (recursively through nested constructors)"""
        out = []
        cn = call_name(call)
        if cn is None:
            return out
        decl = model.resolve(fn._module, cn.split(".")[-1])
        if decl is None:
            unresolved.append(cn)
            return out
        formal = model.formal(decl)
        pairs = list(zip(formal, call.args))
        for k in call.keywords:
            if k.arg:
                pairs.append((k.arg, k.value))
        for opname, arg in pairs:
            o = model.operand(decl, opname)
            if o is None:
                continue
            if isinstance(arg, ast.Name):
                if o["is_register"]:
                    out.append(RegUse(arg.id, origin_of(arg.id, fresh), o["read"], o["write"], call, decl["name"], opname))
            elif isinstance(arg, ast.Call) and depth < 3:
                out += uses_of_call(arg, depth + 1)
        return out

    stmts = [n for n in walk_no_nested(fn) if isinstance(n, ast.stmt) and n is not fn]
    stmts.sort(key=lambda s: (s.lineno, s.col_offset))
    for st in stmts:
        if isinstance(st, ast.Assign) and isinstance(st.value, ast.Call) and last_name(st.value) == "new_reg" and isinstance(st.targets[0], ast.Name):
            fresh.add(st.targets[0].id)
            events.append(("new", st.targets[0].id, st))
        elif isinstance(st, ast.Expr) and isinstance(st.value, ast.Call):
            c = st.value
            ln = last_name(c)
            if ln == "move" and len(c.args) == 2 and isinstance(c.args[0], ast.Name):
                src = c.args[1].id if isinstance(c.args[1], ast.Name) else None
                events.append(("move", c.args[0].id, src, st))
            elif ln == "emit" and c.args:
                arg = c.args[0]
                if isinstance(arg, ast.Name):
                    # Code = Cls(...); ...; context.emit(Code)
                    cands = [n.value for n in walk_no_nested(fn) if isinstance(n, ast.Assign) and isinstance(n.targets[0], ast.Name) and n.targets[0].id == arg.id and isinstance(n.value, ast.Call) and n.lineno < st.lineno]
                    arg = cands[-1] if cands else arg
                if isinstance(arg, ast.Call):
                    before = len(unresolved)
                    uses = uses_of_call(arg)
                    if len(unresolved) > before and not uses:
                        events.append(("opaque", None, st))
                    else:
                        events.append(("emit", uses, st))
                else:
                    events.append(("opaque", None, st))
            elif ln not in ("move", "emit", "new_reg", "debug", "warning", "info"):
                # helper call that may emit instructions on its own (context.gen_call, self.emit_li ...)
                events.append(("opaque", None, st))
    rets = [n.value for n in walk_no_nested(fn) if isinstance(n, ast.Return) and n.value is not None]
    return events, rets, children, fresh, unresolved
