"""Rename-invariance for the rule modules.

Rules identify locals and parameters of anchored functions by the names they have on the tree the rules were
written against (`holes`, `delta`, `tmp`, ...).  A consistent rename of a local or a parameter is behaviour
preserving and must not raise an alarm.  This module maps the CURRENT names of a function back to the names the
rules expect, by a structural fingerprint of each name's first binding (its defining statement with every local
name blanked out) - parameters by position.  The expected names live in sa/localnames.json (generated from the
tree by tools/gen_localnames.py).  Only names whose binding still has the same fingerprint are mapped; when the
code around a binding really changed nothing is renamed and the rules see the code as it is.

The rename is applied to the parsed AST in memory (Name.id / arg.arg); nothing on disk is touched."""
import ast
import json
import os

TABLE = os.path.join(os.path.dirname(os.path.abspath(__file__)), "localnames.json")
_table = None


def table():
    global _table
    if _table is None:
        try:
            with open(TABLE) as fh:
                _table = json.load(fh)
        except OSError:
            _table = {}
    return _table


def _own_nodes(fn):
    """nodes of fn's own scope: nested function / lambda / class bodies are not entered"""
    todo = list(fn.body)
    while todo:
        n = todo.pop()
        yield n
        if isinstance(n, (ast.FunctionDef, ast.AsyncFunctionDef, ast.Lambda, ast.ClassDef)):
            continue
        todo.extend(ast.iter_child_nodes(n))


def nested_functions(fn):
    """(key suffix, FunctionDef) of functions defined directly or indirectly inside fn"""
    out = []
    def rec(node, prefix):
        for c in ast.iter_child_nodes(node):
            if isinstance(c, (ast.FunctionDef, ast.AsyncFunctionDef)):
                out.append((prefix + "/" + c.name, c))
                rec(c, prefix + "/" + c.name)
            elif not isinstance(c, (ast.ClassDef, ast.Lambda)):
                rec(c, prefix)
    rec(fn, "")
    return out


def params_of(fn):
    a = fn.args
    return [p.arg for p in a.posonlyargs + a.args + a.kwonlyargs] + ([a.vararg.arg] if a.vararg else []) + ([a.kwarg.arg] if a.kwarg else [])


def _blank(expr, names):
    """source text of expr with every Name in `names` printed as `_` (in place and restored: no deep copy, the trees carry parent links)"""
    hit = [n for n in ast.walk(expr) if isinstance(n, ast.Name) and n.id in names]
    old = [n.id for n in hit]
    try:
        for n in hit:
            n.id = "_"
        return ast.unparse(expr)
    except Exception:
        return "?"
    finally:
        for n, o in zip(hit, old):
            n.id = o


def bindings(fn):
    """ordered list of (name, fingerprint) for the first binding of every local of fn's own scope"""
    ps = set(params_of(fn))
    stores = []
    glob = set()
    for n in ast.walk(fn):
        if isinstance(n, (ast.Global, ast.Nonlocal)):
            glob |= set(n.names)
    # collect binding sites in source order
    sites = []
    for n in _own_nodes(fn):
        if isinstance(n, ast.Assign):
            for t in n.targets:
                if isinstance(t, ast.Name):
                    sites.append((t.lineno, t.col_offset, t.id, ("assign", n.value)))
                elif isinstance(t, (ast.Tuple, ast.List)):
                    for i, e in enumerate(t.elts):
                        if isinstance(e, ast.Name):
                            sites.append((e.lineno, e.col_offset, e.id, ("assign%d" % i, n.value)))
        elif isinstance(n, ast.AnnAssign) and isinstance(n.target, ast.Name) and n.value is not None:
            sites.append((n.target.lineno, n.target.col_offset, n.target.id, ("assign", n.value)))
        elif isinstance(n, ast.AugAssign) and isinstance(n.target, ast.Name):
            sites.append((n.target.lineno, n.target.col_offset, n.target.id, ("aug" + type(n.op).__name__, n.value)))
        elif isinstance(n, (ast.For, ast.AsyncFor, ast.comprehension)):
            t = n.target
            kind = "for" if not isinstance(n, ast.comprehension) else "comp"
            if isinstance(t, ast.Name):
                sites.append((t.lineno, t.col_offset, t.id, (kind, n.iter)))
            elif isinstance(t, (ast.Tuple, ast.List)):
                for i, e in enumerate(t.elts):
                    if isinstance(e, ast.Name):
                        sites.append((e.lineno, e.col_offset, e.id, ("%s%d" % (kind, i), n.iter)))
        elif isinstance(n, ast.withitem) and isinstance(n.optional_vars, ast.Name):
            sites.append((n.optional_vars.lineno, n.optional_vars.col_offset, n.optional_vars.id, ("with", n.context_expr)))
        elif isinstance(n, ast.ExceptHandler) and n.name:
            sites.append((n.lineno, n.col_offset, n.name, ("except", n.type or ast.Constant(value=None))))
    sites.sort(key=lambda s: (s[0], s[1]))
    seen = set()
    first = []
    for ln, col, name, (kind, expr) in sites:
        if name in seen or name in ps or name in glob or name == "_":
            continue
        seen.add(name)
        first.append((name, kind, expr))
    names = seen | ps
    out = []
    for name, kind, expr in first:
        out.append((name, "%s:%s" % (kind, _blank(expr, names))))
    return out


def describe(fn):
    """entry for the table: parameters by position, locals by (fingerprint, occurrence)"""
    occ = {}
    loc = []
    for name, fp in bindings(fn):
        k = occ.get(fp, 0)
        occ[fp] = k + 1
        loc.append([fp, k, name])
    return {"params": params_of(fn), "locals": loc}


def _rename_in_scope(fn, mapping):
    """rename Names / args of fn according to mapping, in fn and every nested scope that does not re-bind the name as a parameter"""
    def walk(node, active):
        for c in ast.iter_child_nodes(node):
            if isinstance(c, (ast.FunctionDef, ast.AsyncFunctionDef, ast.Lambda)):
                a = c.args
                shadow = {p.arg for p in a.posonlyargs + a.args + a.kwonlyargs} | ({a.vararg.arg} if a.vararg else set()) | ({a.kwarg.arg} if a.kwarg else set())
                walk(c, {k: v for k, v in active.items() if k not in shadow})
                continue
            if isinstance(c, ast.Name) and c.id in active:
                c.id = active[c.id]
            elif isinstance(c, ast.ExceptHandler) and c.name in active:
                c.name = active[c.name]
            walk(c, active)
    a = fn.args
    for p in a.posonlyargs + a.args + a.kwonlyargs + ([a.vararg] if a.vararg else []) + ([a.kwarg] if a.kwarg else []):
        if p.arg in mapping:
            p.arg = mapping[p.arg]
    for st in fn.body:
        if isinstance(st, ast.Name) and st.id in mapping:
            st.id = mapping[st.id]
    walk(fn, dict(mapping))
    # keyword arguments in calls to a renamed nested function are not touched (they name parameters of another scope)


def normalise_function(fn, entry):
    """map the current names of fn back to the expected ones; returns the mapping applied"""
    cur_params = params_of(fn)
    exp_params = entry.get("params", [])
    mapping = {}
    if len(cur_params) == len(exp_params):
        for c, e in zip(cur_params, exp_params):
            if c != e:
                mapping[c] = e
    exp_locals = entry.get("locals", [])
    exp_names = {e[2] for e in exp_locals}
    if not mapping:
        # cheap test first: same set of stored names -> nothing was renamed
        quick = set()
        for n in _own_nodes(fn):
            if isinstance(n, ast.Name) and isinstance(n.ctx, ast.Store):
                quick.add(n.id)
            elif isinstance(n, ast.ExceptHandler) and n.name:
                quick.add(n.name)
        if exp_names <= quick | set(cur_params) | {"_"} and not (quick - exp_names - set(cur_params) - {"_"}):
            return {}
    cur = bindings(fn)
    cur_names = {n for n, _ in cur}
    if cur_names != exp_names or mapping:
        # fingerprints must be computed with the parameter names the table was generated with
        occ = {}
        cur_by_key = {}
        for name, fp in cur:
            k = occ.get(fp, 0)
            occ[fp] = k + 1
            cur_by_key[(fp, k)] = name
        for fp, k, ename in exp_locals:
            cname = cur_by_key.get((fp, k))
            if cname is not None and cname != ename:
                mapping[cname] = ename
    if not mapping:
        return {}
    # a target name that is still in use by another (unmapped) current name would merge two variables: drop such entries
    used = (cur_names | set(cur_params)) - set(mapping)
    mapping = {c: e for c, e in mapping.items() if e not in used}
    # apply through temporaries so that swaps work
    tmp = {c: "__ln_%d__" % i for i, c in enumerate(mapping)}
    _rename_in_scope(fn, tmp)
    _rename_in_scope(fn, {tmp[c]: e for c, e in mapping.items()})
    return mapping


def normalise_module(module):
    """apply the table to every function of a parsed module (sa.core.Module)"""
    t = table().get(module.rel)
    if not t:
        return 0
    n = 0
    for qual, node in module.defs.items():
        if isinstance(node, (ast.FunctionDef, ast.AsyncFunctionDef)):
            if qual in t and normalise_function(node, t[qual]):
                n += 1
            for suffix, inner in nested_functions(node):
                if qual + suffix in t and normalise_function(inner, t[qual + suffix]):
                    n += 1
    return n


def describe_module(module):
    out = {}
    for qual, node in module.defs.items():
        if isinstance(node, (ast.FunctionDef, ast.AsyncFunctionDef)):
            d = describe(node)
            if d["params"] or d["locals"]:
                out[qual] = d
            for suffix, inner in nested_functions(node):
                d = describe(inner)
                if d["params"] or d["locals"]:
                    out[qual + suffix] = d
    return out
