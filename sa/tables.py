"""Table/serializer extraction: dispatch branches, keys written, keys read,
and where a read key ends up (constructor parameter or attribute)."""
import ast

from .core import (norm, walk_no_nested, attr_chain, call_name, last_name, params_of, try_const,
                   resolve_call, names_in)


def isinstance_branches(fn, var):
    """{class name: (test node, [stmts])} of an if/elif chain on isinstance(var, C)"""
    out = {}
    for n in walk_no_nested(fn):
        if isinstance(n, ast.If):
            t = n.test
            if isinstance(t, ast.BoolOp) and isinstance(t.op, ast.And):
                cands = [v for v in t.values if isinstance(v, ast.Call) and call_name(v) == "isinstance" and len(v.args) == 2 and norm(v.args[0]) == var]
                if len(cands) == 1:
                    t = cands[0]
            if isinstance(t, ast.Call) and call_name(t) == "isinstance" and len(t.args) == 2 and norm(t.args[0]) == var:
                cl = t.args[1]
                elts = cl.elts if isinstance(cl, ast.Tuple) else [cl]
                for e in elts:
                    ch = attr_chain(e)
                    if ch:
                        out.setdefault(ch, (n, n.body))
    return out


def eq_branches(fn, var):
    """{constant: (if node, [stmts])} for `if var == K` / `elif var == K` / `var in (K1, K2)`"""
    out = {}
    for n in walk_no_nested(fn):
        if isinstance(n, ast.If):
            t = n.test
            if isinstance(t, ast.Compare) and len(t.ops) == 1 and norm(t.left) == var:
                if isinstance(t.ops[0], ast.Eq):
                    k = try_const(t.comparators[0])
                    if k is not None:
                        out.setdefault(k, (n, n.body))
                elif isinstance(t.ops[0], ast.In):
                    ks = try_const(t.comparators[0])
                    if isinstance(ks, (list, tuple, set)):
                        for k in ks:
                            out.setdefault(k, (n, n.body))
    return out


class Written:
    def __init__(self, key, value, node, guards):
        self.key, self.value, self.node, self.guards = key, value, node, guards


def dict_writes(stmts, resvar=None, top=None):
    """keys written in a statement list: `resvar["k"] = v` stores and Dict
    literals (returned, appended or assigned).  guards = [(test, polarity)]
    of the ifs between `top` statements and the write."""
    out = []

    def guards_of(node):
        g = []
        child, p = node, getattr(node, "_parent", None)
        while p is not None and not any(child is s for s in stmts) and not isinstance(child, ast.FunctionDef):
            if isinstance(p, ast.If):
                if any(child is b for b in p.body):
                    g.append((p.test, True))
                elif any(child is b for b in p.orelse):
                    g.append((p.test, False))
            child, p = p, getattr(p, "_parent", None)
        return g

    for st in stmts:
        for n in walk_no_nested(st):
            if isinstance(n, ast.Assign) and resvar is not None:
                for t in n.targets:
                    if isinstance(t, ast.Subscript) and norm(t.value) == resvar:
                        k = try_const(t.slice)
                        if isinstance(k, str):
                            out.append(Written(k, n.value, n, guards_of(n)))
            if isinstance(n, ast.Dict):
                # only outermost dict literals of this statement level: skip dicts nested in a dict value
                p = getattr(n, "_parent", None)
                if isinstance(p, ast.Dict):
                    continue
                for k, v in zip(n.keys, n.values):
                    kk = try_const(k) if k is not None else None
                    if isinstance(kk, str):
                        out.append(Written(kk, v, n, guards_of(n)))
    return out


def key_reads(stmts, var):
    """{key: [nodes]} for var["k"], var.get("k"), "k" in var  inside stmts"""
    out = {}
    for st in stmts:
        for n in walk_no_nested(st):
            if isinstance(n, ast.Subscript) and isinstance(n.ctx, ast.Load) and norm(n.value) == var:
                k = try_const(n.slice)
                if isinstance(k, str):
                    out.setdefault(k, []).append(n)
            elif isinstance(n, ast.Call) and last_name(n) in ("get", "pop") and isinstance(n.func, ast.Attribute) and norm(n.func.value) == var and n.args:
                k = try_const(n.args[0])
                if isinstance(k, str):
                    out.setdefault(k, []).append(n)
            elif isinstance(n, ast.Compare) and len(n.ops) == 1 and isinstance(n.ops[0], (ast.In, ast.NotIn)) and norm(n.comparators[0]) == var:
                k = try_const(n.left)
                if isinstance(k, str):
                    out.setdefault(k, []).append(n)
    return out


def source_field(value, objvar):
    """attribute of objvar a written value is taken from:  hex(x.address) -> 'address'"""
    for n in ast.walk(value):
        if isinstance(n, ast.Attribute):
            ch = attr_chain(n)
            if ch and ch.split(".")[0] == objvar:
                return ch.split(".")[1]
    return None


def wrappers_of(value, objvar):
    """names of calls wrapped around the object attribute in a written value"""
    out = []
    n = value
    while isinstance(n, ast.Call):
        out.append(last_name(n))
        nxt = [a for a in n.args if objvar in names_in(a)]
        if not nxt:
            break
        n = nxt[0]
    return out


def ctor_param(project, fn, call, argnode):
    """parameter name of class constructor `call` that receives argnode"""
    mod = fn._module if hasattr(fn, "_module") else None
    ch = attr_chain(call.func)
    if mod is None or ch is None:
        return None
    r = project.resolve_name(mod, ch)
    init = None
    if isinstance(r, ast.ClassDef):
        init = project.find_method(r, "__init__")
        skip = 1
    elif isinstance(r, ast.FunctionDef):
        init, skip = r, 0
    else:
        callee = resolve_call(project, fn, call)
        if callee is None and isinstance(call.func, ast.Attribute) and isinstance(call.func.value, ast.Name):
            from .core import infer_class
            c = infer_class(project, fn, call.func.value.id)
            if c is not None:
                callee = project.find_method(c, call.func.attr)
        if callee is not None:
            init, skip = callee, (1 if params_of(callee)[:1] in (["self"], ["cls"]) else 0)
    if init is None:
        return None
    ps = params_of(init)[skip:]
    for i, a in enumerate(call.args):
        if a is argnode and i < len(ps):
            return ps[i]
    for k in call.keywords:
        if k.value is argnode:
            return k.arg
    return None


def sink_of(project, fn, read_node, depth=0):
    """Where does the value read at read_node end up?  Returns a set of
    ('param', name) / ('attr', name) / ('local', name)."""
    out = set()
    node = read_node
    wraps = []
    p = getattr(node, "_parent", None)
    while p is not None:
        if isinstance(p, ast.keyword):
            p = getattr(p, "_parent", None)
            continue
        if isinstance(p, ast.Call) and any(a is node for a in p.args) or (isinstance(p, ast.Call) and any(k.value is node for k in p.keywords)):
            prm = ctor_param(project, fn, p, node)
            ch = attr_chain(p.func) or ""
            r = project.resolve_name(fn._module, ch) if ch and hasattr(fn, "_module") else None
            if isinstance(r, ast.ClassDef) and prm:
                out.add(("param", param_field(project, r, prm)))
                return out
            if last_name(p) in ("add_symbol", "add_field") and prm:
                out.add(("param", prm))
                return out
            wraps.append(last_name(p))
            node, p = p, getattr(p, "_parent", None)
            continue
        if isinstance(p, ast.Assign) and p.value is node:
            for t in p.targets:
                if isinstance(t, ast.Attribute):
                    out.add(("attr", t.attr))
                elif isinstance(t, ast.Name) and depth < 3:
                    # follow the local to its uses
                    for u in _later_uses(p, t.id):
                        out |= sink_of(project, fn, u, depth + 1)
                    if not out:
                        out.add(("local", t.id))
            return out
        if isinstance(p, (ast.stmt,)):
            return out
        node, p = p, getattr(p, "_parent", None)
    return out


def param_field(project, cls, param):
    """name of the attribute that constructor parameter `param` is stored in
    (self.F = param in an __init__ along the MRO), else the parameter name"""
    for c in project.mro(cls):
        for st in c.body:
            if isinstance(st, ast.FunctionDef) and st.name == "__init__" and param in params_of(st):
                for n in walk_no_nested(st):
                    if isinstance(n, ast.Assign) and isinstance(n.value, ast.Name) and n.value.id == param:
                        for t in n.targets:
                            if isinstance(t, ast.Attribute) and isinstance(t.value, ast.Name) and t.value.id == "self":
                                return t.attr
                # passed up to super().__init__(param, ...) : keep looking in bases with the same name
                return param if not any(isinstance(n, ast.Call) and attr_chain(n.func) == "super().__init__" for n in ast.walk(st)) else _super_field(project, c, st, param)
    return param


def _super_field(project, cls, init, param):
    for n in ast.walk(init):
        if isinstance(n, ast.Call) and isinstance(n.func, ast.Attribute) and n.func.attr == "__init__" and isinstance(n.func.value, ast.Call) and attr_chain(n.func.value.func) == "super":
            for i, a in enumerate(n.args):
                if isinstance(a, ast.Name) and a.id == param:
                    for b in project.bases(cls):
                        binit = project.find_method(b, "__init__")
                        if binit is not None:
                            ps = params_of(binit)[1:]
                            if i < len(ps):
                                owner = enclosing_class(binit)
                                return param_field(project, owner if owner is not None else b, ps[i])
    return param


def enclosing_class(fn):
    p = getattr(fn, "_parent", None)
    while p is not None and not isinstance(p, ast.ClassDef):
        p = getattr(p, "_parent", None)
    return p


def _later_uses(assign, name):
    """Load uses of `name` in the statements that follow `assign` in its own
    statement list (up to the next re-assignment of the name)."""
    parent = getattr(assign, "_parent", None)
    body = None
    for field in ("body", "orelse", "finalbody"):
        b = getattr(parent, field, None)
        if isinstance(b, list) and any(x is assign for x in b):
            body = b
    if body is None:
        return []
    idx = [i for i, x in enumerate(body) if x is assign][0]
    out = []
    for st in body[idx + 1:]:
        for u in ast.walk(st):
            if isinstance(u, ast.Name) and u.id == name and isinstance(u.ctx, ast.Load):
                out.append(u)
        if isinstance(st, ast.Assign) and any(isinstance(t, ast.Name) and t.id == name for t in st.targets):
            break
    return out
